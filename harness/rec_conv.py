"""Recursive classes in which the class itself is reached again under *another* conversion (a field-level conversion on a field of the class's own type,
or on a container of it): the conversion in force at a position is part of what is being compiled there.
 C04: the image applies each field's conversion and only that one;  C07: the image validates against the serialization schema;
 C06: deserialize and the deserialization schema agree on data of both shapes."""
import collections, random
from common import build_module, case_hash

SRC = '''
from dataclasses import dataclass, field
from typing import *
from apischema.metadata import conversion

def tag(i: int) -> str:
    return "#" + str(i)

@dataclass
class RNode{i}:
    value: int = 0
    tagged: List[Union[int, "RNode{i}"]] = field(default_factory=list, metadata=conversion(serialization=tag))
    plain: List[Union[int, "RNode{i}"]] = field(default_factory=list)

@dataclass
class Forest{i}:
    roots: List[RNode{i}] = field(default_factory=list)
    loose: List[Union[int, RNode{i}]] = field(default_factory=list)

@dataclass
class Summary{i}:
    depth: int
    root: "SNode{i}"

def summarize{i}(n: "SNode{i}") -> Summary{i}:
    return Summary{i}(1, SNode{i}(n.value))

@dataclass
class SNode{i}:
    value: int = 0
    child: Optional["SNode{i}"] = None
    shadow: Optional["SNode{i}"] = field(default=None, metadata=conversion(serialization=summarize{i}))

def node_from_pair{i}(p: Tuple[int, List["DNode{i}"]]) -> "DNode{i}":
    return DNode{i}(p[0], None, None, list(p[1]))

@dataclass
class DNode{i}:
    value: int = 0
    child: Optional["DNode{i}"] = None
    favourite: Optional["DNode{i}"] = field(default=None, metadata=conversion(deserialization=node_from_pair{i}))
    kids: List["DNode{i}"] = field(default_factory=list)
'''


def run_part(prop, seed, budget):
    import jsonschema
    from apischema import serialize, deserialize, ValidationError
    from apischema.json_schema import serialization_schema, deserialization_schema
    r = random.Random(seed * 211 + 5); n_f = 6 * budget
    mod = build_module("".join(SRC.replace("{i}", str(i)) for i in range(n_f)), f"recconv_{prop}_{seed}"); ns = dict(vars(mod))
    failures, hist, distinct, n = [], collections.Counter(), set(), 0
    def fail(why, **kw): failures.append(dict({"kind": "P", "part": "recursive-conversions", "features": ["recursive", "field-conversion"], "why": [why], "k_ok": None}, **kw))
    for i in range(n_f):
        RNode, Forest, SNode, DNode = ns[f"RNode{i}"], ns[f"Forest{i}"], ns[f"SNode{i}"], ns[f"DNode{i}"]
        # entry points vary: the recursive class itself, a class holding it, a container of it (the first one compiled decides what a too-coarse memo keeps)
        entries = ["Forest", "List", "Node"]; r.shuffle(entries)
        def rnd_node(depth):
            kids = lambda: [r.choice([r.randint(1, 9), rnd_node(depth - 1)]) if depth > 0 else r.randint(1, 9) for _ in range(r.randint(0, 2))]
            return RNode(r.randint(0, 9), kids(), kids())
        def image(x, tagged):
            if isinstance(x, int): return f"#{x}" if tagged else x
            return {"value": x.value, "tagged": [image(k, True) if isinstance(k, int) else image(k, False) for k in x.tagged], "plain": [image(k, False) for k in x.plain]}
        if prop in ("C04", "C07"):
            for e in entries:
                v = rnd_node(2); n += 1; hist["recursive-conversions:" + e] += 1; distinct.add(case_hash("recconv", prop, i, e, repr(v)))
                try:
                    if e == "Forest": tp, val, want = Forest, Forest([v], [3, v]), {"roots": [image(v, False)], "loose": [3, image(v, False)]}
                    elif e == "List": tp, val, want = eval(f"List[Union[int, RNode{i}]]", ns), [4, v], [4, image(v, False)]
                    else: tp, val, want = RNode, v, image(v, False)
                    out = serialize(tp, val)
                    if prop == "C04" and out != want: fail("image-applies-a-conversion-of-another-position", entry=e, value=repr(val)[:300], got=repr(out)[:300], expected=repr(want)[:300])
                    if prop == "C07" and not jsonschema.Draft202012Validator(serialization_schema(tp)).is_valid(out):
                        fail("serialized-value-does-not-validate-against-serialization_schema", entry=e, value=repr(val)[:300], serialized=repr(out)[:300])
                except Exception as ex: fail("raises:" + type(ex).__name__, entry=e, msg=str(ex)[:120])
            if prop == "C07":
                sv = SNode(1, SNode(2, None, SNode(5)), SNode(3, SNode(4))); n += 1
                try:
                    out = serialize(SNode, sv); sch = serialization_schema(SNode)
                    if not jsonschema.Draft202012Validator(sch).is_valid(out): fail("serialized-value-does-not-validate-against-serialization_schema", entry="SNode.shadow -> Summary", serialized=repr(out)[:300], real=sch)
                except Exception as ex: fail("raises:" + type(ex).__name__, entry="SNode", msg=str(ex)[:120])
        if prop == "C06":
            sch = None
            try: sch = deserialization_schema(DNode)
            except Exception as ex: fail("raises:" + type(ex).__name__, entry="DNode schema", msg=str(ex)[:120])
            for d in ({"value": 1, "favourite": [2, []]}, {"value": 1, "favourite": {"value": 2}}, {"value": 1, "child": {"value": 2, "favourite": [3, [{"value": 4}]]}},
                      {"value": 1, "kids": [{"value": 2, "favourite": [3, []]}]}, {"value": 1, "favourite": [2, [{"favourite": {"value": 1}}]]}, {"value": 1, "favourite": None}):
                n += 1; hist["recursive-conversions:deserialize"] += 1; distinct.add(case_hash("recconv", prop, i, repr(d)))
                if sch is None: continue
                try: deserialize(DNode, d); acc = True
                except ValidationError: acc = False
                except Exception as ex: fail("raises:" + type(ex).__name__, datum=repr(d)); continue
                ok = jsonschema.Draft202012Validator(sch).is_valid(d)
                if acc != ok: fail("accepted-by-deserialize-but-rejected-by-the-schema" if acc else "rejected-by-deserialize-but-valid-against-the-schema", datum=repr(d), real=sch)
    return failures, n, distinct, hist
