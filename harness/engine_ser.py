"""ser engine: C04 (serialization yields the prescribed JSON image) and C05 (round trips).
Values of a type are obtained by deserializing valid data with the real code; K compares `serialize` with the Lean
model of serialization under random exclude_none / exclude_defaults / additional_properties; the P checks run on the
real code alone."""
import sys, os, json, random, collections, math
HERE = os.path.dirname(os.path.abspath(__file__)); sys.path.insert(0, HERE)
from gen import Gen, Pool, py_proto
from canon import val_proto
from common import model, build_module, fresh, case_hash, proto_py
from apischema.cache import reset as _cache_reset


def canon_out(t, out):
    """sort list outputs at set-typed positions (set iteration order is unspecified)"""
    k = t.kind
    if out is None or not isinstance(out, list): return out
    tag = out[0]
    if k in ("set", "frozenset") and tag == "l":
        return ["l", sorted((canon_out(t.kids[0], x) for x in out[1]), key=json.dumps)]
    if k in ("list", "vtuple", "clist") and tag == "l": return ["l", [canon_out(t.kids[0], x) for x in out[1]]]
    if k == "tuple" and tag == "l" and len(out[1]) == len(t.kids): return ["l", [canon_out(a, x) for a, x in zip(t.kids, out[1])]]
    if k == "mapping" and tag == "d": return ["d", [[kk, canon_out(t.kids[1], v)] for kk, v in out[1]]]
    if k == "cdict" and tag == "d": return ["d", [[kk, canon_out(t.kids[0], v)] for kk, v in out[1]]]
    if k in ("optional", "newtype"): return canon_out(t.kids[0], out)
    if k == "union":
        for a in t.kids:
            c = canon_out(a, out)
            if c != out: return c
        return out
    if k in ("dataclass", "namedtuple", "typeddict") and tag == "d":
        by_alias = {f["alias"]: f["ty"] for f in t.fields}
        return ["d", [[kk, canon_out(by_alias[kk], v) if kk in by_alias else v] for kk, v in out[1]]]
    return out


def json_only(j):
    import enum
    # (a member of an Enum with an int / str mixin is an int / str, written by its value by json.dumps: the identity
    #  serialization of such enums is deliberate - `issubclass(cls, (int, str))` in SerializationMethodVisitor.enum)
    if isinstance(j, enum.Enum) and isinstance(j, (int, str)): return True
    if j is None or type(j) in (bool, int, float, str): return True
    if type(j) is list: return all(json_only(x) for x in j)
    if type(j) is dict: return all(type(k) is str and json_only(v) for k, v in j.items())
    return False


def values_equal(a, b):
    """== with the same runtime classes (NaN-tolerant)"""
    return val_proto(a) == val_proto(b)


BUCKET = {"list": "list", "clist": "list", "set": "set", "frozenset": "frozenset", "tuple": "tuple", "vtuple": "tuple", "namedtuple": "tuple",
          "mapping": "dict", "cdict": "dict", "typeddict": "dict", "int": "int", "cint": "int", "float": "float", "cfloat": "float",
          "bool": "bool", "str": "str", "cstr": "str", "none": "none"}


def buckets(t):
    """runtime classes an alternative is selected by in union serialization (first isinstance match)"""
    k = t.kind
    if k in ("newtype", "optional") and k == "newtype": return buckets(t.kids[0])
    if k in ("union", "optional"):
        out = set()
        for a in t.kids: out |= buckets(a)
        return out | ({"none"} if k == "optional" else set())
    if k == "any" or "abstract-collection" in getattr(t, "tags", ()): return {"*"}     # Collection / Sequence also match str, tuple, set, dict values
    if k in ("literal", "enum"): return {"lit:" + t.py} if k == "enum" else {"*lit"}
    if k == "dataclass": return {"cls:" + t.py}
    if k == "tuple": return {"tuple:%d" % len(t.kids)}       # fixed-length tuples are told apart by their length
    if k == "vtuple": return {"tuple:*"}
    if k == "namedtuple": return {"tuple:%d" % len(t.fields), "cls:" + t.py}
    return {BUCKET.get(k, k)}


def declares_none(t):
    """the declared type is None or a union with None (what `exclude_none` looks at)"""
    if t.kind in ("none", "optional"): return True
    if t.kind == "union": return any(a.kind == "none" for a in t.kids)
    return False


def has_props_bound_on_class(t):
    """minProperties / maxProperties on a class-typed position: the bound counts the keys of the *datum*, and serialization
    completes the datum with defaults - outside the round-trip statement"""
    return (t.kind == "optional" and getattr(t, "cons", None) and t.cons[0].endswith("props")) or any(has_props_bound_on_class(k) for k in t.kids)


def has_unique(t):
    return (t.kind == "clist" and t.cons[0] == "unique") or any(has_unique(k) for k in t.kids)


JSON_CLASS = {"list": "array", "clist": "array", "set": "array", "frozenset": "array", "tuple": "array", "vtuple": "array",
              "mapping": "object", "cdict": "object", "typeddict": "object", "dataclass": "object", "namedtuple": "object"}


def json_ambiguous_union(t):
    """a union two alternatives of which read the same JSON class (two objects, two arrays): which alternative accepts the
    serialized value first is a matter of the data, so the value need not come back in its own class"""
    if t.kind in ("union", "optional"):
        seen = []
        for a in t.kids:
            b = a
            while b.kind in ("newtype",) and b.kids: b = b.kids[0]
            jc = JSON_CLASS.get(b.kind)
            if b.kind == "tuple": jc = "array:%d" % len(b.kids)          # fixed lengths tell tuples apart
            clash = jc and (jc in seen or (jc.startswith("array") and any(x == "array" for x in seen)) or (jc == "array" and any(x.startswith("array") for x in seen)))
            if b.kind == "any" or clash: return True
            if jc: seen.append(jc)
    return any(json_ambiguous_union(k) for k in t.kids)


def ambiguous_union(t):
    """a union two alternatives of which are selected by the same runtime class (serialization takes the first
    isinstance match, so a value of the later alternative is serialized as if it were of the earlier one): outside the
    bijective fragment, and outside the domain of the typed model of serialization"""
    if t.kind in ("union", "optional"):
        seen = set()
        for a in t.kids:
            b = buckets(a)
            if "int" in b: b = b | {"bool-or-int"}
            if "bool" in b: b = b | {"bool-or-int"}          # bool is an int
            if "*" in b or "*" in seen or (b & seen): return True
            if any(x.startswith("tuple:") for x in b) and any(x.startswith("tuple:") for x in seen) and ("tuple:*" in b or "tuple:*" in seen): return True
            seen |= b
    return any(ambiguous_union(k) for k in t.kids)


def bijective(t):
    """the bijective fragment for round trips: no Any-typed position holding arbitrary data is a problem; sets lose
    nothing; unions are included (the first matching alternative must give the value back)"""
    return True


def run(prop, seed, budget, ctx):
    from apischema import deserialize, serialize, ValidationError
    rnd = random.Random(seed * 31 + sum(map(ord, prop))); pool = Pool(); g = Gen(rnd, pool, None)
    g.kinds = g.kinds + ["sequence", "aggregate", "tuple_union", "reqopt", "optenum1"]
    types = [g.ty(3) for _ in range(300 * budget)]
    types += [g.g_keyconv(1) for _ in range(12 * budget)]       # mappings with converted keys, at the root: values built independently of deserialize
    mod = build_module(pool.source(), f"{prop}_{seed}"); ns = dict(vars(mod))
    reqs, meta, failures, hist, distinct, samples = [], [], [], collections.Counter(), set(), []
    for t in types:
        _cache_reset()      # typing-equal types (Literal[1, True] / Literal[True, 1]) share one cache entry: finding KF13, not this property
        tp = eval(t.py, ns)
        # (uniqueItems is tested on the raw data: distinct data may have equal images, which are then not values of the type)
        amb = ambiguous_union(t) or has_unique(t) or (prop == "C05" and (has_props_bound_on_class(t) or json_ambiguous_union(t)))
        if amb: hist["excluded:ambiguous-union-or-uniqueItems"] += 1; continue
        for _ in range(8):
            d = g.valid(t)
            feats = t.features()
            # options are drawn where they matter: exclude_none next to Optional positions, additional_properties next to TypedDicts
            so = {"exclude_none": rnd.random() < (0.55 if {"optional", "none"} & feats else 0.2), "exclude_defaults": rnd.random() < 0.3,
                  "ap": rnd.random() < (0.6 if "typeddict" in feats else 0.25)}
            o = {"ap": so["ap"], "fbod": False, "nc": rnd.random() < 0.5, "octor": False, "coerce": False, "repaired": True}
            try: v = deserialize(tp, fresh(d), additional_properties=o["ap"], no_copy=o["nc"])
            except Exception: hist["datum-not-accepted"] += 1; continue
            typed_mismatch = None
            if hasattr(t, "typed"):
                # the value is built from the datum without the library; what deserialize returns must be that value (with
                # either value of no_copy)
                tv = t.typed(ns, d)
                if not (v == tv and all(type(a) is type(b) for a, b in zip(sorted(map(repr, v)), sorted(map(repr, tv)))) and {type(k) for k in v} == {type(k) for k in tv}):
                    typed_mismatch = repr(v)[:200]
                v = tv
            try:
                s = serialize(tp, v, exclude_none=so["exclude_none"], exclude_defaults=so["exclude_defaults"], additional_properties=so["ap"])
                r = {"ok": canon_out(t, py_proto(s))}
            except Exception as e: s = None; r = {"crash": type(e).__name__, "msg": str(e)[-120:]}
            why = []
            case = {"py": t.py, "src": t.decls(), "ty": t.lean, "features": sorted(t.features()), "d": py_proto(d), "d_repr": repr(d),
                    "sopts": so, "opts": o, "impl": r}
            if typed_mismatch is not None: why.append("deserialized-value-is-not-the-typed-image-of-the-datum"); case["deserialized"] = typed_mismatch
            if t.kind not in Gen.LEAVES: distinct.add(case_hash(t.lean, py_proto(d), so))
            for f in t.features(): hist["ty:" + f] += 1
            if len(samples) < 5 and t.kind not in Gen.LEAVES and len(repr(d)) < 100: samples.append({"type": t.py, "datum": repr(d), "sopts": so, "serialized": repr(s)[:200]})
            if prop == "C04" and "abstract-collection" in getattr(t, "tags", ()) and isinstance(v, list) and s is not None:
                # any sequence is a value of Sequence[T] / Collection[T]: the image does not depend on the concrete class
                try:
                    alt = serialize(tp, tuple(v), exclude_none=so["exclude_none"], exclude_defaults=so["exclude_defaults"], additional_properties=so["ap"])
                    if not json_only(alt) or py_proto(alt) != py_proto(s): why.append("image-depends-on-the-concrete-sequence-class"); case["tuple_image"] = repr(alt)[:200]
                except Exception as e: why.append("serialize-raises-on-a-tuple:" + type(e).__name__)
            if prop == "C04":
                if "crash" in r: why.append("serialize-raises:" + r["crash"])
                else:
                    if not json_only(s): why.append("output-is-not-JSON-only")
                    # serialize(v) without a type = serialize(type(v), v) for class instances
                    if t.kind in ("dataclass", "namedtuple"):
                        try:
                            a = serialize(v, exclude_none=so["exclude_none"], exclude_defaults=so["exclude_defaults"], additional_properties=so["ap"])
                            if py_proto(a) != py_proto(s): why.append("serialize(v)-differs-from-serialize(type(v),v)")
                        except Exception as e: why.append("serialize(v)-raises:" + type(e).__name__)
                    # omission rule on objects at the root: a key is absent exactly when None / default and the option asks for it
                    if t.kind == "typeddict" and isinstance(s, dict) and isinstance(v, dict):
                        # a TypedDict emits its present keys (declared ones first, then extras under additional_properties), minus None keys under exclude_none
                        # (the value is keyed by the names, the output by the aliases)
                        declared = [f["name"] for f in t.fields]
                        w = [f["alias"] for f in t.fields if f["name"] in v and not (v[f["name"]] is None and so["exclude_none"] and declares_none(f["ty"]))]
                        w += [k for k in v if k not in declared] if so["ap"] else []
                        if sorted(s) != sorted(w): why.append("emitted-keys-differ-from-the-omission-rule"); case["expected_keys"] = w
                    if t.kind == "dataclass" and isinstance(s, dict) and "aggregate" not in t.features():
                        w = omission_spec(t, v, so)
                        if w is not None and list(s) != w:
                            why.append("emitted-keys-differ-from-the-omission-rule"); case["expected_keys"] = w
                            extra = [k for k in s if k not in w]
                            case["extra_none_in_non_optional"] = (len(list(s)) == len(w) + len(extra) and bool(extra) and all(
                                s[k] is None and not declares_none(next(f for f in t.fields if f["alias"] == k)["ty"]) for k in extra))
            else:
                if "crash" not in r:
                    plain = serialize(tp, v, additional_properties=so["ap"])
                    for name, payload in (("", plain), ("-through-json", None)):
                        try:
                            if payload is None:
                                if not json_only(plain) or has_special_float(plain): continue
                                payload = json.loads(json.dumps(plain))
                            back = deserialize(tp, payload, additional_properties=so["ap"])
                            if not values_equal(back, v): why.append("deserialize(serialize(v))-differs-from-v" + name); case["back"] = val_proto(back); case["value"] = val_proto(v)
                        except ValidationError as e: why.append("serialized-value-is-rejected" + name); case["errors"] = e.errors
                        except Exception as e: why.append("round-trip-raises" + name + ":" + type(e).__name__)
                    # dual: serialize(deserialize(d)) re-deserializes to an equal value
                    try:
                        again = deserialize(tp, fresh(plain) if json_only(plain) else plain, additional_properties=so["ap"])
                        if not values_equal(again, v): why.append("completed-datum-does-not-re-deserialize-to-an-equal-value")
                    except Exception as e:
                        if not why: why.append("completed-datum-rejected:" + type(e).__name__)
            reqs.append({"id": len(reqs), "op": "roundtrip", "opts": o, "sopts": so, "ty": t.lean, "d": py_proto(d)})
            meta.append((t, case, why))
    ms = model(reqs) if ctx["driver_ok"] else [None] * len(reqs)
    kbad = kcmp = 0; fallback_n = 0
    for (t, case, why), mo in zip(meta, ms):
        k_ok = None
        if mo is not None and "error" not in mo and "ok" in mo.get("model", {}) and mo.get("ser") is not None:
            m = mo["ser"]
            # (extra keys of a TypedDict alternative of a union under additional_properties: not in the model of serialization)
            unmodelled = ("aggregate" in case["features"]) or ("stdkey" in case["features"]) or (case["sopts"]["ap"] and "typeddict" in case["features"] and ({"union", "optional"} & set(case["features"])))
            if not str(m.get("crash", "")).startswith("ModelScope") and not unmodelled:
                if "ok" in m: m = {"ok": canon_out(t, m["ok"])}
                kcmp += 1
                k_ok = ({k: v for k, v in case["impl"].items() if k != "msg"} == m); case["model"] = m
        case["k_ok"] = k_ok
        if why: case.update(kind="P", why=why); failures.append(case); hist["P:" + why[0].split(":")[0]] += 1
        elif k_ok is False: kbad += 1; case.update(kind="K", why="model and implementation disagree"); failures.append(case)
    if prop == "C04":
        ff, fn = run_fallback(rnd, g, budget, hist, distinct)
        failures += ff; fallback_n = fn
        ff, fn = run_skip(rnd, seed, budget, hist, distinct)
        failures += ff; fallback_n += fn
        ff, fn = run_inherited(rnd, budget, hist, distinct)
        failures += ff; fallback_n += fn
        ff, fn = run_overridden(rnd, seed, budget, hist, distinct)
        failures += ff; fallback_n += fn
        import rec_conv
        ff, fn, fd, fh = rec_conv.run_part("C04", seed, budget)
        failures += ff; fallback_n += fn; distinct |= fd
        for k_, v_ in fh.items(): hist[k_] += v_
        for f in ff: hist["P:" + f["why"][0].split(":")[0]] += 1
        import generics
        ff, fn, fd, fh = generics.run_part("C04", seed, budget)
        failures += ff; fallback_n += fn; distinct |= fd
        for k_, v_ in fh.items(): hist[k_] += v_
        for f in ff: hist["P:" + f["why"][0].split(":")[0]] += 1
        import corners8
        c8f_, c8n_, c8d_, c8h_ = corners8.run_part("C04", seed, budget)
        failures += c8f_; distinct |= c8d_; fallback_n += c8n_
        for k_, v_ in c8h_.items(): hist[k_] += v_
        for f in c8f_: hist["P:" + f["why"][0].split(":")[0]] += 1
        import objmodel
        ff, fn, fd, fh = objmodel.run_part("C04", seed, budget)
        failures += ff; fallback_n += fn; distinct |= fd
        for k_, v_ in fh.items(): hist[k_] += v_
        for f in ff: hist["P:" + f["why"][0].split(":")[0]] += 1
    if prop == "C05":
        from discr import run_discr
        df, dn, dd, dh = run_discr(seed, budget, want=("roundtrip",), single=False)      # (one subclass: KF50 of C13; the value itself round-trips)
        for f in df: f["features"] = f.get("features", []); hist["P:" + f["why"][0]] += 1
        failures += df; distinct |= dd
        for k, v in dh.items(): hist["discriminated:" + k] += v
        of, on = run_ordered(rnd, seed, budget, hist, distinct); failures += of; dn += on
        of, on = run_flat_reuse(rnd, seed, budget, hist, distinct); failures += of; dn += on
        import schema_conv
        of, on = schema_conv.run_conv_roundtrip(rnd, seed, budget, hist, distinct, build_module); failures += of; dn += on
        for f in of: hist["P:" + f["why"][0].split(":")[0]] += 1
        import objmodel
        of, on, od, oh = objmodel.run_part("C05", seed, budget); failures += of; dn += on; distinct |= od
        for k_, v_ in oh.items(): hist[k_] += v_
        for f in of: hist["P:" + f["why"][0].split(":")[0]] += 1
        return {"evaluations": len(meta) + dn, "distinct_nontrivial": len(distinct),
                "rule": "generated types x values obtained by deserializing valid data x random options; plus discriminated unions (serialize adds the discriminator, the value "
                        "round-trips); non-trivial = non-leaf type; distinct by (type, datum, options)",
                "samples": samples, "histograms": dict(hist), "correspondence": {"compared_with_model": kcmp, "disagreements": kbad}, "failures": failures}
    return {"evaluations": len(meta) + fallback_n, "distinct_nontrivial": len(distinct),
            "rule": "generated types x values obtained by deserializing valid data x random exclude_none / exclude_defaults / additional_properties; "
                    "plus JSON data rebuilt with container classes that have no serialization of their own (OrderedDict, Counter, user Mapping / list / dict subclasses, "
                    "deque, ...) against the image of the plain data, without a type, as Any and under fall_back_on_any; "
                    "non-trivial = non-leaf type; distinct by (type, datum, options)",
            "samples": samples, "histograms": dict(hist), "correspondence": {"compared_with_model": kcmp, "disagreements": kbad}, "failures": failures}


class _UserMapping(collections.abc.Mapping):
    def __init__(self, d): self._d = dict(d)
    def __getitem__(self, k): return self._d[k]
    def __iter__(self): return iter(self._d)
    def __len__(self): return len(self._d)
class _DictSub(dict): pass
class _ListSub(list): pass
class _UserSeq(collections.abc.Sequence):
    def __init__(self, l): self._l = list(l)
    def __getitem__(self, i): return self._l[i]
    def __len__(self): return len(self._l)

MAP_WRAPS = {"OrderedDict": collections.OrderedDict, "defaultdict": lambda d: collections.defaultdict(list, d), "ChainMap": lambda d: collections.ChainMap(dict(d)),
             "UserMapping": _UserMapping, "dict-subclass": _DictSub, "mappingproxy": lambda d: __import__("types").MappingProxyType(dict(d)),
             "UserDict": collections.UserDict, "dict": dict}
SEQ_WRAPS = {"deque": collections.deque, "list-subclass": _ListSub, "UserList": collections.UserList, "tuple": tuple, "UserSequence": _UserSeq, "list": list}


def run_fallback(rnd, g, budget, hist, distinct):
    """C04 on values whose class has no serialization of its own: a mapping is a mapping and a collection a collection whatever
    the concrete class - the image of the rebuilt datum is the image of the plain datum (a dict with the same keys in the same
    order / a list with the same elements), and is made of JSON values only"""
    import dataclasses
    from typing import Any
    from apischema import serialize

    @dataclasses.dataclass
    class Holder:
        title: str
        payload: Any

    def rebuild(d, used):
        if isinstance(d, dict):
            w = rnd.choice(sorted(MAP_WRAPS)); used.add(w)
            return MAP_WRAPS[w]({k: rebuild(v, used) for k, v in d.items()})
        if isinstance(d, list):
            w = rnd.choice(sorted(SEQ_WRAPS)); used.add(w)
            return SEQ_WRAPS[w]([rebuild(v, used) for v in d])
        return d
    failures, n = [], 0
    for _ in range(150 * budget):
        d = g.json_value(3) if hasattr(g, "json_value") else None
        if d is None: d = _json_value(rnd, 3)
        if not isinstance(d, (dict, list)): d = {"k": d} if rnd.random() < 0.5 else [d]
        used = set(); v = rebuild(d, used); n += 1
        for w in used: hist["fallback:" + w] += 1
        try: want = serialize(d)
        except Exception: hist["fallback:plain-datum-raises"] += 1; continue
        why, got = [], {}
        calls = {"serialize(v)": lambda: serialize(v), "serialize(Any, v, fall_back_on_any=True)": lambda: serialize(Any, v, fall_back_on_any=True),
                 "serialize(type(v), v, fall_back_on_any=True)": lambda: serialize(type(v), v, fall_back_on_any=True),
                 "serialize(Holder, Holder('t', v), fall_back_on_any=True)['payload']": lambda: serialize(Holder, Holder("t", v), fall_back_on_any=True)["payload"],
                 "serialize(Holder('t', v))['payload']": lambda: serialize(Holder("t", v))["payload"]}
        for name, call in calls.items():
            try:
                out = call(); got[name] = repr(out)[:200]
                if not json_only(out): why.append("output-is-not-JSON-only:" + name)
                elif py_proto(out) != py_proto(want) or (isinstance(out, dict) and list(out) != list(want)): why.append("image-depends-on-the-concrete-container-class:" + name)
            except Exception as e: why.append("serialize-raises:" + type(e).__name__ + ":" + name)
        distinct.add(case_hash("fallback", py_proto(d), sorted(used)))
        if why:
            failures.append({"kind": "P", "part": "fallback", "features": ["fallback"] + sorted(used), "d": py_proto(d), "d_repr": repr(d), "value": repr(v)[:300],
                             "expected": repr(want)[:300], "got": got, "why": why, "k_ok": None})
            hist["P:" + why[0].split(":")[0]] += 1
    return failures, n


def run_ordered(rnd, seed, budget, hist, distinct):
    """C05 on classes whose fields are reordered (order value / after / before / chains / class-level overriding, inherited fields,
    serialized methods in between): the order is presentation only - every field is written, and the value comes back"""
    import engine_order, dataclasses
    from apischema import deserialize, serialize
    classes = [engine_order.gen_class(rnd, 5000 + i) for i in range(120 * budget)]
    # chains: order([...]) sugar over 3-5 fields, declared in another order than the chain
    chain_lines = []
    for i in range(30 * budget):
        names = [f"f{j}" for j in range(rnd.randint(3, 5))]; chain = names[:]; rnd.shuffle(chain)
        cname = f"OC{i}"
        chain_lines += [f"@order({chain!r})", "@dataclass", f"class {cname}:"] + [f"    {n}: int = 0" for n in names] + [""]
        classes.append((cname, None, names, len(names), {"chain": chain}, []))
    mod = engine_order.build([l for c in classes if c[1] for l in c[1] + [""]] + chain_lines, f"rt{seed}")
    failures, n = [], 0
    for (cname, lines, names, nf, ords, ov) in classes:
        cls = getattr(mod, cname)
        if "chain" not in ords:
            # (a field placed after / before an absent name or on an after / before cycle is dropped: finding KF17 of C16, not this part)
            eff = dict(ords); eff.update({n_: o_ for n_, o_ in ov})
            def anchored(n_, fuel=len(names) + 1):
                o_ = eff[n_]
                if o_[0] in ("none", "value"): return True
                return fuel > 0 and o_[1] in eff and anchored(o_[1], fuel - 1)
            if not all(anchored(n_) for n_ in names): hist["ordered:excluded-unanchored"] += 1; continue
        v = cls(**{f.name: rnd.choice([1, 2, 3, -5, 40]) for f in dataclasses.fields(cls)}); n += 1
        hist["ordered:" + ("chain" if "chain" in ords else "class")] += 1
        distinct.add(case_hash("ordered", cname, repr(ords), repr(ov)))
        why = []
        try:
            s = serialize(cls, v)
            back = deserialize(cls, s, additional_properties=True)
            if back != v: why.append("deserialize(serialize(v))-differs-from-v")
        except Exception as e: s = None; why.append("round-trip-raises:" + type(e).__name__)
        if why:
            failures.append({"kind": "P", "part": "ordered", "features": ["ordered"], "class_src": lines or [l for l in chain_lines if True][:0] + [f"@order({ords['chain']!r}) dataclass {cname} with int fields {names}"],
                             "value": repr(v), "serialized": repr(s), "why": why, "k_ok": None})
            hist["P:" + why[0].split(":")[0]] += 1
    return failures, n


SKIP_HEADER = ["from dataclasses import dataclass, field", "from typing import *", "from apischema import Undefined, UndefinedType, alias", "from apischema.metadata import skip, none_as_undefined", ""]
# (declaration, default expression or None, how the field may be omitted)
SKIP_FIELDS = [
    ("Optional[int]", "None", "metadata=skip(serialization_default=True)", "default"),
    ("int", "0", "metadata=skip(serialization_default=True)", "default"),
    ("str", "''", "metadata=skip(serialization_default=True)", "default"),
    ("List[int]", "FACTORY:list", "metadata=skip(serialization_default=True)", "default"),
    ("int", "7", "metadata=skip(serialization_if=lambda x: x == 13)", "if13"),
    ("Optional[int]", "None", "metadata=skip(serialization_if=lambda x: x is None)", "ifnone"),
    ("int", "1", "metadata=skip", "always"),
    ("int", "1", "metadata=skip(serialization=True)", "always"),
    ("Optional[int]", "None", "metadata=none_as_undefined", "none"),
    ("Union[int, UndefinedType]", "Undefined", None, "undefined"),
    ("Optional[int]", "None", None, "plain-optional"),
    ("int", "5", None, "plain"),
    ("int", None, None, "required"),
]


def run_skip(rnd, seed, budget, hist, distinct):
    """C04, omission by metadata: a field is omitted exactly when it is Undefined, or None / equal to its default / matching its condition and
    the metadata (skip(...), none_as_undefined) or the exclude_* option asks for it; every other field is written, in declaration order"""
    import dataclasses
    from apischema import serialize, Undefined
    n_cls = 60 * budget; src = list(SKIP_HEADER); specs = []
    for i in range(n_cls):
        fs = [rnd.choice(SKIP_FIELDS) for _ in range(rnd.randint(1, 4))]
        fs.sort(key=lambda f: f[1] is not None)
        lines = ["@dataclass", f"class SK{i}:"]
        for j, (tp, dflt, md, how) in enumerate(fs):
            if md and rnd.random() < 0.3:
                # the same metadata given inside Annotated[...] instead of field(metadata=...)
                tp = f"Annotated[{tp}, {md[len('metadata='):]}]"; md = None
            if dflt is None: rhs = f" = field({md})" if md else ""
            elif dflt.startswith("FACTORY:"): rhs = f" = field(default_factory={dflt[8:]}" + (f", {md})" if md else ")")
            else: rhs = f" = field(default={dflt}" + (f", {md})" if md else ")")
            lines.append(f"    f{j}: {tp}{rhs}")
        src += lines + [""]; specs.append((f"SK{i}", lines, fs))
    mod = build_module(src, f"C04skip_{seed}")
    failures, n = [], 0
    for cname, lines, fs in specs:
        cls = getattr(mod, cname)
        for _ in range(6):
            vals = {}
            for j, (tp, dflt, md, how) in enumerate(fs):
                pool = {"Optional[int]": [None, 0, 13, 4], "int": [0, 1, 5, 7, 13], "str": ["", "a"], "List[int]": [[], [1]], "Union[int, UndefinedType]": [Undefined, 0, 3]}[tp]
                vals[f"f{j}"] = rnd.choice(pool)
            so = {"exclude_none": rnd.random() < 0.4, "exclude_defaults": rnd.random() < 0.4}
            v = cls(**vals); n += 1
            want = []
            for j, (tp, dflt, md, how) in enumerate(fs):
                x = vals[f"f{j}"]
                d = {"None": None, "0": 0, "''": "", "FACTORY:list": [], "7": 7, "1": 1, "5": 5, "Undefined": Undefined}.get(dflt, "NO-DEFAULT")
                omit = (x is Undefined) or (how == "always") or (how == "default" and x == d) or (how == "if13" and x == 13) or (how == "ifnone" and x is None) \
                    or (how == "none" and x is None) or (so["exclude_none"] and x is None and tp.startswith("Optional")) \
                    or (so["exclude_defaults"] and dflt is not None and x == d)
                if not omit: want.append(f"f{j}")
            hist["skip-metadata-cases"] += 1
            distinct.add(case_hash("skip", [f[3] for f in fs], repr(vals), so))
            why = []
            try:
                out = serialize(cls, v, **so)
                if not json_only(out): why.append("output-is-not-JSON-only")
                elif list(out) != want: why.append("emitted-keys-differ-from-the-omission-rule")
            except Exception as e: out = None; why.append("serialize-raises:" + type(e).__name__)
            if why:
                failures.append({"kind": "P", "part": "skip", "features": ["skip"] + sorted({f[3] for f in fs}), "class_src": lines, "value": repr(v), "sopts": so,
                                 "serialized": repr(out), "expected_keys": want, "why": why, "k_ok": None})
                hist["P:" + why[0].split(":")[0]] += 1
    return failures, n


def run_overridden(rnd, seed, budget, hist, distinct):
    """C04, serialized methods included: a serialized method / property declared on a base class and overridden in a subclass is read on the value
    (the override), whatever the type given to serialize"""
    from apischema import serialize
    from typing import List
    src = ["from dataclasses import dataclass", "from typing import *", "from apischema import serialized", ""]
    n_c = 12 * budget; kinds = []
    for i in range(n_c):
        kind = rnd.choice(["property", "method", "both"]); kinds.append(kind)
        prop = "    @property\n" if kind in ("property", "both") else ""
        src += ["@dataclass", f"class OB{i}:", "    side: int = 1",
                "    @serialized", *( ["    @property"] if kind in ("property", "both") else []), "    def area(self) -> int:", "        return 0",
                "    @serialized", *( ["    @property"] if kind == "property" else []), "    def kind(self) -> str:", "        return 'shape'", "",
                "@dataclass", f"class OS{i}(OB{i}):",
                *( ["    @property"] if kind in ("property", "both") else []), "    def area(self) -> int:", "        return self.side * self.side",
                *( ["    @property"] if kind == "property" else []), "    def kind(self) -> str:", "        return 'square'", ""]
    mod = build_module(src, f"C04over_{seed}")
    failures, n = [], 0
    for i in range(n_c):
        B, S = getattr(mod, f"OB{i}"), getattr(mod, f"OS{i}")
        v = S(3); want = {"side": 3, "area": 9, "kind": "square"}
        for what, fn, exp in ((f"serialize(Sub, v)", lambda: serialize(S, v), want), (f"serialize(Base, v)", lambda: serialize(B, v), want), ("serialize(v)", lambda: serialize(v), want),
                              ("serialize(List[Base], [v])", lambda: serialize(List[B], [v]), [want]), ("serialize(Base, Base(3))", lambda: serialize(B, B(3)), {"side": 3, "area": 0, "kind": "shape"})):
            n += 1; hist["overridden-serialized:" + kinds[i]] += 1; distinct.add(case_hash("overridden", kinds[i], what))
            try: got = fn()
            except Exception as e: got = "EXC:" + type(e).__name__
            if got != exp:
                failures.append({"kind": "P", "part": "inherited", "features": ["serialized-override", kinds[i]], "hierarchy": f"Base with @serialized {kinds[i]} area / kind, Sub overrides both",
                                 "own_serializers(inherited flag)": None, "call": what, "got": repr(got)[:200], "expected": repr(exp), "why": ["serialized-member-not-read-on-the-value"], "k_ok": None})
                hist["P:serialized-member-not-read-on-the-value"] += 1; break
    return failures, n


def run_inherited(rnd, budget, hist, distinct):
    """C04, conversions applied: the image of a value is given by the serializer of the nearest ancestor whose serializer is inherited (its own
    class included, whatever its `inherited` flag) - at the root, as a list item, as a field, and without a type"""
    import dataclasses
    from typing import Dict, List
    from apischema import serialize, serializer
    from apischema.conversions import Conversion
    failures, n = [], 0
    for i in range(25 * budget):
        A = type(f"IA{i}", (), {"__init__": lambda self, v=1: setattr(self, "v", v)})
        B = type(f"IB{i}", (A,), {}); C = type(f"IC{i}", (B,), {}); D = type(f"ID{i}", (C,), {})
        serializer(Conversion(lambda a: {"a": a.v}, source=A, target=Dict[str, int]))
        flags = {"B": rnd.choice([True, False, None]), "C": rnd.choice([True, False, None])}      # None: no serializer of its own
        if flags["B"] is not None: serializer(Conversion(lambda b: {"b": b.v}, source=B, target=Dict[str, int], inherited=flags["B"]))
        if flags["C"] is not None: serializer(Conversion(lambda c: {"c": c.v}, source=C, target=Dict[str, int], inherited=flags["C"]))
        def image(cls):
            # own serializer first; then the nearest ancestor with an inherited one
            chain = {"D": ["C", "B", "A"], "C": ["B", "A"], "B": ["A"], "A": []}[cls]
            if cls in flags and flags[cls] is not None: return {cls.lower(): 7}
            for anc in chain:
                if anc == "A" or flags.get(anc): return {anc.lower(): 7}
            return {"a": 7}
        H = dataclasses.make_dataclass(f"IH{i}", [("x", D)])
        for name, cls in (("A", A), ("B", B), ("C", C), ("D", D)):
            want = image(name); v = cls(7); n += 1
            distinct.add(case_hash("inherited", name, repr(flags)))
            hist["inherited-serializers"] += 1
            calls = {f"serialize({name}, v)": (lambda: serialize(cls, v), want), f"serialize(v)": (lambda: serialize(v), want),
                     f"serialize(List[{name}], [v])": (lambda: serialize(List[cls], [v]), [want])}
            if name == "D": calls["serialize(Holder, Holder(v))"] = (lambda: serialize(H, H(v)), {"x": want})
            for what, (fn, exp) in calls.items():
                try: got = fn()
                except Exception as e: got = "EXC:" + type(e).__name__
                if got != exp:
                    failures.append({"kind": "P", "part": "inherited", "features": ["inherited-serializer"], "hierarchy": "A <- B <- C <- D; serializer on A (inherited)",
                                     "own_serializers(inherited flag)": flags, "call": what, "got": repr(got)[:200], "expected": repr(exp), "why": ["image-is-not-the-one-of-the-applicable-serializer"], "k_ok": None})
                    hist["P:image-is-not-the-one-of-the-applicable-serializer"] += 1; break
    return failures, n


def run_flat_reuse(rnd, seed, budget, hist, distinct):
    """C05 on a class with a flattened field used several times in one type, plainly and under field-level constraints / validators / Optional
    (each use is compiled from the same visit with other merged constraints): every use round-trips"""
    from apischema import deserialize, serialize
    src = ["from dataclasses import dataclass, field", "from typing import *", "from apischema import schema, validator", "from apischema.metadata import flatten, validators", "",
           "def positive_limit(q):", "    if q.page.limit < 0: raise ValueError('negative')", ""]
    n_f = 12 * budget; specs = []
    MD = [None, "schema(description='again')", "schema(min_props=1)", "validators(positive_limit)", "schema(max_props=9)"]
    for i in range(n_f):
        req = rnd.random() < 0.5
        src += ["@dataclass", f"class FPage{i}:", ("    limit: int" if req else "    limit: int = 10"), "    offset: int = 0", "",
                "@dataclass", f"class FQuery{i}:", "    text: str", f"    page: FPage{i} = field(" + ("" if req else f"default_factory=FPage{i}, ") + "metadata=flatten)", ""]
        uses = [rnd.choice(MD) for _ in range(3)]
        if all(u is None for u in uses): uses[rnd.randrange(3)] = MD[1]
        opt = rnd.random() < 0.5
        lines = ["@dataclass", f"class FBatch{i}:"]
        for j, md in enumerate(uses[:2]): lines.append(f"    u{j}: FQuery{i}" + (f" = field(metadata={md})" if md else ""))
        lines.append(f"    u2: {'Optional[' if opt else ''}FQuery{i}{']' if opt else ''}" + (f" = field(metadata={uses[2]})" if uses[2] else ""))
        lines.append(f"    us: List[FQuery{i}] = field(default_factory=list)")
        src += lines + [""]; specs.append((i, lines, uses))
    mod = build_module(src, f"C05flat_{seed}")
    failures, n = [], 0
    for i, lines, uses in specs:
        P, Q, B = getattr(mod, f"FPage{i}"), getattr(mod, f"FQuery{i}"), getattr(mod, f"FBatch{i}")
        mk = lambda k: Q(f"q{k}", P(k + 1, k + 2))
        v = B(mk(0), mk(1), mk(2), [mk(3)]); n += 1
        hist["flattened-class-used-several-times"] += 1; distinct.add(case_hash("flat-reuse", lines))
        why, s_ = [], None
        try:
            # (the first use of the types is sometimes the deserialization, sometimes the serialization)
            if rnd.random() < 0.5: deserialize(Q, {"text": "t", "limit": 1})
            s_ = serialize(B, v); back = deserialize(B, s_)
            if back != v: why.append("deserialize(serialize(v))-differs-from-v")
        except Exception as e: why.append("round-trip-raises:" + type(e).__name__ + ":" + str(e)[:80])
        if why:
            failures.append({"kind": "P", "part": "ordered", "features": ["flatten-reuse"], "class_src": lines, "value": repr(v), "serialized": repr(s_), "why": why, "k_ok": None})
            hist["P:" + why[0].split(":")[0]] += 1
    return failures, n


def _json_value(rnd, depth):
    r = rnd.random()
    if depth <= 0 or r < 0.35:
        return rnd.choice([None, True, False, 0, 1, -3, 2**40, 1.5, "", "a", "b c"])
    if r < 0.7: return {rnd.choice(["a", "b", "c", "k1", ""]) : _json_value(rnd, depth - 1) for _ in range(rnd.randint(0, 3))}
    return [_json_value(rnd, depth - 1) for _ in range(rnd.randint(0, 3))]


def has_special_float(j):
    if isinstance(j, float): return math.isnan(j) or math.isinf(j)
    if isinstance(j, list): return any(map(has_special_float, j))
    if isinstance(j, dict): return any(map(has_special_float, j.values()))
    return False


def omission_spec(t, v, so):
    """expected keys of a serialized dataclass instance, in field order: a field is omitted exactly when it is None and
    exclude_none, or equal to its default and exclude_defaults (no skip metadata in the generated classes)"""
    import dataclasses
    out = []
    for f in t.fields:
        x = getattr(v, f["name"])
        if x is None and so["exclude_none"]: continue
        if so["exclude_defaults"] and not f["required"]:
            df = next(df for df in dataclasses.fields(v) if df.name == f["name"])
            dflt = df.default if df.default is not dataclasses.MISSING else df.default_factory() if df.default_factory is not dataclasses.MISSING else dataclasses.MISSING
            if dflt is not dataclasses.MISSING and x == dflt: continue
        out.append(f["alias"])
    return out


def _f(c, *names): return any(n in c["features"] for n in names)
def _why(c, w): return isinstance(c.get("why"), list) and any(x.startswith(w) for x in c["why"])


KF = {
    # exclude_none omits a None field only when its declared type is a union with None: `a: Any = None` stays
    "KF43": lambda c: c.get("why") == ["emitted-keys-differ-from-the-omission-rule"] and c.get("k_ok") is not False and c.get("extra_none_in_non_optional") is True,
    # Dict[K, V] with K a Literal / Enum of non-string values serializes to non-string keys
    "KF21": lambda c: _why(c, "output-is-not-JSON-only") and c.get("k_ok") is not False and _f(c, "mapping") and _f(c, "literal", "enum"),
    # expected_class() has no case for a Literal member or for a union nested through a NewType: TypeError '... is not supported in union serialization'
    "KF27": lambda c: (_why(c, "serialize-raises:TypeError") or _why(c, "round-trip-raises")) and c.get("k_ok") is not False
                      and "is not supported in union serialization" in (c.get("impl") or {}).get("msg", "") and _f(c, "union", "optional"),
    # a NamedTuple in a union after a tuple alternative / TypedDict before a Dict alternative: first isinstance match
    "KF29": lambda c: c.get("k_ok") is not False and _f(c, "union", "optional") and ((_f(c, "namedtuple") and _f(c, "tuple", "vtuple")) or (_f(c, "typeddict") and _f(c, "mapping", "cdict", "typeddict", "any"))),
}


def is_known(kid, case):
    p = KF.get(kid)
    return bool(p and case.get("kind") == "P" and p(case))


def replay(prop, case, ctx):
    from apischema import deserialize, serialize
    if case.get("part") == "recursive-conversions":
        return {k: v for k, v in case.items() if k not in ("kind", "k_ok", "features")}
    if case.get("part") == "inherited":
        return {k: case[k] for k in ("hierarchy", "own_serializers(inherited flag)", "call", "got", "expected", "why")}
    if case.get("part") == "skip":
        return {k: case[k] for k in ("class_src", "value", "sopts", "serialized", "expected_keys", "why")}
    if case.get("part") == "ordered":
        return {"class": case["class_src"], "value": case["value"], "serialized": case["serialized"], "recorded": case["why"]}
    if case.get("part") == "fallback":
        d = proto_py(case["d"])
        return {"datum": repr(d), "rebuilt_with": case["features"][1:], "plain_image": repr(serialize(d)), "recorded": case["why"], "recorded_images": case["got"]}
    mod = build_module("\n".join(Pool.HEADER + case["src"]), "serreplay"); tp = eval(case["py"], dict(vars(mod)))
    d = proto_py(case["d"]); so, o = case["sopts"], case["opts"]
    v = deserialize(tp, fresh(d), additional_properties=o["ap"], no_copy=o["nc"])
    try:
        s = serialize(tp, v, exclude_none=so["exclude_none"], exclude_defaults=so["exclude_defaults"], additional_properties=so["ap"])
        r = {"ok": py_proto(s)}
    except Exception as e: r = {"crash": type(e).__name__}
    return {"type": case["py"], "datum": repr(d), "serialized": r, "recorded": case.get("why"), "recorded_impl": case.get("impl"),
            "fails": {k: v for k, v in r.items()} .keys() == {k: v for k, v in case["impl"].items() if k != "msg"}.keys()}
