"""Type / datum generators: every node carries its protocol term (`lean`), its Python expression
(`py`) and enough structure to build valid data."""
import random, json

NAMES = ["a", "b", "c", "some_name", "x1", "d"]
STR_ATOMS = ["", "a", "ab", "abc", "x", "1", "true"]
INT_ATOMS = [0, 1, -1, 2, 3, 7, 11, 2**53, 2**53 + 1, -(2**60 + 129)]
FLT_ATOMS = [0.5, 1.0, -1.5, 2.25, 1e300, float("nan"), float("inf"), -0.0]

class Node:
    def __init__(self, kind, lean, py, kids=(), **extra):
        self.kind, self.lean, self.py, self.kids = kind, lean, py, list(kids)
        self.__dict__.update(extra)
    def features(self):
        s = {self.kind} | set(getattr(self, "tags", ()))
        for k in self.kids: s |= k.features()
        return s
    def size(self): return 1 + sum(k.size() for k in self.kids)
    def decls(self, seen=None):
        """source lines of the declarations this type needs, dependencies first"""
        seen = set() if seen is None else seen; out = []
        for k in self.kids: out += k.decls(seen)
        d = getattr(self, "decl", None)
        if d and id(self) not in seen:
            seen.add(id(self)); out += d + [""]
        return out

class Pool:
    """accumulates the Python source of the generated classes"""
    HEADER = ["from dataclasses import dataclass, field", "from typing import *", "from enum import Enum, IntEnum",
              "from apischema import alias, schema, dependent_required, properties", "from apischema.metadata import fall_back_on_default, flatten, skip", "NoneType = type(None)",
              "from uuid import UUID", "from datetime import date", ""]
    def __init__(self): self.src = list(self.HEADER); self.n = 0
    def fresh(self, p): self.n += 1; return f"{p}{self.n}"
    def add(self, lines): self.src += lines + [""]
    def source(self): return "\n".join(self.src)

def num_proto(x):
    if isinstance(x, bool): raise TypeError
    if isinstance(x, int): return ["i", str(x)]
    return ["f", flt_proto(x)]
def flt_proto(x):
    if x != x: return "nan"
    if x == float("inf"): return "inf"
    if x == float("-inf"): return "-inf"
    p, q = x.as_integer_ratio(); return f"{p}/{q}"
def lit_proto(v):
    if v is None: return ["n"]
    if isinstance(v, bool): return ["b", v]
    if isinstance(v, int): return ["i", str(v)]
    if isinstance(v, float): return ["f", flt_proto(v)]
    return ["s", v]

PATTERNS = [(["prefix", "a"], "^a"), (["lower"], "^[a-z]+$"), (["anyOf", ["a", "ab"]], "^(a|ab)$")]

class Gen:
    def __init__(self, rnd, pool, kinds=None):
        self.rnd, self.pool = rnd, pool
        self.kinds = kinds or ["none", "bool", "int", "float", "str", "any", "list", "set", "frozenset", "vtuple",
                               "tuple", "mapping", "optional", "union", "literal", "enum", "newtype",
                               "cint", "cfloat", "cstr", "clist", "cdict", "merged", "dataclass", "dataclass", "namedtuple", "typeddict", "recursive"]
    LEAVES = ["none", "bool", "int", "float", "str", "any", "literal", "enum", "cint", "cfloat", "cstr", "merged", "falsy_const"]
    def ty(self, depth):
        r = self.rnd
        k = r.choice(self.kinds if depth > 0 else [k for k in self.kinds if k in self.LEAVES])
        return getattr(self, "g_" + k)(depth)
    # --- leaves
    def g_none(self, d): return Node("none", ["none"], "NoneType")
    def g_bool(self, d): return Node("bool", ["bool"], "bool")
    def g_int(self, d): return Node("int", ["int"], "int")
    def g_float(self, d): return Node("float", ["float"], "float")
    def g_str(self, d): return Node("str", ["str"], "str")
    def g_any(self, d): return Node("any", ["any"], "Any")
    def g_literal(self, d):
        vals = self.rnd.sample([0, 1, 2, "a", "b", True, None, 1.5], self.rnd.randint(1, 3))
        # typing compares Literal[1, True] and Literal[True, 1] equal, and `Set[...]` / `Tuple[...]` subscription is cached
        # on equality: the second spelling would silently denote the first object.  One spelling only: 1 before True.
        ints = [i for i, v in enumerate(vals) if (type(v) is int and v == 1) or v is True]
        if len(ints) == 2 and vals[ints[0]] is True: vals[ints[0]], vals[ints[1]] = vals[ints[1]], vals[ints[0]]
        return Node("literal", ["literal", [lit_proto(v) for v in vals]], f"Literal[{', '.join(map(repr, vals))}]", vals=vals)
    def g_enum(self, d):
        n = self.pool.fresh("E")
        members = self.rnd.sample([("X", "x"), ("Y", 1), ("Z", "zz"), ("W", 2)], self.rnd.randint(1, 3))
        base = "Enum"
        if self.rnd.random() < 0.3:
            # an Enum with a primitive mixin (`class Color(str, Enum)`, IntEnum): still an enum for (de)serialization
            if self.rnd.random() < 0.5: base, members = "str, Enum", [("X", "x"), ("Z", "zz")][:self.rnd.randint(1, 2)]
            else: base, members = self.rnd.choice(["int, Enum", "IntEnum"]), [("Y", 1), ("W", 2)][:self.rnd.randint(1, 2)]
        decl = [f"class {n}({base}):"] + [f"    {m} = {v!r}" for m, v in members]
        self.pool.add(decl)
        return Node("enum", ["enum", n, [[m, lit_proto(v)] for m, v in members]], n, vals=[v for _, v in members], decl=decl)
    def _cons(self, kind, base_lean, base_py, choices):
        name, val, proto = self.rnd.choice(choices)
        c = {name: proto}
        return Node(kind, ["ann", c, base_lean], f"Annotated[{base_py}, schema({name}={val})]", cons=(name, val))
    def g_cint(self, d):
        return self._cons("cint", ["int"], "int", [("min", 0, ["i", "0"]), ("max", 10, ["i", "10"]), ("exc_min", 0, ["i", "0"]),
                                                    ("exc_max", 5, ["i", "5"]), ("mult_of", 2, ["i", "2"]), ("min", 1.5, ["f", "3/2"])])
    def g_cfloat(self, d):
        return self._cons("cfloat", ["float"], "float", [("min", 0, ["i", "0"]), ("max", 2.5, ["f", "5/2"]), ("exc_min", 0.5, ["f", "1/2"]),
                                                          ("exc_max", 5, ["i", "5"]), ("mult_of", 0.25, ["f", "1/4"])])
    def g_cstr(self, d):
        ch = [("min_len", 1, 1), ("max_len", 2, 2)] + [("pattern", repr(src), proto) for proto, src in PATTERNS]
        return self._cons("cstr", ["str"], "str", ch)
    CONS = {
        "int": (["int"], "int", [("min", 0, ["i", "0"]), ("max", 10, ["i", "10"]), ("exc_min", 0, ["i", "0"]), ("exc_max", 5, ["i", "5"]),
                                  ("mult_of", 2, ["i", "2"]), ("max", 0, ["i", "0"]), ("min", -1, ["i", "-1"])]),
        "float": (["float"], "float", [("min", 0, ["i", "0"]), ("max", 2.5, ["f", "5/2"]), ("exc_min", 0.5, ["f", "1/2"]), ("exc_max", 5, ["i", "5"]),
                                        ("mult_of", 0.25, ["f", "1/4"]), ("max", 0, ["i", "0"]), ("exc_min", 0, ["i", "0"])]),
        "str": (["str"], "str", [("min_len", 1, 1), ("max_len", 2, 2), ("min_len", 0, 0), ("max_len", 0, 0), ("pattern", repr("^a"), ["prefix", "a"])]),
    }
    def g_merged(self, d):
        """two constraint sets merged for one type: a NewType carrying a schema, annotated again at the use site"""
        base = self.rnd.choice(["int", "float", "str"])
        blean, bpy, table = self.CONS[base]
        (n1, v1, p1) = self.rnd.choice(table)
        others = [c for c in table if c[0] != n1]
        (n2, v2, p2) = self.rnd.choice(others)
        third = [c for c in others if c[0] != n2]
        nt = self.pool.fresh("NTC_")
        decl = [f"{nt} = NewType('{nt}', Annotated[{bpy}, schema({n1}={v1})])"]
        self.pool.add(decl)
        inner = Node("c" + base, ["ann", {n1: p1}, blean], f"Annotated[{bpy}, schema({n1}={v1})]", cons=(n1, v1))
        ntn = Node("newtype", ["newtype", nt, inner.lean], nt, [inner], decl=decl)
        if third and self.rnd.random() < 0.3:
            # three schema() annotations on one Annotated (what nested Annotated aliases flatten into)
            (n3, v3, p3) = self.rnd.choice(third)
            lean = ["ann", {n3: p3}, ["ann", {n2: p2}, ["ann", {n1: p1}, blean]]]
            inner2 = Node("c" + base, lean[2], "", [inner], cons=(n2, v2), merged=True)
            return Node("c" + base, lean, f"Annotated[{bpy}, schema({n1}={v1}), schema({n2}={v2}), schema({n3}={v3})]", [inner2], cons=(n3, v3), merged=True)
        if third and self.rnd.random() < 0.4:
            # three stacked schema() annotations through a NewType
            (n3, v3, p3) = self.rnd.choice(third)
            mid = Node("c" + base, ["ann", {n2: p2}, ntn.lean], f"Annotated[{nt}, schema({n2}={v2})]", [ntn], cons=(n2, v2), merged=True)
            return Node("c" + base, ["ann", {n3: p3}, mid.lean], f"Annotated[{nt}, schema({n2}={v2}), schema({n3}={v3})]", [mid], cons=(n3, v3), merged=True)
        return Node("c" + base, ["ann", {n2: p2}, ntn.lean], f"Annotated[{nt}, schema({n2}={v2})]", [ntn], cons=(n2, v2), merged=True)
    def g_clist(self, d):
        t = self.ty(d - 1)
        name, val, proto = self.rnd.choice([("min_items", 1, 1), ("max_items", 2, 2), ("unique", True, True)])
        n = Node("clist", ["ann", {name: proto}, ["list", t.lean]], f"Annotated[List[{t.py}], schema({name}={val})]", [t], cons=(name, val))
        return n
    def g_cdict(self, d):
        t = self.ty(d - 1)
        name, val = self.rnd.choice([("min_props", 1), ("max_props", 1)])
        return Node("cdict", ["ann", {name: val}, ["mapping", ["str"], t.lean]], f"Annotated[Dict[str, {t.py}], schema({name}={val})]", [t], cons=(name, val))
    # --- containers
    def g_list(self, d): t = self.ty(d - 1); return Node("list", ["list", t.lean], f"List[{t.py}]", [t])
    def g_sequence(self, d):
        """abstract collection annotations: deserialized like a list; any sequence value must serialize to a list"""
        t = self.ty(d - 1); ann = self.rnd.choice(["Sequence", "Collection", "MutableSequence"])
        n = Node("list", ["list", t.lean], f"{ann}[{t.py}]", [t]); n.tags = ("abstract-collection",)
        return n
    def g_set(self, d):
        t = self.hashable_ty(d - 1); return Node("set", ["set", t.lean], f"Set[{t.py}]", [t])
    def g_frozenset(self, d):
        t = self.hashable_ty(d - 1); return Node("frozenset", ["frozenset", t.lean], f"FrozenSet[{t.py}]", [t])
    def hashable_ty(self, d):
        if self.rnd.random() < 0.15: return self.ty(d)     # sometimes an unhashable element type
        return getattr(self, "g_" + self.rnd.choice(["int", "str", "float", "bool", "literal", "enum", "cint"]))(d)
    def g_vtuple(self, d): t = self.ty(d - 1); return Node("vtuple", ["vtuple", t.lean], f"Tuple[{t.py}, ...]", [t])
    def g_tuple(self, d):
        ts = [self.ty(d - 1) for _ in range(self.rnd.randint(1, 3))]
        return Node("tuple", ["tuple", [t.lean for t in ts]], f"Tuple[{', '.join(t.py for t in ts)}]", ts)
    def g_mapping(self, d):
        k = self.rnd.choice([self.g_str, self.g_str, self.g_cstr, self.g_literal_str])(d)
        v = self.ty(d - 1)
        return Node("mapping", ["mapping", k.lean, v.lean], f"Dict[{k.py}, {v.py}]", [k, v])
    def g_literal_str(self, d):
        vals = self.rnd.sample(["a", "b", "k"], 2)
        return Node("literal", ["literal", [lit_proto(v) for v in vals]], f"Literal[{', '.join(map(repr, vals))}]", vals=vals)
    def g_optional(self, d):
        t = self.ty(d - 1)
        while t.kind in ("none", "optional", "union", "any"): t = self.ty(d - 1)
        return Node("optional", ["union", [t.lean, ["none"]]], f"Optional[{t.py}]", [t])
    def _one_spelling(self, ts):
        """typing compares Union[A, B] and Union[B, A] equal, and caches List[...] / Annotated[...] / Optional[...] subscriptions
        on equality: a second spelling of the same set of alternatives would silently denote the first object.  Within one
        generated module every set of alternatives keeps the order in which it was first drawn."""
        memo = self.__dict__.setdefault("_union_orders", {})
        key = frozenset(t.py for t in ts)
        if key in memo:
            by = {t.py: t for t in ts}
            return [by[p] for p in memo[key]]
        memo[key] = [t.py for t in ts]
        return ts
    def g_union(self, d):
        ts, seen = [], set()
        for _ in range(self.rnd.randint(2, 3)):
            t = self.ty(d - 1)
            if t.kind in ("union", "optional", "any") or t.py in seen: continue
            seen.add(t.py); ts.append(t)
        if len(ts) < 2: return self.g_optional(d)
        ts = self._one_spelling(ts)
        return Node("union", ["union", [t.lean for t in ts]], f"Union[{', '.join(t.py for t in ts)}]", ts)
    def g_cunion(self, d):
        """constraints attached to the union itself (they reach every alternative): Annotated[Union[int, str, ...], schema(min=0, max_len=3)]"""
        alts = [self.g_int(0), self.g_str(0)] + ([Node("list", ["list", ["int"]], "List[int]", [self.g_int(0)])] if self.rnd.random() < 0.4 else [])
        self.rnd.shuffle(alts); alts = self._one_spelling(alts)
        u = Node("union", ["union", [t.lean for t in alts]], f"Union[{', '.join(t.py for t in alts)}]", alts)
        cons = self.rnd.choice([({"min": ["i", "0"], "max_len": 3}, "min=0, max_len=3"), ({"max": ["i", "10"], "min_len": 1}, "max=10, min_len=1"),
                                ({"exc_min": ["i", "0"], "max_items": 2}, "exc_min=0, max_items=2")])
        n = Node("cunion", ["ann", cons[0], u.lean], f"Annotated[{u.py}, schema({cons[1]})]", [u], cons=("union", cons[1]))
        return n
    def g_tuple_union(self, d):
        """union of fixed-length tuples told apart by their length, the longer one holding an element that needs conversion"""
        prim = [self.rnd.choice([self.g_int, self.g_str, self.g_bool])(0) for _ in range(self.rnd.randint(1, 2))]
        conv = self.rnd.choice([self.g_enum, self.g_dataclass])(1)
        short = Node("tuple", ["tuple", [t.lean for t in prim]], f"Tuple[{', '.join(t.py for t in prim)}]", prim)
        longer = prim + [conv]
        long_ = Node("tuple", ["tuple", [t.lean for t in longer]], f"Tuple[{', '.join(t.py for t in longer)}]", longer)
        ts = self._one_spelling([short, long_] if self.rnd.random() < 0.7 else [long_, short])
        return Node("union", ["union", [t.lean for t in ts]], f"Union[{', '.join(t.py for t in ts)}]", ts)
    def g_newtype(self, d):
        t = self.ty(d - 1)
        while t.kind == "none": t = self.ty(d - 1)      # NewType of None: finding 31, kept in the corpus only
        n = self.pool.fresh("NT_")
        decl = [f"{n} = NewType('{n}', {t.py})"]
        self.pool.add(decl)
        return Node("newtype", ["newtype", n, t.lean], n, [t], decl=decl)
    # --- objects
    def _fields(self, d, kind):
        fs = []
        for nm in self.rnd.sample(NAMES, self.rnd.randint(0, 3)):
            t = self.ty(d - 1)
            req = self.rnd.random() < 0.5
            f = dict(name=nm, alias=nm, required=req, fbod=False, ty=t, dflt=None, dflt_src=None)
            if not req and kind != "typeddict":
                # a well-typed default: a literal of the field type, an empty list, or `None` with the
                # type widened to Optional
                if t.kind == "int": f["dflt"], f["dflt_src"] = lit_proto(7), "7"
                elif t.kind == "str": f["dflt"], f["dflt_src"] = lit_proto("dv"), "'dv'"
                elif t.kind == "bool": f["dflt"], f["dflt_src"] = lit_proto(True), "True"
                elif t.kind == "float" and self.rnd.random() < 0.5: f["dflt"], f["dflt_src"] = lit_proto(2.5), "2.5"
                elif t.kind == "list" and kind == "dataclass": f["dflt"], f["dflt_src"] = "list", "field(default_factory=list)"
                else:
                    if t.kind not in ("none", "optional", "any") and not (t.kind == "union" and any(k.kind == "none" for k in t.kids)):
                        if t.kind == "union":       # typing flattens Optional[Union[...]]
                            kids = t.kids + [self.g_none(0)]
                            t = Node("union", ["union", [k.lean for k in kids]], f"Union[{', '.join(k.py for k in kids)}]", kids)
                        else:
                            t = Node("optional", ["union", [t.lean, ["none"]]], f"Optional[{t.py}]", [t])
                        f["ty"] = t
                    f["dflt"], f["dflt_src"] = ["n"], "None"
            if kind == "typeddict" and self.rnd.random() < 0.3 and t.kind not in ("none", "optional", "any", "union"):
                # Optional keys of a TypedDict: what exclude_none can omit
                f["ty"] = Node("optional", ["union", [t.lean, ["none"]]], f"Optional[{t.py}]", [t])
            if f["ty"].kind == "optional" and self.rnd.random() < 0.25:
                # Optional[...] behind an annotation: still an Optional for the omission rules
                o = f["ty"]
                f["ty"] = Node("optional", ["ann", {}, o.lean], f"Annotated[{o.py}, 'doc']", o.kids, tags=tuple(getattr(o, "tags", ())))
            if kind == "dataclass":
                if self.rnd.random() < 0.3: f["alias"] = nm.upper() + "_al"
                if not req and self.rnd.random() < 0.25: f["fbod"] = True
            fs.append(f)
        fs.sort(key=lambda f: not f["required"])      # defaults last (class syntax)
        return fs
    def _obj_node(self, kind, name, fs, raw=True, decl=None):
        lean = ["obj", {"name": name, "kind": kind, "raw": raw},
                [[f["name"], f["alias"], f["required"], f["fbod"], f["ty"].lean, f["dflt"]] + ([sorted(f["required_by"])] if f.get("required_by") else []) for f in fs]]
        return Node(kind, lean, name, [f["ty"] for f in fs], fields=fs, decl=decl)
    def g_dataclass(self, d):
        n = self.pool.fresh("C"); fs = self._fields(d, "dataclass")
        lines = ["@dataclass", f"class {n}:"]
        for f in fs:
            md = []
            if f["alias"] != f["name"]: md.append(f"alias({f['alias']!r})")
            if f["fbod"]: md.append("fall_back_on_default")
            rhs = ""
            if f["required"]:
                if md: rhs = f" = field(metadata={' | '.join(md)})"
            else:
                if f["dflt_src"].startswith("field("):
                    rhs = " = " + f["dflt_src"][:-1] + (f", metadata={' | '.join(md)})" if md else ")")
                elif md: rhs = f" = field(default={f['dflt_src']}, metadata={' | '.join(md)})"
                else: rhs = f" = {f['dflt_src']}"
            lines.append(f"    {f['name']}: {f['ty'].py}{rhs}")
        if not fs: lines.append("    pass")
        self.pool.add(lines)
        return self._obj_node("dataclass", n, fs, decl=lines)
    def g_described(self, d):
        """a type whose schema uses a keyword the older dialects spell differently (a fixed-length tuple, a one-value Literal / Enum,
        a dependent_required class), wrapped in Annotated[..., schema(description=...)] - directly, or as the type of a dataclass field with
        schema metadata: the annotations are merged level by level (`full_schema`); outside the Lean model (tag `described`)"""
        import copy
        inner = self.rnd.choice([self.g_tuple, self.g_tuple, self.g_falsy_const, self.g_optenum1, self.g_depreq])(max(d - 1, 0))
        n = copy.copy(inner); n.tags = tuple(getattr(inner, "tags", ())) + ("described",)
        n.py = f"Annotated[{inner.py}, schema(description='d', title='t')]"
        return n
    def g_plain(self, d):
        """raw dataclass of check-only fields, most of them defaulted (literal defaults and default factories): the class
        `SimpleObjectMethod` + `FieldsConstructor` serve when dataclass constructors are overridden"""
        n = self.pool.fresh("C"); fs = []
        for nm in self.rnd.sample(NAMES, self.rnd.randint(1, 3)):
            kind = self.rnd.choice(["int", "str", "bool", "list", "optstr"])
            if kind == "list":
                t = self.g_int(0); t = Node("list", ["list", t.lean], "List[int]", [t])
                f = dict(name=nm, alias=nm, required=False, fbod=False, ty=t, dflt="list", dflt_src="field(default_factory=list)")
            elif kind == "optstr":
                t = Node("optional", ["union", [["str"], ["none"]]], "Optional[str]", [self.g_str(0)])
                f = dict(name=nm, alias=nm, required=False, fbod=False, ty=t, dflt=["n"], dflt_src="None")
            else:
                t = {"int": self.g_int, "str": self.g_str, "bool": self.g_bool}[kind](0)
                req = self.rnd.random() < 0.3
                dv = {"int": (lit_proto(7), "7"), "str": (lit_proto("dv"), "'dv'"), "bool": (lit_proto(True), "True")}[kind]
                f = dict(name=nm, alias=nm, required=req, fbod=False, ty=t, dflt=None if req else dv[0], dflt_src=None if req else dv[1])
            fs.append(f)
        fs.sort(key=lambda f: not f["required"])
        lines = ["@dataclass", f"class {n}:"] + [f"    {f['name']}: {f['ty'].py}" + ("" if f["required"] else f" = {f['dflt_src']}") for f in fs]
        self.pool.add(lines)
        return self._obj_node("dataclass", n, fs, decl=lines)
    def g_reqopt(self, d):
        """object (dataclass / NamedTuple) with fields declared without default and typed Optional[...]: required for
        deserialization, yet what exclude_none may omit from the output"""
        kind = self.rnd.choice(["dataclass", "dataclass", "namedtuple"])
        n = self.pool.fresh("C" if kind == "dataclass" else "N"); fs = []
        for nm in self.rnd.sample(NAMES, self.rnd.randint(1, 3)):
            t = self.rnd.choice([self.g_int, self.g_str, self.g_bool])(0)
            if self.rnd.random() < 0.7: t = Node("optional", ["union", [t.lean, ["none"]]], f"Optional[{t.py}]", [t])
            fs.append(dict(name=nm, alias=nm, required=True, fbod=False, ty=t, dflt=None, dflt_src=None))
        lines = (["@dataclass", f"class {n}:"] if kind == "dataclass" else [f"class {n}(NamedTuple):"]) + [f"    {f['name']}: {f['ty'].py}" for f in fs]
        self.pool.add(lines)
        return self._obj_node(kind, n, fs, raw=(kind == "dataclass"), decl=lines)
    def g_falsy_const(self, d):
        """a single falsy value (Literal[0] / Literal[False] / Literal[''] / one-member Enum of value 0): a `const` that a truthiness
        test would lose"""
        v = self.rnd.choice([0, False, "", 0])
        if self.rnd.random() < 0.3:
            n = self.pool.fresh("E"); decl = [f"class {n}(Enum):", f"    Z = {v!r}"]
            self.pool.add(decl)
            return Node("enum", ["enum", n, [["Z", lit_proto(v)]]], n, vals=[v], decl=decl)
        return Node("literal", ["literal", [lit_proto(v)]], f"Literal[{v!r}]", vals=[v])
    def g_keyconv(self, d):
        """Dict[K, V] whose key type is converted from a string (UUID, date, an Enum of strings) and whose values are check-only:
        outside the Lean grammar (tag `stdkey`); `typed(datum)` is the value the datum denotes"""
        import uuid, datetime
        kk = self.rnd.choice(["UUID", "date", "enum"])
        v = self.rnd.choice([self.g_int, self.g_str, self.g_bool])(0)
        if self.rnd.random() < 0.3: v = Node("optional", ["union", [v.lean, ["none"]]], f"Optional[{v.py}]", [v])
        if kk == "enum":
            e = self.pool.fresh("E"); decl = [f"class {e}(Enum):", "    A = 'ka'", "    B = 'kb'"]; self.pool.add(decl)
            kpy, keys, conv = e, ["ka", "kb"], (lambda ns, k: ns[e](k))
        elif kk == "UUID":
            kpy, keys, conv = "UUID", ["58c88e87-8d7b-4f4e-9c53-6b4a1b2c3d4e", "00000000-0000-0000-0000-000000000001"], (lambda ns, k: uuid.UUID(k))
        else:
            kpy, keys, conv = "date", ["2020-02-29", "1999-12-31"], (lambda ns, k: datetime.date.fromisoformat(k))
        n = Node("mapping", ["mapping", ["str"], v.lean], f"Dict[{kpy}, {v.py}]", [self.g_str(0), v])
        n.tags = ("stdkey",); n.keys = keys
        n.typed = lambda ns, datum: {conv(ns, k): x for k, x in datum.items()}
        return n
    def g_optenum1(self, d):
        """Optional[E] for an Enum of one member (its schema is a `const`)"""
        n = self.pool.fresh("E"); m, v = self.rnd.choice([("X", "x"), ("Y", 1), ("Z", "zz")])
        decl = [f"class {n}(Enum):", f"    {m} = {v!r}"]
        self.pool.add(decl)
        e = Node("enum", ["enum", n, [[m, lit_proto(v)]]], n, vals=[v], decl=decl)
        return Node("optional", ["union", [e.lean, ["none"]]], f"Optional[{n}]", [e])
    def g_aggregate(self, d):
        """dataclass with aggregate fields - an additional-`properties` mapping, a `properties(pattern=...)` mapping, or a
        flattened dataclass: outside the Lean model (tag `aggregate`), inside the model-free checks"""
        n = self.pool.fresh("C"); variant = self.rnd.choice(["additional", "additional", "pattern", "flatten"])
        vt = self.rnd.choice([("Any", None), ("int", 3), ("str", "s")])
        # the aggregate field without default (a required constructor argument), possibly with field-level fall_back_on_default
        req = self.rnd.random() < 0.3
        md_extra = " | fall_back_on_default" if self.rnd.random() < 0.3 else ""
        head, tail = ["@dataclass", f"class {n}:", "    a: int"], ["    b: Optional[str] = None"]
        pre = []
        extra = {}
        if variant == "additional":
            line = f"    extras: Dict[str, {vt[0]}] = field(" + ("" if req else "default_factory=dict, ") + f"metadata=properties{md_extra})"
            extra = {"kind": "additional", "value": vt}
        elif variant == "pattern":
            line = f"    pat: Dict[str, {vt[0]}] = field(" + ("" if req else "default_factory=dict, ") + f"metadata=properties(pattern=r'^p_'){md_extra})"
            extra = {"kind": "pattern", "value": vt}
        else:
            inner = self.pool.fresh("I")
            pre = ["@dataclass", f"class {inner}:", "    x: int = 0", "    y: Optional[str] = None", ""]
            line = f"    inner: {inner} = field(" + ("" if req else f"default_factory={inner}, ") + f"metadata=flatten{md_extra})"
            extra = {"kind": "flatten"}
        extra["required"] = req; extra["fbod"] = bool(md_extra)
        lines = pre + head + ([line] if req else []) + tail + ([] if req else [line])
        self.pool.add(lines)
        fs = [dict(name="a", alias="a", required=True, fbod=False, ty=self.g_int(0), dflt=None, dflt_src=None),
              dict(name="b", alias="b", required=False, fbod=False, ty=Node("optional", ["union", [["str"], ["none"]]], "Optional[str]", [self.g_str(0)]), dflt=["n"], dflt_src="None")]
        node = self._obj_node("dataclass", n, fs, decl=lines)
        node.tags = ("aggregate", "aggregate-" + extra["kind"]); node.aggregate = extra
        return node
    def g_postinit(self, d):
        """dataclass whose `__post_init__` (own, or inherited from a base dataclass) normalises a field: outside the Lean
        model (tag `postinit`), used by the relational checks (constructor override, no_copy, precomputed method)"""
        n = self.pool.fresh("C"); b = self.pool.fresh("PB")
        inherited = self.rnd.random() < 0.6
        post = ["    def __post_init__(self):", "        self.a = 0 - abs(self.a)"]
        lines = []
        if inherited:
            lines += ["@dataclass", f"class {b}:", "    a: int = 0"] + post + ["", "@dataclass", f"class {n}({b}):", "    b: str = 'dv'"]
        else:
            lines += ["@dataclass", f"class {n}:", "    a: int = 0", "    b: str = 'dv'"] + post
        self.pool.add(lines)
        fs = [dict(name="a", alias="a", required=False, fbod=False, ty=self.g_int(0), dflt=lit_proto(0), dflt_src="0"),
              dict(name="b", alias="b", required=False, fbod=False, ty=self.g_str(0), dflt=lit_proto("dv"), dflt_src="'dv'")]
        node = self._obj_node("dataclass", n, fs, decl=lines)
        node.tags = ("postinit",)
        return node
    def g_plainskip(self, d):
        """raw dataclass with a defaulted field that deserialization skips (`skip` / `skip(deserialization=True)`): the field keeps its default whatever
        builds the instance (outside the Lean model: tag `postinit`)"""
        n = self.pool.fresh("C")
        md = self.rnd.choice(["skip", "skip(deserialization=True)"])
        dflt = self.rnd.choice(["default_factory=list", "default=5"])
        lines = ["@dataclass", f"class {n}:", "    a: int", "    b: str = 'dv'", f"    sk: {'List[int]' if 'list' in dflt else 'int'} = field({dflt}, metadata={md})"]
        if self.rnd.random() < 0.5: lines = lines[:3] + lines[4:]            # (no other defaulted field: every deserialized field may be given)
        self.pool.add(lines)
        fs = [dict(name="a", alias="a", required=True, fbod=False, ty=self.g_int(0), dflt=None, dflt_src=None)]
        if len(lines) == 5: fs.append(dict(name="b", alias="b", required=False, fbod=False, ty=self.g_str(0), dflt=lit_proto("dv"), dflt_src="'dv'"))
        node = self._obj_node("dataclass", n, fs, decl=lines)
        node.tags = ("postinit", "skipfield")
        return node
    def g_recursive(self, d):
        """self-recursive dataclass (through Optional and, sometimes, a list); presented to the model as its unfolding to
        depth 4 (generated data are at most 3 deep); the self-reference field may carry object constraints"""
        n = self.pool.fresh("R")
        cons = self.rnd.choice([None, None, ("max_props", 1), ("min_props", 1), ("max_props", 2)])
        with_list = self.rnd.random() < 0.4
        md = f", metadata=schema({cons[0]}={cons[1]})" if cons else ""
        lines = ["@dataclass", f"class {n}:", "    value: int", f"    child: Optional['{n}'] = field(default=None{md})"]
        if with_list: lines.append(f"    kids: List['{n}'] = field(default_factory=list)")
        self.pool.add(lines)
        EXTRA = 4       # the model's unfolding is deeper than any generated or mutated datum can reach
        def lean_level(k):
            fs = [["value", "value", True, False, ["int"], None]]
            child = ["none"] if k == 0 else ["union", [lean_level(k - 1), ["none"]]]
            if cons and k > 0: child = ["ann", {cons[0]: cons[1]}, child]
            fs.append(["child", "child", False, False, child, ["n"]])
            if with_list: fs.append(["kids", "kids", False, False, ["list", lean_level(k - 1) if k > 0 else ["none"]], "list"])
            return ["obj", {"name": n, "kind": "dataclass", "raw": True}, fs]
        def level(k, top=False):
            fs = [dict(name="value", alias="value", required=True, fbod=False, ty=self.g_int(0), dflt=None, dflt_src=None)]
            if k == 0:
                child = Node("none", ["none"], "NoneType")
            else:
                inner = level(k - 1)
                child = Node("optional", ["union", [inner.lean, ["none"]]], f"Optional[{n}]", [inner])
                if cons: child = Node("optional", ["ann", {cons[0]: cons[1]}, child.lean], child.py, child.kids, cons=cons)
            fs.append(dict(name="child", alias="child", required=False, fbod=False, ty=child, dflt=["n"], dflt_src="None"))
            if with_list:
                elt = level(k - 1) if k > 0 else Node("cut", ["none"], "NoneType")
                fs.append(dict(name="kids", alias="kids", required=False, fbod=False, ty=Node("list", ["list", elt.lean], f"List[{n}]", [elt]),
                               dflt="list", dflt_src="field(default_factory=list)"))
            node = self._obj_node("dataclass", n, fs, decl=lines if top else None)
            node.lean = lean_level(k + EXTRA)
            node.tags = ("recursive",)
            return node
        return level(2, top=True)
    def g_depreq(self, d):
        """dataclass with `dependent_required`: not in the Lean model (tag `depreq`: K and model-based P are skipped,
        the model-free checks - jsonschema oracle, typed locations, relational checks - still run)"""
        n = self.pool.fresh("C")
        names = self.rnd.sample(NAMES, self.rnd.randint(2, 3))
        fs = []
        for nm in names:
            t = self.rnd.choice([self.g_int, self.g_str, self.g_bool])(0)
            t = Node("optional", ["union", [t.lean, ["none"]]], f"Optional[{t.py}]", [t])
            f = dict(name=nm, alias=nm, required=False, fbod=False, ty=t, dflt=["n"], dflt_src="None")
            if self.rnd.random() < 0.4: f["alias"] = nm.upper() + "_al"
            fs.append(f)
        a, b = names[0], names[1]
        if self.rnd.random() < 0.4:
            # two fields of one named class: the class is referenced twice, so the schema of the root carries definitions
            sub = self.g_plain(0)
            for nm in ("sub1", "sub2"):
                t = Node("optional", ["union", [sub.lean, ["none"]]], f"Optional[{sub.py}]", [sub])
                fs.append(dict(name=nm, alias=nm, required=False, fbod=False, ty=t, dflt=["n"], dflt_src="None"))
        lines = ["@dataclass", f"class {n}:"]
        for f in fs:
            md = f"metadata=alias({f['alias']!r})" if f["alias"] != f["name"] else ""
            lines.append(f"    {f['name']}: {f['ty'].py} = field(default=None" + (f", {md})" if md else ")"))
        second = len(names) > 2 and self.rnd.random() < 0.5
        deps = "{" + f"{a}: [{b}]" + (f", {names[2]}: [{a}]" if second else "") + "}"
        lines.append(f"    dependencies = dependent_required({deps})")
        # a second declaration for the same requiring field: the requirements accumulate
        again = len(names) > 2 and not second and self.rnd.random() < 0.5
        if again: lines.append(f"    more_dependencies = dependent_required({{{a}: [{names[2]}]}})")
        # `required_by` of a field: the external names of the fields that require it
        al = {f["name"]: f["alias"] for f in fs}
        for f in fs:
            if f["name"] == b: f["required_by"] = [al[a]]
            if second and f["name"] == a: f["required_by"] = [al[names[2]]]
            if again and f["name"] == names[2]: f["required_by"] = [al[a]]
        self.pool.add(lines)
        node = self._obj_node("dataclass", n, fs, decl=lines)
        node.tags = ("depreq",)
        return node
    def g_namedtuple(self, d):
        n = self.pool.fresh("N"); fs = self._fields(d, "namedtuple")
        lines = [f"class {n}(NamedTuple):"] + [f"    {f['name']}: {f['ty'].py}" + ("" if f["required"] else f" = {f['dflt_src']}") for f in fs]
        if not fs: return self.g_dataclass(d)
        self.pool.add(lines)
        return self._obj_node("namedtuple", n, fs, raw=False, decl=lines)
    def g_typeddict(self, d):
        n = self.pool.fresh("T"); fs = self._fields(d, "typeddict")
        total = self.rnd.random() < 0.5
        for f in fs:
            f["required"] = total
            # an aliased key: the Python dict is keyed by the name, the data by the alias
            if self.rnd.random() < 0.25: f["alias"] = f["name"].upper() + "_al"
        lines = [f"class {n}(TypedDict, total={total}):"] + [
            f"    {f['name']}: " + (f['ty'].py if f["alias"] == f["name"] else f"Annotated[{f['ty'].py}, alias({f['alias']!r})]") for f in fs]
        if not fs: lines.append("    pass")
        self.pool.add(lines)
        return self._obj_node("typeddict", n, fs, raw=False, decl=lines)

    # ---------------- data
    ATOMS = [None, True, False, 0, 1, -1, 2, 11, 2**53 + 1, 0.5, 1.0, float("nan"), "", "a", "ab", "zz", [], {}, [1], {"a": 1}, ["a", "a"], [[1]], {"k": None}]
    def valid(self, t, depth=0):
        r = self.rnd; k = t.kind
        if k == "none": return None
        if k == "bool": return r.choice([True, False])
        if k in ("int",): return r.choice(INT_ATOMS)
        if k == "cint": return r.choice([0, 1, 2, 3, 4, 6, 10, 11, -2])
        if k == "float": return r.choice(FLT_ATOMS + [1, 3, 2**53 + 1])
        if k == "cfloat": return r.choice([0.5, 1.0, 2.5, 0.75, 3, 0, 5.0, 0.3, float("nan")])
        if k in ("str", "cstr"): return r.choice(STR_ATOMS)
        if k == "any": return r.choice(self.ATOMS)
        if k in ("literal", "enum"): return r.choice(t.vals)
        if k in ("list", "set", "frozenset", "vtuple"):
            # now and then a long array: child errors are keyed by index, and 10 sorts before 2 as a string
            if t.kids[0].kind == "cut": return []          # end of the generation depth of a recursive class
            n = r.randint(11, 13) if (depth == 0 and r.random() < 0.08) else r.randint(0, 3)
            return [self.valid(t.kids[0], depth + 1) for _ in range(n)]
        if k == "clist": return [self.valid(t.kids[0], depth + 1) for _ in range(r.randint(0, 3))]
        if k == "tuple": return [self.valid(x, depth + 1) for x in t.kids]
        if k in ("mapping",) and hasattr(t, "keys"):
            return {kk: self.valid(t.kids[1], depth + 1) for kk in r.sample(t.keys, r.randint(0, len(t.keys)))}
        if k in ("mapping",):
            return {self.valid(t.kids[0]) if t.kids[0].kind == "literal" else r.choice(["k", "a", "ab", "zz"]): self.valid(t.kids[1], depth + 1) for _ in range(r.randint(0, 2))}
        if k == "cdict": return {r.choice(["k", "a", "zz"]): self.valid(t.kids[0], depth + 1) for _ in range(r.randint(0, 2))}
        if k == "cunion": return self.valid(t.kids[0], depth)
        if k == "optional": return None if r.random() < 0.3 else self.valid(t.kids[0], depth + 1)
        if k == "union": return self.valid(r.choice(t.kids), depth + 1)
        if k == "newtype": return self.valid(t.kids[0], depth)
        out = {}
        for f in t.fields:
            if f["required"] and r.random() < 0.93 or (not f["required"] and r.random() < 0.55):
                out[f["alias"]] = self.valid(f["ty"], depth + 1)
        agg = getattr(t, "aggregate", None)
        if agg:
            val = lambda: r.choice(self.ATOMS) if agg.get("value", (None,))[0] == "Any" else agg["value"][1]
            if agg["kind"] == "additional":
                for k in r.sample(["zz", "p_x", "other"], r.randint(0, 2)): out[k] = val()
            elif agg["kind"] == "pattern":
                for k in r.sample(["p_x", "p_y"], r.randint(0, 2)): out[k] = val()
            else:
                if r.random() < 0.6: out["x"] = r.choice([0, 5])
                if r.random() < 0.4: out["y"] = r.choice(["s", None])
        items = list(out.items()); r.shuffle(items)
        return dict(items)
    def mutate(self, d, depth=0):
        r = self.rnd
        if r.random() < 0.3 or depth > 3: return r.choice(self.ATOMS)
        if isinstance(d, list) and d:
            d = list(d); i = r.randrange(len(d)); x = r.random()
            if x < 0.25: d.append(r.choice(self.ATOMS))
            elif x < 0.5: del d[i]
            elif x < 0.6: d.append(d[i])
            else: d[i] = self.mutate(d[i], depth + 1)
            return d
        if isinstance(d, dict) and d:
            d = dict(d); k = r.choice(list(d)); x = r.random()
            if x < 0.25: del d[k]
            elif x < 0.5: d[r.choice(["zz", "a", "A_AL", "b", "extra"])] = r.choice(self.ATOMS)
            else: d[k] = self.mutate(d[k], depth + 1)
            return d
        return r.choice(self.ATOMS)

def py_proto(d):
    """Python datum -> protocol term"""
    import enum
    if isinstance(d, enum.Enum) and isinstance(d, (int, str)): d = d.value      # a member of an Enum with an int / str mixin *is* that int / str
    if d is None: return ["n"]
    if isinstance(d, bool): return ["b", d]
    if isinstance(d, int): return ["i", str(d)]
    if isinstance(d, float): return ["f", flt_proto(d)]
    if isinstance(d, str): return ["s", d]
    if isinstance(d, list): return ["l", [py_proto(x) for x in d]]
    if isinstance(d, dict):
        if all(isinstance(k, str) for k in d): return ["d", [[k, py_proto(v)] for k, v in d.items()]]
        return ["dn", [[py_proto(k), py_proto(v)] for k, v in d.items()]]
    return ["o", type(d).__name__]
