"""order engine (C16) as a library: run(seed, budget) -> statistics + failures; replay(case)."""
import sys, os, json, random, importlib, subprocess, collections, hashlib
HERE = os.path.dirname(os.path.abspath(__file__)); sys.path.insert(0, HERE)
import diff_order as D
from diff_deser import DRIVER

def observe(cls, names, nf):
    from apischema import serialize
    from apischema.json_schema import deserialization_schema, serialization_schema
    out = {}
    for view, elts in (("serialize", names), ("serialization_schema", names), ("deserialization_schema", names[:nf])):
        try:
            if view == "serialize": real = list(serialize(cls, cls()))
            elif view == "serialization_schema": real = list(serialization_schema(cls).get("properties", {}))
            else: real = list(deserialization_schema(cls).get("properties", {}))
        except Exception as e: real = "EXC:" + type(e).__name__
        out[view] = (elts, real)
    return out

def model(reqs):
    lines = [json.dumps(dict(r, id=i, op="order")) for i, r in enumerate(reqs)]
    out = subprocess.run([DRIVER], input="\n".join(lines) + "\n", capture_output=True, text=True).stdout.splitlines()
    return [json.loads(l) for l in out]

def build(src_lines, tag):
    src = ["from dataclasses import dataclass, field", "from apischema import order, serialized", ""] + src_lines
    modname = "vpool_" + tag
    path = os.path.join(HERE, modname + ".py"); open(path, "w").write("\n".join(src))
    try:
        sys.modules.pop(modname, None); return importlib.import_module(modname)
    finally:
        os.remove(path)

def run(seed, budget, driver_ok=True):
    rnd = random.Random(seed); n = 300 * budget
    classes = [D.gen_class(rnd, i) for i in range(n)]
    mod = build([l for c in classes for l in c[1] + [""]], f"o{seed}")
    reqs, meta = [], []
    for (cname, lines, names, nf, ords, ov) in classes:
        for view, (elts, real) in observe(getattr(mod, cname), names, nf).items():
            reqs.append({"elts": [[x, ords[x]] for x in elts], "overriding": ov})
            meta.append({"class_src": lines, "cls": cname, "view": view, "names": names, "nf": nf, "elts": elts, "real": real,
                         "ords": ords, "overriding": ov})
    ms = model(reqs) if driver_ok else [{} for _ in reqs]
    failures, hist, distinct = [], collections.Counter(), set()
    for m, c in zip(ms, meta):
        kinds = sorted({o[0] for o in c["ords"].values()} | ({"overriding"} if c["overriding"] else set()))
        hist["+".join(kinds)] += 1; hist["view:" + c["view"]] += 1
        nontrivial = any(o[0] != "none" for o in c["ords"].values()) or c["overriding"]
        if nontrivial: distinct.add(hashlib.sha1(json.dumps([c["view"], c["elts"], c["ords"], c["overriding"]], sort_keys=True).encode()).hexdigest())
        c["model"] = m.get("order"); c["anchored"] = m.get("anchored")
        k_fail = driver_ok and m.get("order") != c["real"]
        # P: every declared field appears exactly once (no loss, no duplicate), and the three views agree on the relative order
        p_fail = isinstance(c["real"], str) or sorted(c["real"]) != sorted(c["elts"])
        if k_fail or p_fail:
            c["kind"] = "K" if k_fail else "P"; failures.append(c)
    return {"evaluations": len(meta), "distinct_nontrivial": len(distinct),
            "rule": "generated dataclasses (1-4 fields, 0-2 serialized methods, order value/after/before/overriding) x 3 views; "
                    "non-trivial = at least one order() or overriding; distinct by (view, fields, orders)",
            "samples": [{k: meta[i][k] for k in ("class_src", "view", "real", "model")} for i in range(0, min(len(meta), 9), 3)],
            "histograms": dict(hist), "failures": failures}

def is_known(kid, case):
    """KF17: the model says `anchored = false`, the real code still matches the model, and what is lost is exactly that"""
    return kid == "KF17" and case["kind"] == "P" and case.get("anchored") is False and case.get("model") == case["real"]

def replay(case):
    mod = build(case["class_src"], "replay")
    obs = observe(getattr(mod, case["cls"]), case["names"], case["nf"])[case["view"]]
    m = model([{"elts": [[x, case["ords"][x]] for x in case["elts"]], "overriding": case["overriding"]}])[0]
    return {"real": obs[1], "model": m.get("order"), "declared": case["elts"],
            "fails": obs[1] != m.get("order") or (sorted(obs[1]) != sorted(case["elts"]) and m.get("anchored") is not False)}
