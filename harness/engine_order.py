"""order engine (C16) as a library: run(seed, budget) -> statistics + failures; replay(case)."""
import sys, os, json, random, importlib, subprocess, collections, hashlib
HERE = os.path.dirname(os.path.abspath(__file__)); sys.path.insert(0, HERE)
from common import model as _model, build_module

def ord_src(o):
    k = o[0]
    if k == "none": return None
    if k == "value": return f"order({o[1]})"
    return f"order({k}={o[1]!r})"

METHOD_ALIASES = {}      # class name -> {published name of a serialized method: its function name}


def gen_class(rnd, i, exhaustive=None):
    nf = rnd.randint(1, 4); nm = rnd.randint(0, 2)
    names = [f"f{j}" for j in range(nf)] + [f"m{j}" for j in range(nm)]
    def rand_ord(me):
        k = rnd.choice(["none", "none", "value", "after", "before"])
        if k == "none": return ["none"]
        if k == "value": return ["value", str(rnd.choice([-1, 0, 1, 999]))]
        others = [n for n in names if n != me] + (["zzz"] if rnd.random() < 0.05 else [])
        return [k, rnd.choice(others)] if others else ["none"]
    ords = {n: rand_ord(n) for n in names}
    overriding = []
    if rnd.random() < 0.3:
        for n in rnd.sample(names, rnd.randint(1, len(names))): overriding.append([n, rand_ord(n)])
    cname = f"O{i}"
    lines = []
    if overriding:
        deco = "@order({" + ", ".join(f"{n!r}: {ord_src(o) or 'order(0)'}" for n, o in overriding) + "})"
        overriding = [[n, o if o[0] != "none" else ["value", "0"]] for n, o in overriding]
    else: deco = None
    inherit = rnd.random() < 0.3 and nf >= 1
    kf = rnd.randint(1, nf) if inherit else nf           # fields / methods declared in the base class
    km = rnd.randint(0, nm) if inherit else nm
    redeclared = None
    def field_line(n):
        src = ord_src(ords[n])
        # the specification is given by field(metadata=...) or inside Annotated[...]
        if src and rnd.random() < 0.3: return f"    {n}: Annotated[int, {src}] = 0"
        return f"    {n}: int = field(default=0" + (f", metadata={src})" if src else ")")
    aliased = {n: f"al_{n}" for n in names[nf:] if rnd.random() < 0.3}      # serialized methods published under another name
    METHOD_ALIASES[cname] = {a: n for n, a in aliased.items()}
    def method_lines(n, o=None):
        src = ord_src(o if o is not None else ords[n])
        args = ([repr(aliased[n])] if n in aliased else []) + ([f"order={src}"] if src else [])
        return [f"    @serialized" + (f"({', '.join(args)})" if args else ""), f"    def {n}(self) -> int:", "        return 1"]
    if inherit:
        if rnd.random() < 0.5:
            # a class-level order on the base class too: the subclass' own class-level entries override the inherited ones
            base_over = [[n, rand_ord(n)] for n in rnd.sample(names[:kf], rnd.randint(1, kf))]
            lines.append("@order({" + ", ".join(f"{n!r}: {ord_src(o) or 'order(0)'}" for n, o in base_over) + "})")
            merged = {n: (o if o[0] != "none" else ["value", "0"]) for n, o in base_over}
            merged.update({n: o for n, o in overriding})
            overriding = [[n, o] for n, o in merged.items()]
        lines += ["@dataclass", f"class {cname}B:"] + [field_line(n) for n in names[:kf]]
        for n in names[nf:nf + km]: lines += method_lines(n)
        if km and rnd.random() < 0.5:
            # a base method registered again in the subclass with another order: the subclass' registration counts
            redeclared = names[nf]; base_ord = ords[redeclared]
            new_ord = rand_ord(redeclared)
            lines_base_fix = method_lines(redeclared, base_ord)
            ords[redeclared] = new_ord
            # rewrite the base declaration with the base order (the loop above used the new one only if reassigned before)
            i0 = lines.index(f"    def {redeclared}(self) -> int:") - 1
            lines[i0:i0 + 3] = lines_base_fix
        lines += [""]
        if deco: lines.append(deco)
        lines += ["@dataclass", f"class {cname}({cname}B):"] + [field_line(n) for n in names[kf:nf]]
        if redeclared: lines += method_lines(redeclared)
        for n in names[nf + km:]: lines += method_lines(n)
        if len(lines) and lines[-1].endswith(f"({cname}B):"): lines.append("    pass")
    else:
        if deco: lines.append(deco)
        lines += ["@dataclass", f"class {cname}:"] + [field_line(n) for n in names[:nf]]
        for n in names[nf:]: lines += method_lines(n)
    return cname, lines, names, nf, ords, overriding


class D:
    gen_class = staticmethod(gen_class)

def observe(cls, names, nf):
    from apischema import serialize
    from apischema.json_schema import deserialization_schema, serialization_schema
    out = {}
    for view, elts in (("serialize", names), ("serialization_schema", names), ("deserialization_schema", names[:nf]), ("graphql", names[:nf])):
        try:
            if view == "serialize": real = list(serialize(cls, cls()))
            elif view == "serialization_schema": real = list(serialization_schema(cls).get("properties", {}))
            elif view == "graphql":
                from apischema.graphql import graphql_schema
                def q() -> cls: return cls()
                q.__annotations__ = {"return": cls}
                real = list(graphql_schema(query=[q], aliaser=lambda s: s).type_map[cls.__name__].fields)
            else: real = list(deserialization_schema(cls).get("properties", {}))
        except Exception as e: real = "EXC:" + type(e).__name__
        # (elements are compared by function / field name, whatever the published name)
        if isinstance(real, list): real = [METHOD_ALIASES.get(cls.__name__, {}).get(x, x) for x in real]
        out[view] = (elts, real)
    return out

def model(reqs):
    return _model([dict(r, id=i, op="order") for i, r in enumerate(reqs)])

def build(src_lines, tag):
    src = ["from dataclasses import dataclass, field", "from typing import Annotated", "from apischema import order, serialized", ""] + src_lines
    return build_module(src, tag)

def enum_classes(start):
    """every ordering specification over 3 elements (2 fields + 1 serialized method, and 3 fields): per element one of
    none / order(-1) / order(1) / after each other element / before each other element"""
    import itertools
    out = []
    for nf, nm in ((3, 0), (2, 1)):
        names = [f"f{j}" for j in range(nf)] + [f"m{j}" for j in range(nm)]
        opts = {n: [["none"], ["value", "-1"], ["value", "1"]] + [[k, o] for k in ("after", "before") for o in names if o != n] for n in names}
        for combo in itertools.product(*(opts[n] for n in names)):
            ords = dict(zip(names, combo)); cname = f"OE{start + len(out)}"
            lines = ["@dataclass", f"class {cname}:"]
            for n in names[:nf]:
                src = ord_src(ords[n]); lines.append(f"    {n}: int = field(default=0" + (f", metadata={src})" if src else ")"))
            for n in names[nf:]:
                src = ord_src(ords[n]); lines += [f"    @serialized" + (f"(order={src})" if src else ""), f"    def {n}(self) -> int:", "        return 1"]
            out.append((cname, lines, names, nf, ords, []))
    return out


def run(prop, seed, budget, ctx):
    driver_ok = ctx["driver_ok"]
    rnd = random.Random(seed); n = 300 * budget
    classes = [D.gen_class(rnd, i) for i in range(n)]
    exhaustive = ctx.get("tier") == "thorough"
    if exhaustive: classes += enum_classes(n)
    mod = build([l for c in classes for l in c[1] + [""]], f"o{seed}")
    reqs, meta = [], []
    for (cname, lines, names, nf, ords, ov) in classes:
        for view, (elts, real) in observe(getattr(mod, cname), names, nf).items():
            reqs.append({"elts": [[x, ords[x]] for x in elts], "overriding": ov})
            meta.append({"class_src": lines, "cls": cname, "view": view, "names": names, "nf": nf, "elts": elts, "real": real,
                         "ords": ords, "overriding": ov})
    ms = model(reqs) if driver_ok else [{} for _ in reqs]
    failures, hist, distinct = [], collections.Counter(), set()
    by_cls = {(c["cls"], c["view"]): c["real"] for c in meta}
    for m, c in zip(ms, meta):
        kinds = sorted({o[0] for o in c["ords"].values()} | ({"overriding"} if c["overriding"] else set()))
        hist["+".join(kinds)] += 1; hist["view:" + c["view"]] += 1
        nontrivial = any(o[0] != "none" for o in c["ords"].values()) or c["overriding"]
        if nontrivial: distinct.add(hashlib.sha1(json.dumps([c["view"], c["elts"], c["ords"], c["overriding"]], sort_keys=True).encode()).hexdigest())
        c["model"] = m.get("order"); c["anchored"] = m.get("anchored")
        k_fail = driver_ok and m.get("order") != c["real"]
        # P: every declared field appears exactly once (no loss, no duplicate); the views agree on the relative order of the
        # elements they share; and the sequence is the permutation the (executable) specification `sortByOrder` gives
        p_fail = isinstance(c["real"], str) or sorted(c["real"]) != sorted(c["elts"])
        why = ["field-lost-or-duplicated"] if p_fail else []
        ser = by_cls.get((c["cls"], "serialize"))
        if not p_fail and isinstance(ser, list) and [x for x in ser if x in c["real"]] != [x for x in c["real"] if x in ser]:
            p_fail = True; why.append("views-disagree-on-the-order"); c["serialize_order"] = ser
        if k_fail and not p_fail and m.get("anchored") is True:
            p_fail = True; why.append("order-differs-from-the-specified-permutation")
        if k_fail or p_fail:
            c["kind"] = "P" if p_fail else "K"; c["why"] = why or "model and implementation disagree"; failures.append(c)
    # a class-level order registered (or replaced) after the class has been used: every view follows the specification of the moment
    import itertools
    from apischema import order as _order, serialize as _ser
    from apischema.json_schema import serialization_schema as _ss, deserialization_schema as _ds
    late_src = []
    nlate = 10 * budget
    for i in range(nlate): late_src += ["@dataclass", f"class LO{i}:", "    f0: int = 0", "    f1: int = 0", "    f2: int = 0", "    f3: int = 0", ""]
    lmod = build(late_src, f"olate{seed}")
    late_n = 0
    for i in range(nlate):
        cls = getattr(lmod, f"LO{i}")
        views = lambda: {"serialize": list(_ser(cls, cls())), "serialization_schema": list(_ss(cls)["properties"]), "deserialization_schema": list(_ds(cls)["properties"])}
        first = views()
        perms = [list(p) for p in itertools.permutations(["f0", "f1", "f2", "f3"])]
        hist_l = [["use", first["serialize"]]]
        for step in range(2):
            perm = rnd.choice(perms)
            if rnd.random() < 0.5: _order(perm)(cls); spec = "order(%r)" % (perm,)
            else: _order({n: _order(k) for k, n in enumerate(perm)})(cls); spec = "order({name: order(position)}) for %r" % (perm,)
            got = views(); late_n += 1; distinct.add(("late-order", i, step, tuple(perm)))
            hist_l.append([spec, got["serialize"]])
            bad = {k: v for k, v in got.items() if v != perm}
            if bad:
                failures.append({"kind": "P", "k_ok": True, "part": "late-order", "cls": f"LO{i}", "class_src": ["@dataclass class with int fields f0..f3, no order at definition"], "history": hist_l,
                                 "expected": perm, "views": got, "why": ["order-registered-after-first-use-not-followed:" + ",".join(sorted(bad))]})
                break
    import corners7
    of_, on_, od_, oh_ = corners7.run_part("C16", seed, budget)
    failures += of_; late_n += on_; distinct |= od_
    import objmodel
    of_, on_, od_, oh_ = objmodel.run_part("C16", seed, budget)
    failures += of_; late_n += on_; distinct |= od_
    return {"evaluations": len(meta) + late_n, "distinct_nontrivial": len(distinct),
            "rule": "init variables between fields, inherited and generic classes: schema properties in declaration order (object-model scenarios); a class-level order registered after first use (all views follow it); generated dataclasses (1-4 fields, 0-2 serialized methods, order value/after/before/overriding) x 4 views (serialize, both schemas, GraphQL object type); "
                    "non-trivial = at least one order() or overriding; distinct by (view, fields, orders)",
            "samples": [{k: meta[i][k] for k in ("class_src", "view", "real", "model")} for i in range(0, min(len(meta), 9), 3)],
            "histograms": dict(hist), "failures": failures,
            "assumptions": (["thorough tier: every ordering specification over 3 elements (686 classes) enumerated completely, in addition to the generated ones"] if exhaustive else [])}

def is_known(kid, case):
    """KF17: the model says `anchored = false`, the real code still matches the model, and what is lost is exactly that"""
    return kid == "KF17" and case["kind"] == "P" and case.get("anchored") is False and case.get("model") == case["real"] \
        and case.get("why") == ["field-lost-or-duplicated"]

def replay(prop, case, ctx):
    if case.get("part") == "late-order": return {k: case[k] for k in ("class_src", "history", "expected", "views", "why")}
    mod = build(case["class_src"], "replay")
    obs = observe(getattr(mod, case["cls"]), case["names"], case["nf"])[case["view"]]
    m = model([{"elts": [[x, case["ords"][x]] for x in case["elts"]], "overriding": case["overriding"]}])[0]
    return {"real": obs[1], "model": m.get("order"), "declared": case["elts"],
            "fails": obs[1] != m.get("order") or (sorted(obs[1]) != sorted(case["elts"]) and m.get("anchored") is not False)}
