"""conversions engine, first slice (C12), on the real code: commuting squares for registered and dynamic
deserializers / serializers, several deserializers in registration order, reach through containers but not
into fields, `ValueError` of a catching converter as `ValidationError`."""
import sys, os, random, collections
from dataclasses import dataclass
from typing import List, Optional, Dict, Tuple
from apischema import deserialize, serialize, deserializer, serializer, ValidationError, identity
from apischema.conversions import Conversion, catch_value_error

SOURCES = [(int, [1, -2, "x", None, 1.5]), (str, ["a", "", 3]), (List[int], [[1, 2], [], ["x"], 3]),
           (Optional[int], [None, 4, "y"]), (Dict[str, int], [{"a": 1}, {"a": "b"}, []]), (Tuple[int, str], [[1, "a"], [1], ["a", 1]])]

def outcome(fn):
    try: return ("ok", fn())
    except ValidationError as e: return ("invalid", e.errors)
    except Exception as e: return ("crash", type(e).__name__)

def main():
    seed = int(os.environ.get("VERIF_SEED", "0")); n = int(sys.argv[1])
    rnd = random.Random(seed); stats = collections.Counter()
    for i in range(n):
        src, data = rnd.choice(SOURCES)
        W = dataclass(type(f"W{i}", (), {"__annotations__": {"v": src}}))
        raising = rnd.random() < 0.4
        def f(x, W=W, raising=raising):
            if raising and x in (1, "a", None): raise ValueError("bad value")
            return W(x)
        def g(w): return w.v
        mode = rnd.choice(["registered", "dynamic"])
        conv = Conversion(catch_value_error(f) if raising else f, source=src, target=W)
        sconv = Conversion(g, source=W, target=src)
        if mode == "registered": deserializer(conv); serializer(sconv)
        kw_d = {} if mode == "registered" else {"conversion": conv}
        kw_s = {} if mode == "registered" else {"conversion": sconv}
        for d in data:
            stats["cases"] += 1
            want = outcome(lambda: deserialize(src, d))
            if want[0] == "ok":
                want = outcome(lambda: f(want[1])) if not raising else (("invalid", [{"loc": [], "err": "bad value"}]) if want[1] in (1, "a", None) else ("ok", W(want[1])))
            got = outcome(lambda: deserialize(W, d, **kw_d))
            if got != want:
                stats["P-C12-deser-square"] += 1
                if stats["P-C12-deser-square"] <= 4: print("DESER", mode, src, repr(d), "got", got, "want", want)
            # through a container, not into a field
            gotl = outcome(lambda: deserialize(List[W], [d], **kw_d))
            wantl = ("ok", [want[1]]) if want[0] == "ok" else (want[0], [dict(e, loc=[0] + e["loc"]) for e in want[1]] if want[0] == "invalid" else want[1])
            if gotl != wantl:
                stats["P-C12-container"] += 1
                if stats["P-C12-container"] <= 4: print("LIST", mode, src, repr(d), gotl, wantl)
            if want[0] == "ok":
                w = want[1]
                s1 = outcome(lambda: serialize(W, w, **kw_s)); s2 = outcome(lambda: serialize(src, g(w)))
                if s1 != s2:
                    stats["P-C12-ser-square"] += 1
                    if stats["P-C12-ser-square"] <= 4: print("SER", mode, src, w, s1, s2)
                if mode == "dynamic":
                    @dataclass
                    class Holder:
                        w: W
                    # a dynamic conversion must not reach into the field of a nested object
                    h = outcome(lambda: serialize(Holder, Holder(w), conversion=sconv))
                    h0 = outcome(lambda: serialize(Holder, Holder(w)))
                    if h != h0:
                        stats["P-C12-locality"] += 1
                        if stats["P-C12-locality"] <= 4: print("LOCALITY", src, w, h, h0)
                else:
                    # identity bypasses the registered conversion
                    b = outcome(lambda: serialize(W, w, conversion=identity))
                    if b != ("ok", {"v": serialize(src, w.v)}):
                        stats["P-C12-identity"] += 1
                        if stats["P-C12-identity"] <= 4: print("IDENTITY", src, w, b)
    print(dict(stats))
if __name__ == "__main__": main()
