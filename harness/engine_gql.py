"""GraphQL engine (C19) on the real code.
For generated query signatures (return types over primitives, Optional, List, enums, dataclasses nested to depth 3;
arguments with and without defaults): the schema passes graphql-core validation; nullability through every list level
mirrors Optional; named types mirror the class / scalar; executing a full selection returns serialize(T, v); invalid
arguments yield a GraphQL error and the resolver is not invoked, valid ones reach the resolver exactly as `deserialize`
would produce them.  The translation rules are the Lean `Gql` model (graphql-core itself is modelled, not verified)."""
import sys, os, json, random, collections
HERE = os.path.dirname(os.path.abspath(__file__)); sys.path.insert(0, HERE)
from common import build_module, case_hash

LEAVES = [("int", 1), ("str", "s"), ("float", 1.5), ("bool", True)]
NAMES = {"int": "Int", "str": "String", "float": "Float", "bool": "Boolean"}


def gen(rnd, i, depth=0):
    """(type source, value source, [class source lines], selection set or None)"""
    r = rnd.random()
    if r < 0.4 or depth > 2:
        t, v = rnd.choice(LEAVES); return t, repr(v), [], None
    if r < 0.55:
        t, v, cl, sel = gen(rnd, i, depth + 1)
        if t.startswith("Optional["): return t, v, cl, sel
        return f"Optional[{t}]", (v if rnd.random() < 0.5 else "None"), cl, sel
    if r < 0.7:
        t, v, cl, sel = gen(rnd, i, depth + 1)
        return f"List[{t}]", f"[{v}, {v}]", cl, sel
    if r < 0.78:
        name = f"E{i}_{rnd.randrange(10**6)}"
        return name, f"{name}.B", ["class " + name + "(Enum):", "    A = 'a'", "    B = 'b'", ""], None
    name = f"T{i}_{rnd.randrange(10**6)}"
    lines, sels, args, cls_lines = ["@dataclass", f"class {name}:"], [], [], []
    for k in range(rnd.randint(1, 3)):
        t, v, cl, sel = gen(rnd, i, depth + 1)
        cls_lines += cl
        lines.append(f"    f{k}: {t}"); args.append(f"f{k}={v}")
        sels.append(f"f{k}" + (f" {{ {sel} }}" if sel else ""))
    return name, f"{name}({', '.join(args)})", cls_lines + lines + [""], " ".join(sels)


def unwrap(t):
    import graphql
    out = []
    while True:
        nn = isinstance(t, graphql.GraphQLNonNull)
        if nn: t = t.of_type
        out.append("!" if nn else "?")
        if isinstance(t, graphql.GraphQLList): t = t.of_type; continue
        return out, t


def expect_pattern(tsrc):
    out = []
    while True:
        if tsrc.startswith("Optional["):
            out.append("?"); tsrc = tsrc[9:-1]
        else: out.append("!")
        if tsrc.startswith("List["): tsrc = tsrc[5:-1]; continue
        return out, tsrc


HEADER = ["from dataclasses import dataclass", "from typing import *", "from enum import Enum", "from apischema import schema", "LOG = []", ""]
# nullable arguments without a Python default (the argument may be omitted or null: the resolver receives None), plain or behind an annotation
NULLABLE_ARGS = {"x: Optional[int]": "", "x: Annotated[Optional[int], schema(min=0)]": "(x: null)", "x: Annotated[Optional[int], schema(max=9)]": "",
                 "x: Annotated[Optional[int], schema(min=0)] = None": "(x: 4)",
                 # an explicit null where the Python default is not None: the resolver receives None, as deserialize(Optional[int], None) gives
                 "x: Optional[int] = 10": "(x: null)", "x: Optional[int] = 11": ""}


def run(prop, seed, budget, ctx):
    import graphql
    from apischema import serialize
    from apischema.graphql import graphql_schema
    rnd = random.Random(seed); n = 300 * budget
    cases, src = [], list(HEADER)
    for i in range(n):
        t, v, cl, sel = gen(rnd, i)
        src += cl
        # an argument: int with / without default, Optional[int]
        arg = rnd.choice([None, "x: int", "x: int = 5", "x: Optional[int] = None", "x: List[int]"] + list(NULLABLE_ARGS))
        cases.append((i, t, v, sel, arg))
    for i, t, v, sel, arg in cases:
        src += [f"def q{i}({arg or ''}) -> {t}:", f"    LOG.append(({i}, {'x' if arg else 'None'}))", f"    return {v}", ""]
    mod = build_module(src, f"gql{seed}")
    failures, hist, distinct, samples, evaluations = [], collections.Counter(), set(), [], 0

    def fail(kind, **kw):
        failures.append(dict({"kind": "P", "k_ok": True, "why": [kind]}, **kw)); hist["P:" + kind] += 1

    for i, t, v, sel, arg in cases:
        evaluations += 1
        fn = getattr(mod, f"q{i}")
        info = {"type": t, "value": v, "argument": arg}
        try: schema = graphql_schema(query=[fn])
        except Exception as e:
            fail("schema-generation-raises:" + type(e).__name__, info=info, msg=str(e)[:200]); continue
        errs = graphql.validate_schema(schema)
        if errs: fail("schema-does-not-pass-graphql-core-validation", info=info, errors=[str(e) for e in errs][:3])
        if t not in NAMES: distinct.add(case_hash(t, arg))
        f = schema.query_type.fields[f"q{i}"]
        got, leaf = unwrap(f.type); want, leafsrc = expect_pattern(t)
        if got != want: fail("nullability-does-not-mirror-Optional", info=info, got=got, want=want)
        wname = NAMES.get(leafsrc, leafsrc)
        if leaf.name != wname: fail("named-type-does-not-mirror-the-model", info=info, got=leaf.name, want=wname)
        # arguments: name, nullability, default
        call = ""
        if arg:
            a = f.args.get("x")
            if a is None: fail("argument-missing-from-the-schema", info=info, args=list(f.args))
            else:
                apat, aleaf = unwrap(a.type)
                awant = {"x: int": ["!"], "x: int = 5": ["!"], "x: Optional[int] = None": ["?"], "x: List[int]": ["!", "!"]}.get(arg, ["?"])
                if apat != awant: fail("argument-nullability", info=info, got=apat, want=awant)
            call = {"x: int": "(x: 3)", "x: int = 5": "", "x: Optional[int] = None": "(x: null)", "x: List[int]": "(x: [1, 2])", **NULLABLE_ARGS}[arg]
        query = "{ q%d%s%s }" % (i, call, (" { %s }" % sel) if sel else "")
        mod.LOG.clear()
        res = graphql.graphql_sync(schema, query)
        py = eval(v, vars(mod)); tp = eval(t, vars(mod))
        want_data = serialize(tp, py)
        want_data = enum_names(tp, py, want_data)
        if res.errors or res.data[f"q{i}"] != want_data:
            fail("execution-differs-from-serialize", info=info, query=query, errors=[str(e) for e in res.errors or []][:2], data=res.data, want=want_data)
        elif arg:
            want_x = {"x: int": 3, "x: int = 5": 5, "x: Optional[int] = None": None, "x: List[int]": [1, 2]}.get(arg, 4 if NULLABLE_ARGS.get(arg) == "(x: 4)" else 11 if arg == "x: Optional[int] = 11" else None)
            if mod.LOG != [(i, want_x)]: fail("resolver-did-not-receive-the-deserialized-argument", info=info, log=list(mod.LOG), want=want_x)
        if len(samples) < 4 and t not in NAMES: samples.append({"query": query, "return_type": t, "graphql_type": str(f.type), "data": res.data})
        # invalid argument: a GraphQL error, resolver not invoked
        if arg in ("x: int", "x: int = 5", "x: List[int]", "x: Annotated[Optional[int], schema(min=0)]", "x: Annotated[Optional[int], schema(max=9)]", "x: Annotated[Optional[int], schema(min=0)] = None"):
            evaluations += 1
            # (the last three: a valid GraphQL Int that the annotation's constraint rejects - the annotations of the parameters count)
            bad = {"x: int": '(x: "a")', "x: int = 5": "(x: 1.5)", "x: List[int]": '(x: [1, "b"])', "x: Annotated[Optional[int], schema(min=0)]": "(x: -5)",
                   "x: Annotated[Optional[int], schema(max=9)]": "(x: 50)", "x: Annotated[Optional[int], schema(min=0)] = None": "(x: -1)"}[arg]
            mod.LOG.clear()
            res = graphql.graphql_sync(schema, "{ q%d%s%s }" % (i, bad, (" { %s }" % sel) if sel else ""))
            if not res.errors: fail("invalid-argument-accepted", info=info, data=res.data)
            if mod.LOG: fail("resolver-invoked-with-an-invalid-argument", info=info, log=list(mod.LOG))
    # constrained arguments (a valid GraphQL Int that apischema rejects) with and without an error_handler, and interface chains
    from apischema.graphql import Query, interface
    fam = ["from dataclasses import dataclass, field", "from typing import *", "from apischema import schema", "from apischema.graphql import interface", "LOG = []", ""]
    nf = 20 * budget
    for i in range(nf):
        fam += [f"Qty{i} = NewType('Qty{i}', int)", f"schema(min=1)(Qty{i})", "",
                "@dataclass", f"class Order{i}:", f"    quantity: Qty{i}", "    label: str = field(default='x', metadata=schema(min_len=1))", "",
                f"def price{i}(quantity: Qty{i}) -> int:", f"    LOG.append(('price', quantity))", "    return quantity * 2", "",
                f"def place{i}(order: Order{i}) -> int:", f"    LOG.append(('place', order))", "    return order.quantity", "",
                "@interface", "@dataclass", f"class Entity{i}:", "    id: int", "",
                "@interface", "@dataclass", f"class Named{i}(Entity{i}):", "    name: str", "",
                "@dataclass", f"class User{i}(Named{i}):", "    email: str", "",
                "@dataclass", f"class Base{i}(Entity{i}):", "    revision: int", "",
                "@dataclass", f"class Doc{i}(Base{i}):", "    title: str", "",
                f"def entities{i}() -> List[Entity{i}]:", f"    return [User{i}(1, 'bob', 'b@x'), Doc{i}(2, 7, 'spec')]", ""]
    fmod = build_module(fam, f"gqlfam{seed}")
    for i in range(nf):
        price, place, ents = getattr(fmod, f"price{i}"), getattr(fmod, f"place{i}"), getattr(fmod, f"entities{i}")
        handler_mode = ["default", "none", "custom"][i % 3]
        handled = []
        def record(error, obj, info, **kwargs) -> None: handled.append(error); return None
        mk = (lambda f: f) if handler_mode == "default" else (lambda f: Query(f, error_handler=None)) if handler_mode == "none" else (lambda f: Query(f, error_handler=record))
        info = {"family": i, "error_handler": handler_mode}
        try: sch = graphql_schema(query=[mk(price), mk(place), ents], types=[getattr(fmod, f"User{i}"), getattr(fmod, f"Doc{i}")])
        except Exception as e:
            fail("schema-generation-raises:" + type(e).__name__, info=info, msg=str(e)[:200]); continue
        evaluations += 1; distinct.add(("family", i))
        errs = graphql.validate_schema(sch)
        if errs: fail("schema-does-not-pass-graphql-core-validation", info=info, errors=[str(e) for e in errs][:3])
        for q, fname in ((f"{{ price{i}(quantity: 0) }}", f"price{i}"), (f"{{ place{i}(order: {{quantity: 0}}) }}", f"place{i}"),
                         (f'{{ place{i}(order: {{quantity: 2, label: ""}}) }}', f"place{i}")):
            evaluations += 1; fmod.LOG.clear(); handled.clear()
            res = graphql.graphql_sync(sch, q)
            if fmod.LOG: fail("resolver-invoked-with-an-invalid-argument", info=info, query=q, log=repr(fmod.LOG))
            if not res.errors: fail("invalid-argument-accepted", info=info, query=q, data=res.data)
        for q, fname, want in ((f"{{ price{i}(quantity: 3) }}", f"price{i}", 6), (f"{{ place{i}(order: {{quantity: 2}}) }}", f"place{i}", 2)):
            evaluations += 1; fmod.LOG.clear()
            res = graphql.graphql_sync(sch, q)
            if res.errors or res.data[fname] != want: fail("execution-differs-from-serialize", info=info, query=q, errors=[str(e) for e in res.errors or []][:2], data=res.data)
        # every @interface among the ancestors of a class is implemented; fragments on the concrete types work
        for cname, expected in ((f"User{i}", {f"Entity{i}", f"Named{i}"}), (f"Doc{i}", {f"Entity{i}"})):
            t = sch.type_map.get(cname)
            got = {x.name for x in getattr(t, "interfaces", [])} if t is not None else None
            if got != expected: fail("interfaces-do-not-mirror-the-class-hierarchy", info=info, cls=cname, got=sorted(got) if got is not None else None, expected=sorted(expected))
        q = f"{{ entities{i} {{ id ... on User{i} {{ name email }} ... on Doc{i} {{ title }} }} }}"
        res = graphql.graphql_sync(sch, q); evaluations += 1
        want = [{"id": 1, "name": "bob", "email": "b@x"}, {"id": 2, "title": "spec"}]
        if res.errors or res.data[f"entities{i}"] != want: fail("execution-differs-from-serialize", info=info, query=q, errors=[str(e) for e in res.errors or []][:2], data=res.data)
    # unions of objects used by several fields, unhashable defaults of input fields / parameters, flattened fields (one and
    # two levels; the flattened class also queried on its own)
    from apischema import serialize
    fam2 = ["from dataclasses import dataclass, field", "from typing import *", "from apischema.metadata import flatten", ""]
    n2 = 12 * budget
    for i in range(n2):
        fam2 += ["@dataclass", f"class UA{i}:", "    a: int = 1", "", "@dataclass", f"class UB{i}:", "    b: str = 'b'", "",
                 "@dataclass", f"class UH{i}:", f"    u: Union[UA{i}, UB{i}]", f"    v: Optional[Union[UA{i}, UB{i}]] = None", "",
                 f"def ua{i}() -> Union[UA{i}, UB{i}]:", f"    return UA{i}()", "",
                 f"def ub{i}() -> List[Union[UA{i}, UB{i}]]:", f"    return [UB{i}(), UA{i}(3)]", "",
                 f"def uh{i}() -> UH{i}:", f"    return UH{i}(UA{i}(2), UB{i}('z'))", "",
                 "@dataclass", f"class DIn{i}:", "    xs: List[int] = field(default_factory=list)", f"    inner: UA{i} = field(default_factory=UA{i})", "    n: int = 0", "",
                 f"def dq{i}(arg: DIn{i}, ys: List[int] = [1, 2]) -> int:", "    return len(arg.xs) + arg.inner.a * 10 + len(ys) * 100", "",
                 "@dataclass", f"class Geo{i}:", "    lat: int = 5", "",
                 "@dataclass", f"class Addr{i}:", "    street: str = 's'", f"    geo: Geo{i} = field(default_factory=Geo{i}, metadata=flatten)", "    zip_code: str = 'z'",
                 f"    nested: Geo{i} = field(default_factory=lambda: Geo{i}(3))", "",
                 "@dataclass", f"class Shop{i}:", "    name: str = 'n'", f"    addr: Addr{i} = field(default_factory=Addr{i}, metadata=flatten)", "    open: bool = True", "",
                 f"def shop{i}() -> Shop{i}:", f"    return Shop{i}('shop', Addr{i}('high st', Geo{i}(7), 'zz'))", "",
                 f"def addr{i}() -> Addr{i}:", f"    return Addr{i}('alone', Geo{i}(9), 'yy')", ""]
    m2 = build_module(fam2, f"gqlfam2_{seed}")
    for i in range(n2):
        standalone = i % 3 == 0
        info = {"family2": i, "flattened_class_also_standalone": standalone}
        ops = [getattr(m2, f"{n}{i}") for n in ("ua", "ub", "uh", "dq", "shop")] + ([getattr(m2, f"addr{i}")] if standalone else [])
        evaluations += 1; distinct.add(("family2", i))
        try: sch = graphql_schema(query=ops)
        except Exception as e:
            fail("schema-generation-raises:" + type(e).__name__, info=info, msg=str(e)[:200]); continue
        errs = graphql.validate_schema(sch)
        if errs: fail("schema-does-not-pass-graphql-core-validation", info=info, errors=[str(e) for e in errs][:3])
        checks = [
            (f"{{ ua{i} {{ __typename ... on UA{i} {{ a }} }} ub{i} {{ __typename }} uh{i} {{ u {{ __typename }} v {{ ... on UB{i} {{ b }} }} }} }}",
             {f"ua{i}": {"__typename": f"UA{i}", "a": 1}, f"ub{i}": [{"__typename": f"UB{i}"}, {"__typename": f"UA{i}"}], f"uh{i}": {"u": {"__typename": f"UA{i}"}, "v": {"b": "z"}}}),
            (f"{{ dq{i}(arg: {{}}) }}", {f"dq{i}": 210}),
            (f"{{ dq{i}(arg: {{xs: [1, 2, 3], inner: {{a: 2}}}}, ys: []) }}", {f"dq{i}": 23}),
            (f"{{ shop{i} {{ name street lat zipCode open nested {{ lat }} }} }}", {f"shop{i}": {"name": "shop", "street": "high st", "lat": 7, "zipCode": "zz", "open": True, "nested": {"lat": 3}}}),
        ] + ([(f"{{ addr{i} {{ street lat zipCode nested {{ lat }} }} }}", {f"addr{i}": {"street": "alone", "lat": 9, "zipCode": "yy", "nested": {"lat": 3}}})] if standalone else [])
        for q, want in checks:
            evaluations += 1
            res = graphql.graphql_sync(sch, q)
            if res.errors or res.data != want:
                fail("execution-differs-from-serialize", info=dict(info, query_kind=q.split("{")[1].strip().split(" ")[0].rstrip("0123456789").split("(")[0]), query=q,
                     errors=[str(e) for e in res.errors or []][:2], data=res.data, expected=want)
    # resolvers declared on a generic base and inherited by non-generic subclasses: the type variable is the subclass's argument
    fam3 = ["from dataclasses import dataclass, field", "from typing import *", "from apischema.graphql import resolver", "T = TypeVar('T')", ""]
    n3 = 8 * budget; ARGS3 = [("int", "Int", "3", 3), ("str", "String", "'s'", "s"), ("bool", "Boolean", "True", True), ("float", "Float", "1.5", 1.5)]
    picks = []
    for i in range(n3):
        a1, a2 = rnd.sample(ARGS3, 2); picks.append((a1, a2)); deep = i % 2 == 0
        fam3 += ["@dataclass", f"class Box{i}(Generic[T]):", "    content: T",
                 "    @resolver", "    def first(self) -> T:", "        return self.content",
                 "    @resolver", "    def repeat(self, times: int) -> List[T]:", "        return [self.content] * times",
                 "    @resolver", "    def same_as(self, other: T) -> bool:", "        return other == self.content",
                 "    @resolver", "    def maybe(self) -> Optional[T]:", "        return None", ""]
        for k, a in enumerate((a1, a2)):
            fam3 += ["@dataclass", f"class Box{i}_{k}(Box{i}[{a[0]}]):", "    pass", ""]
            if deep: fam3 += ["@dataclass", f"class Box{i}_{k}d(Box{i}_{k}):", "    extra: int = 0", ""]
            cls = f"Box{i}_{k}d" if deep else f"Box{i}_{k}"
            fam3 += [f"def box{i}x{k}() -> {cls}:", f"    return {cls}({a[2]})", ""]
    m3 = build_module(fam3, f"gqlfam3_{seed}")
    for i in range(n3):
        info = {"family3": i, "arguments": [a[0] for a in picks[i]], "two_levels": i % 2 == 0}
        evaluations += 1; distinct.add(("family3", i))
        try: sch = graphql_schema(query=[getattr(m3, f"box{i}x0"), getattr(m3, f"box{i}x1")])
        except Exception as e:
            fail("schema-generation-raises:" + type(e).__name__, info=info, msg=str(e)[:200]); continue
        for k, a in enumerate(picks[i]):
            cname = f"Box{i}_{k}d" if i % 2 == 0 else f"Box{i}_{k}"
            fields = sch.type_map[cname].fields
            got = {"content": str(fields["content"].type), "first": str(fields["first"].type), "repeat": str(fields["repeat"].type), "maybe": str(fields["maybe"].type),
                   "sameAs.other": str(fields["sameAs"].args["other"].type)}
            want = {"content": a[1] + "!", "first": a[1] + "!", "repeat": f"[{a[1]}!]!", "maybe": a[1], "sameAs.other": a[1] + "!"}
            if got != want: fail("named-type-does-not-mirror-the-model", info=dict(info, cls=cname), got=got, want=want)
            lit = json.dumps(a[3])
            q = f"{{ box{i}x{k} {{ content first repeat(times: 2) sameAs(other: {lit}) maybe }} }}"
            res = graphql.graphql_sync(sch, q); evaluations += 1
            wantd = {f"box{i}x{k}": {"content": a[3], "first": a[3], "repeat": [a[3], a[3]], "sameAs": True, "maybe": None}}
            if res.errors or res.data != wantd: fail("execution-differs-from-serialize", info=dict(info, cls=cname), query=q, errors=[str(e) for e in res.errors or []][:2], data=res.data, expected=wantd)
    # the resolve-info parameter anywhere among the parameters; object defaults of parameters whose fields are renamed by the aliaser
    fam4 = ["from dataclasses import dataclass, field", "from typing import *", "import graphql", "from apischema.metadata import none_as_undefined", ""]
    n4 = 8 * budget; pos4 = []
    for i in range(n4):
        pos = i % 3; pos4.append(pos)
        params = ["a: int", "b: int = 2"]; params.insert(pos, "info: graphql.GraphQLResolveInfo" + (" = None" if pos == 2 else ""))
        fam4 += [f"def withinfo{i}({', '.join(params)}) -> int:", "    return a * 10 + b + (1000 if info.field_name else 0)", "",
                 "@dataclass", f"class Inp{i}:", "    my_field: int = 0", "    other_one: int = 1", "",
                 f"def dflt{i}(inp: Inp{i} = Inp{i}(3), n: int = 1) -> int:", "    return inp.my_field * 10 + inp.other_one + n * 100", "",
                 # a field that is None-able in Python although its declared type loses the None (none_as_undefined): nullable in the schema
                 "@dataclass", f"class NU{i}:", "    x: Optional[int] = field(default=None, metadata=none_as_undefined)", "    y: int = 0", "",
                 f"def nu{i}(full: bool = False) -> NU{i}:", f"    return NU{i}(3, 1) if full else NU{i}(None, 2)", ""]
    m4 = build_module(fam4, f"gqlfam4_{seed}")
    for i in range(n4):
        info = {"family4": i, "info_parameter_position": pos4[i]}
        evaluations += 1; distinct.add(("family4", i))
        try: sch = graphql_schema(query=[getattr(m4, f"withinfo{i}"), getattr(m4, f"dflt{i}"), getattr(m4, f"nu{i}")])
        except Exception as e:
            fail("schema-generation-raises:" + type(e).__name__, info=info, msg=str(e)[:200]); continue
        f = sch.query_type.fields[f"withinfo{i}"]
        if sorted(f.args) != ["a", "b"]: fail("argument-missing-from-the-schema", info=info, args=sorted(f.args), expected=["a", "b"])
        xt = str(sch.type_map[f"NU{i}"].fields["x"].type)
        if xt != "Int": fail("nullability-does-not-mirror-Optional", info=info, field=f"NU{i}.x (Optional[int], none_as_undefined)", got=xt, want="Int")
        for q, want in ((f"{{ nu{i} {{ x y }} }}", {f"nu{i}": {"x": None, "y": 2}}), (f"{{ nu{i}(full: true) {{ x y }} }}", {f"nu{i}": {"x": 3, "y": 1}}),
                        (f"{{ withinfo{i}(a: 1, b: 5) }}", {f"withinfo{i}": 1015}), (f"{{ withinfo{i}(a: 2) }}", {f"withinfo{i}": 1022}),
                        (f"{{ dflt{i} }}", {f"dflt{i}": 131}), (f"{{ dflt{i}(inp: {{myField: 4}}, n: 2) }}", {f"dflt{i}": 241})):
            evaluations += 1
            res = graphql.graphql_sync(sch, q)
            if res.errors or res.data != want: fail("execution-differs-from-serialize", info=info, query=q, errors=[str(e) for e in res.errors or []][:2], data=res.data, expected=want)
    import corners8
    c8f_, c8n_, c8d_, c8h_ = corners8.run_part("C19", seed, budget)
    failures += c8f_; distinct |= c8d_; evaluations += c8n_
    for k_, v_ in c8h_.items(): hist[k_] += v_
    for f in c8f_: hist["P:" + f["why"][0].split(":")[0]] += 1
    import corners7
    cf_, cn_, cd_, ch_ = corners7.run_part("C19", seed, budget)
    failures += cf_; distinct |= cd_; evaluations += cn_
    for k_, v_ in ch_.items(): hist[k_] += v_
    return {"evaluations": evaluations, "distinct_nontrivial": len(distinct),
            "rule": "the resolve-info parameter at any position, object defaults of parameters under the aliaser; resolvers of a generic base inherited by non-generic subclasses (one and two levels); generated query resolvers: return types over primitives / Optional / List / enums / dataclasses nested to depth 3, one optional argument "
                    "(required int, defaulted int, Optional[int], List[int]); full-selection execution with valid and invalid arguments; plus families with a constrained NewType / input-object argument "
                    "under three error_handler settings and an interface chain (interface <- interface <- class, interface <- plain class <- class); families with a union of objects "
                    "used by three fields, input objects / parameters with list and dataclass defaults, one- and two-level flattened fields (the flattened class also queried alone in a third); non-trivial = "
                    "non-primitive return type or a family; distinct by (return type, argument)",
            "samples": samples, "histograms": dict(hist), "failures": failures}


def enum_names(tp, py, data):
    """enums by name in GraphQL results (serialize gives them by value)"""
    import enum, dataclasses
    if isinstance(py, enum.Enum): return py.name
    if isinstance(py, list): return [enum_names(None, p, d) for p, d in zip(py, data)]
    if dataclasses.is_dataclass(py) and not isinstance(py, type):
        return {f.name: enum_names(None, getattr(py, f.name), data[f.name]) for f in dataclasses.fields(py)}
    return data


def is_known(kid, case): return False


def replay(prop, case, ctx):
    return {"fails": True, "note": "re-run the check with the same VERIF_SEED; the case names the resolver signature", "case": case}
