"""refs engine (C17): $defs keys and $ref occurrences of the real schemas vs the type-graph model,
on generated graphs of dataclasses (shared, nested, recursive), both builders, all_refs on/off."""
import sys, os, json, random, importlib, subprocess, collections
HERE = os.path.dirname(os.path.abspath(__file__)); sys.path.insert(0, HERE)
from diff_deser import DRIVER
from apischema.json_schema import deserialization_schema, serialization_schema

def gen_graph(rnd, gi):
    k = rnd.randint(1, 5); names = [f"G{gi}_{i}" for i in range(k)]
    def ty(depth=0):
        r = rnd.random()
        if r < 0.25 or depth > 2: return ("leaf", rnd.choice(["int", "str"]))
        if r < 0.6: return ("ref", rnd.choice(names))
        if r < 0.75: return ("list", ty(depth + 1))
        if r < 0.9: return ("opt", ("ref", rnd.choice(names)))
        return ("tuple", [ty(depth + 1) for _ in range(rnd.randint(1, 2))])
    classes = {n: [ty() for _ in range(rnd.randint(0, 3))] for n in names}
    root = rnd.choice([("ref", names[0]), ("list", ("ref", names[0])), ("tuple", [("ref", rnd.choice(names)), ("ref", rnd.choice(names))])])
    return names, classes, root

def py(t):
    k = t[0]
    if k == "leaf": return t[1]
    if k == "ref": return f"'{t[1]}'"
    if k == "list": return f"List[{py(t[1])}]"
    if k == "opt": return f"Optional[{py(t[1])}]"
    return "Tuple[" + ", ".join(py(x) for x in t[1]) + "]"

def tyg(t):
    k = t[0]
    if k == "leaf": return ["leaf"]
    if k == "ref": return ["ref", t[1]]
    if k == "list": return ["node", [tyg(t[1])]]
    if k == "opt": return ["node", [tyg(t[1]), ["leaf"]]]
    return ["node", [tyg(x) for x in t[1]]]

def refs_in(j):
    """$ref targets in document order"""
    out = []
    if isinstance(j, dict):
        for k, v in j.items():
            if k == "$ref": out.append(v.rsplit("/", 1)[1])
            elif k != "$defs": out += refs_in(v)
    elif isinstance(j, list):
        for v in j: out += refs_in(v)
    return out

def main():
    seed = int(os.environ.get("VERIF_SEED", "0")); n = int(sys.argv[1])
    rnd = random.Random(seed)
    graphs = [gen_graph(rnd, i) for i in range(n)]
    src = ["from __future__ import annotations", "from dataclasses import dataclass", "from typing import *", ""]
    for names, classes, root in graphs:
        for c in names:
            src += ["@dataclass", f"class {c}:"] + ([f"    f{i}: {py(t).replace(chr(39), '')}" for i, t in enumerate(classes[c])] or ["    pass"]) + [""]
    modname = f"vpool_r{seed}"
    path = os.path.join(HERE, modname + ".py"); open(path, "w").write("\n".join(src))
    mod = importlib.import_module(modname); os.remove(path)
    ns = dict(vars(mod))
    reqs, real = [], []
    for names, classes, root in graphs:
        tp = eval(py(root).replace("'", ""), ns)
        for all_refs in (False, True):
            for view, fn in (("deser", deserialization_schema), ("ser", serialization_schema)):
                try:
                    s = fn(tp, all_refs=all_refs, with_schema=False)
                    r = {"main": refs_in(s), "defs": sorted([k, refs_in(v)] for k, v in s.get("$defs", {}).items())}
                except RecursionError: r = {"main": None, "defs": "RecursionError"}
                except Exception as e: r = {"main": None, "defs": "EXC:" + type(e).__name__}
                real.append((r, names, classes, root, all_refs, view))
                reqs.append(json.dumps({"id": len(reqs), "op": "refs", "all_refs": all_refs, "root": tyg(root),
                                        "env": [[c, ["node", [tyg(t) for t in classes[c]]]] for c in names]}))
    out = subprocess.run([DRIVER], input="\n".join(reqs) + "\n", capture_output=True, text=True).stdout.splitlines()
    stats = collections.Counter()
    for (r, names, classes, root, all_refs, view), line in zip(real, out):
        m = json.loads(line); stats["cases"] += 1
        if "error" in m: stats["driver-error"] += 1; print(m); continue
        mm = {"main": m["main"], "defs": sorted(m["defs"])}
        if any(d[1] is None for d in m["defs"]) or m["main"] is None: mm = {"main": None, "defs": "RecursionError"}
        stats["defs=%d" % (len(r["defs"]) if isinstance(r["defs"], list) else -1)] += 1
        if mm != r:
            stats["disagree"] += 1
            if stats["disagree"] <= 4:
                print("DISAGREE", view, "all_refs", all_refs, "root", py(root), {c: [py(t) for t in classes[c]] for c in names},
                      "\n  real ", r, "\n  model", mm, "counts", m["counts"])
    print(dict(stats))
if __name__ == "__main__": main()
