"""C06 on recursive classes whose self-reference carries constraints (field metadata or Annotated; object bounds on the reference, array bounds on a list
of references): the schema puts the keyword next to the `$ref`, the recursive method has to merge it onto the lazily resolved method.  Deterministic data
around every bound at depth 1 and 2; `deserialize` accepts iff jsonschema validates against the real schema."""
import collections, random
from common import build_module, case_hash

VARIANTS = [
    ("child: Optional['{n}'] = field(default=None, metadata=schema({c}))", "meta"),
    ("child: Annotated[Optional['{n}'], schema({c})] = None", "annotated"),
    ("child: Optional[Annotated['{n}', schema({c})]] = None", "annotated-inside"),
]
CONS = ["max_props=1", "min_props=2", "max_props=2", "min_props=1, max_props=1"]


def run_part(seed, budget):
    import jsonschema
    from apischema import deserialize, ValidationError
    from apischema.json_schema import deserialization_schema
    r = random.Random(seed * 53 + 3)
    failures, hist, distinct, n = [], collections.Counter(), set(), 0
    src = ["from dataclasses import dataclass, field", "from typing import *", "from apischema import schema", ""]
    fams = []
    i = 0
    for line, how in VARIANTS:
        for c in CONS:
            name = f"RC{i}"; i += 1
            with_list = r.random() < 0.5; lc = r.choice(["max_items=1", "min_items=1"])
            src += ["@dataclass", f"class {name}:", "    value: int = 0", "    " + line.format(n=name, c=c)]
            if with_list: src += [f"    kids: List['{name}'] = field(default_factory=list, metadata=schema({lc}))"]
            src += [""]
            fams.append((name, how, c, with_list, lc))
    ns = vars(build_module(src, f"reccons{seed}"))
    leaf = [{}, {"value": 1}, {"value": 1, "child": None}, {"value": 1, "child": None, "kids": []}]
    for name, how, c, with_list, lc in fams:
        tp = ns[name]
        try: sch = deserialization_schema(tp)
        except Exception as e:
            failures.append({"kind": "P", "k_ok": None, "part": "recursive-constrained", "features": ["recursive"], "py": name, "why": ["schema-generation-raises:" + type(e).__name__], "how": how, "cons": c}); continue
        v = jsonschema.Draft202012Validator(sch)
        data = []
        for a in leaf:
            data.append({"child": a}); data.append({"value": 2, "child": {"child": a}})
            if with_list: data += [{"kids": [a]}, {"kids": [a, a]}, {"child": {"kids": []}}, {"child": {"kids": [a, {"child": a}]}}]
        for d in data:
            n += 1; distinct.add(case_hash("reccons", how, c, with_list, lc, repr(d))); hist["recursive-constrained:" + how] += 1
            try: deserialize(tp, d); acc = True
            except ValidationError: acc = False
            except Exception as e:
                failures.append({"kind": "P", "k_ok": None, "part": "recursive-constrained", "features": ["recursive"], "py": name, "datum": d, "why": ["crash:" + type(e).__name__], "how": how, "cons": c}); continue
            ok = v.is_valid(d); hist["recursive-constrained-accepted:" + str(acc)] += 1
            if acc != ok:
                failures.append({"kind": "P", "k_ok": None, "part": "recursive-constrained", "features": ["recursive"], "py": name, "how": how, "cons": c, "list_cons": lc if with_list else None,
                                 "datum": d, "deserialize_accepts": acc, "schema_validates": ok, "real": sch, "why": ["deserialize-and-schema-disagree"]})
    return failures, n, distinct, hist
