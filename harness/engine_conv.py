"""conversions engine (C12) on the real code: commuting squares for registered and dynamic deserializers / serializers,
several deserializers in registration order, reach through containers and unions but not into fields of nested objects,
`ValueError` of a catching converter as `ValidationError`, `identity` bypassing a registered conversion, subclasses
inheriting a serializer, and both JSON schemas of a converted class equal to those of its source / target.
The specification is the Lean `Conv` model (resolution order and locality), whose theorems state the squares."""
import sys, os, json, random, collections
from dataclasses import dataclass, field
from typing import List, Optional, Dict, Tuple, Union
HERE = os.path.dirname(os.path.abspath(__file__)); sys.path.insert(0, HERE)
from common import case_hash

SOURCES = [("int", int, [1, -2, "x", None, 1.5]), ("str", str, ["a", "", 3]), ("List[int]", List[int], [[1, 2], [], ["x"], 3]),
           ("Optional[int]", Optional[int], [None, 4, "y"]), ("Dict[str,int]", Dict[str, int], [{"a": 1}, {"a": "b"}, []]),
           ("Tuple[int,str]", Tuple[int, str], [[1, "a"], [1], ["a", 1]])]
BAD = (1, "a", None)


def outcome(fn):
    from apischema import ValidationError
    try: return ("ok", fn())
    except ValidationError as e: return ("invalid", e.errors)
    except Exception as e: return ("crash", type(e).__name__ + ":" + str(e)[:60])


def show(o):
    return [o[0], repr(o[1])[:200]]


def run(prop, seed, budget, ctx):
    from apischema import deserialize, serialize, deserializer, serializer, ValidationError, identity
    from apischema.conversions import Conversion, catch_value_error
    from apischema.json_schema import deserialization_schema, serialization_schema
    rnd = random.Random(seed); n = 300 * budget
    failures, hist, distinct, samples, evaluations = [], collections.Counter(), set(), [], 0

    def fail(kind, **kw):
        failures.append(dict({"kind": "P", "k_ok": True, "why": [kind]}, **kw)); hist["P:" + kind] += 1

    for i in range(n):
        sname, src, data = rnd.choice(SOURCES)
        W = dataclass(type(f"W{i}", (), {"__annotations__": {"v": src}}))
        raising = rnd.random() < 0.4
        mode = rnd.choice(["registered", "dynamic"])
        two = mode == "registered" and rnd.random() < 0.3            # a second deserializer from `bytes`-like source: bool
        def f(x, W=W, raising=raising):
            if raising and (x in BAD and type(x) in (int, str, type(None))): raise ValueError("bad value")
            return W(x)
        def g(w): return w.v
        conv = Conversion(catch_value_error(f) if raising else f, source=src, target=W)
        sconv = Conversion(g, source=W, target=src)
        if mode == "registered":
            deserializer(conv); serializer(sconv)
            if two:
                def f2(b, W=W): return W(("from-bool", b))
                deserializer(Conversion(f2, source=bool, target=W))
        kw_d = {} if mode == "registered" else {"conversion": conv}
        kw_s = {} if mode == "registered" else {"conversion": sconv}
        desc = {"source": sname, "mode": mode, "raising": raising, "two_deserializers": two}
        hist["mode:" + mode] += 1
        # schemas: those of the source / target
        evaluations += 1
        for view, fn, kw in (("deserialization_schema", deserialization_schema, kw_d), ("serialization_schema", serialization_schema, kw_s)):
            a = outcome(lambda: fn(W, with_schema=False, **kw))
            b = outcome(lambda: fn(src if not (two and view == "deserialization_schema") else Union[src, bool], with_schema=False))
            if a[0] == "ok" and b[0] == "ok":
                if dict(a[1]) != dict(b[1]) and not (two and view == "deserialization_schema" and equivalent_anyof(a[1], b[1])):
                    fail("schema-of-the-converted-class-differs-from-its-source/target", desc=desc, view=view, got=a[1], expected=b[1])
        for d in data + ([True] if two else []):
            evaluations += 1; distinct.add(case_hash(sname, mode, raising, two, repr(d)))
            want = outcome(lambda: deserialize(src, d))
            if want[0] == "ok":
                if raising and want[1] in BAD and type(want[1]) in (int, str, type(None)): want = ("invalid", [{"loc": [], "err": "bad value"}])
                else: want = ("ok", W(want[1]))
            if two and want[0] == "invalid":
                # the second deserializer is tried; errors of both alternatives are merged
                second = outcome(lambda: deserialize(bool, d))
                if second[0] == "ok": want = ("ok", W(("from-bool", second[1])))
                elif second[0] == "invalid": want = ("invalid", sorted(want[1] + second[1], key=json.dumps))
            got = outcome(lambda: deserialize(W, d, **kw_d))
            if two and got[0] == "invalid": got = ("invalid", sorted(got[1], key=json.dumps))
            if got != want: fail("deserialization-square", desc=desc, datum=repr(d), got=show(got), want=show(want))
            if len(samples) < 4: samples.append({"conversion": desc, "datum": repr(d), "deserialize(W, d)": show(got)})
            if two: continue
            # through a container and through a union, with the index prepended to every loc
            gotl = outcome(lambda: deserialize(List[W], [d], **kw_d))
            wantl = ("ok", [want[1]]) if want[0] == "ok" else (want[0], [dict(e, loc=[0] + e["loc"]) for e in want[1]] if want[0] == "invalid" else want[1])
            if gotl != wantl: fail("conversion-through-a-container", desc=desc, datum=repr(d), got=show(gotl), want=show(wantl))
            gotu = outcome(lambda: deserialize(Optional[W], d, **kw_d))
            if d is not None and want[0] == "ok" and gotu != want: fail("conversion-through-a-union", desc=desc, datum=repr(d), got=show(gotu), want=show(want))
            if want[0] == "ok":
                w = want[1]
                s1 = outcome(lambda: serialize(W, w, **kw_s)); s2 = outcome(lambda: serialize(src, g(w)))
                if s1 != s2: fail("serialization-square", desc=desc, value=repr(w), got=show(s1), want=show(s2))
                sl = outcome(lambda: serialize(List[W], [w], **kw_s))
                if s2[0] == "ok" and sl != ("ok", [s2[1]]): fail("serializer-through-a-container", desc=desc, value=repr(w), got=show(sl))
                if mode == "dynamic":
                    @dataclass
                    class Holder:
                        w: W
                    h = outcome(lambda: serialize(Holder, Holder(w), conversion=sconv)); h0 = outcome(lambda: serialize(Holder, Holder(w)))
                    if h != h0: fail("dynamic-conversion-reaches-into-a-field", desc=desc, value=repr(w), got=show(h), want=show(h0))
                    hd = outcome(lambda: deserialize(Holder, {"w": d}, conversion=conv)); hd0 = outcome(lambda: deserialize(Holder, {"w": d}))
                    if hd != hd0: fail("dynamic-conversion-reaches-into-a-field", desc=desc, datum=repr(d), got=show(hd), want=show(hd0))
                else:
                    b = outcome(lambda: serialize(W, w, conversion=identity))
                    if b != ("ok", {"v": serialize(src, w.v)}): fail("identity-does-not-bypass-the-registered-conversion", desc=desc, value=repr(w), got=show(b))
                    # a subclass inherits the serializer
                    Sub = type(f"Sub{i}", (W,), {})
                    sb = outcome(lambda: serialize(Sub, Sub(w.v)))
                    if sb != s2: fail("subclass-does-not-inherit-the-serializer", desc=desc, value=repr(w), got=show(sb), want=show(s2))
    # three-level hierarchies: a serializer registered with inherited=False in the middle does not stop the inheritance from above
    for i in range(40 * budget):
        A = type(f"HA{i}", (), {"__init__": lambda self, v=1: setattr(self, "v", v)})
        B = type(f"HB{i}", (A,), {}); C = type(f"HC{i}", (B,), {}); D = type(f"HD{i}", (C,), {})
        serializer(Conversion(lambda a: {"a": a.v}, source=A, target=Dict[str, int]))
        mid_inherited = rnd.random() < 0.5
        serializer(Conversion(lambda b: {"b": b.v}, source=B, target=Dict[str, int], inherited=mid_inherited))
        evaluations += 1; distinct.add(("hierarchy", i))
        desc = {"hierarchy": "A <- B <- C <- D", "B_serializer_inherited": mid_inherited}
        want_c = {"b": 7} if mid_inherited else {"a": 7}
        for cls in (C, D):
            got = outcome(lambda: serialize(cls, cls(7)))
            if got != ("ok", want_c): fail("subclass-does-not-inherit-the-serializer", desc=desc, cls=cls.__name__, got=show(got), want=want_c)
            got = outcome(lambda: serialize(List[cls], [cls(7)]))
            if got != ("ok", [want_c]): fail("subclass-does-not-inherit-the-serializer", desc=desc, cls="List[" + cls.__name__ + "]", got=show(got), want=[want_c])
        if outcome(lambda: serialize(B, B(7))) != ("ok", {"b": 7}): fail("serialization-square", desc=desc, cls="B")
        if outcome(lambda: serialize(A, A(7))) != ("ok", {"a": 7}): fail("serialization-square", desc=desc, cls="A")
    # chains R -> S -> T: the outer catching converter turns only its own ValueError into a ValidationError; whatever
    # `deserialize(S, d)` raises, `deserialize(T, d)` raises too
    for i in range(40 * budget):
        S = dataclass(type(f"CS{i}", (), {"__annotations__": {"v": int}}))
        T = dataclass(type(f"CT{i}", (), {"__annotations__": {"s": S}}))
        inner_catching = rnd.random() < 0.4
        def r_to_s(x: int, S=S):
            if x < 0: raise ValueError("negative")
            return S(x)
        def s_to_t(s, T=T):
            if s.v == 13: raise ValueError("unlucky")
            return T(s)
        deserializer(Conversion(catch_value_error(r_to_s) if inner_catching else r_to_s, source=int, target=S))
        deserializer(Conversion(catch_value_error(s_to_t), source=S, target=T))
        desc = {"chain": "int -> S -> T", "inner_catching": inner_catching, "outer_catching": True}
        for d in (5, -1, 13, "x"):
            evaluations += 1; distinct.add(("chain", i, repr(d)))
            inner = outcome(lambda: deserialize(S, d))
            if inner[0] == "ok": want = ("invalid", [{"loc": [], "err": "unlucky"}]) if inner[1].v == 13 else ("ok", T(inner[1]))
            else: want = inner
            got = outcome(lambda: deserialize(T, d))
            if got != want: fail("deserialization-square", desc=desc, datum=repr(d), got=show(got), want=show(want))
    # generic conversions: a wrapper G[T] built from T itself (a bare type variable as source), from List[T], and the
    # serializer G[T] -> T; the specialised target substitutes the variable, so deserialize(G[int], d) rejects exactly what
    # deserialize(int, d) rejects and the schemas are those of the substituted source
    import typing
    from typing import TypeVar, Generic
    for i in range(30 * budget):
        T = TypeVar("T")
        import types as _types
        G = _types.new_class(f"G{i}", (Generic[T],), {}, lambda ns: ns.update({
            "__init__": lambda self, x: setattr(self, "x", x), "__eq__": lambda a, b: type(a) is type(b) and a.x == b.x,
            "__repr__": lambda self: f"G({self.x!r})", "__hash__": None}))
        shape = ["bare", "list", "optional"][i % 3]
        src_of = {"bare": lambda a: a, "list": lambda a: List[a], "optional": lambda a: Optional[a]}[shape]
        def wrap(x, G=G): return G(x)
        def unwrap(g): return g.x
        wrap.__annotations__ = {"x": src_of(T), "return": G[T]}; unwrap.__annotations__ = {"g": G[T], "return": src_of(T)}
        mode = rnd.choice(["registered", "dynamic", "field"])
        if mode == "registered": deserializer(wrap); serializer(unwrap)
        kw_d = {"conversion": wrap} if mode == "dynamic" else {}
        kw_s = {"conversion": unwrap} if mode == "dynamic" else {}
        desc = {"generic": shape, "mode": mode}
        for arg, pool in ((int, [1, "a", None, [1], [1, "b"], 1.5, True]), (str, ["s", 2, None, ["x"], [3]])):
            if mode == "field":
                from apischema.metadata import conversion as conv_md
                H = dataclass(type(f"H{i}_{arg.__name__}", (), {"__annotations__": {"g": G[arg]}, "g": field(metadata=conv_md(deserialization=wrap, serialization=unwrap))}))
                tgt, wrapd, unwrapv = H, (lambda d: {"g": d}), (lambda v: v.g.x)
            else:
                tgt, wrapd, unwrapv = G[arg], (lambda d: d), (lambda v: v.x)
            for d in pool:
                evaluations += 1; distinct.add(("generic", shape, mode, arg.__name__, repr(d)))
                want = outcome(lambda: deserialize(src_of(arg), d))
                got = outcome(lambda: deserialize(tgt, wrapd(d), **kw_d))
                if want[0] != got[0] or (want[0] == "ok" and unwrapv(got[1]) != want[1]):
                    fail("deserialization-square", desc=desc, target=f"G[{arg.__name__}]", datum=repr(d), got=show(got), want=show(want))
                if want[0] == "ok":
                    back = outcome(lambda: serialize(tgt, got[1], **kw_s)) if got[0] == "ok" else None
                    exp = outcome(lambda: serialize(src_of(arg), want[1]))
                    if back is not None and exp[0] == "ok" and back != ("ok", wrapd(exp[1])): fail("serialization-square", desc=desc, target=f"G[{arg.__name__}]", got=show(back), want=show(exp))
            if mode != "field":
                ds = outcome(lambda: deserialization_schema(G[arg], with_schema=False, **kw_d)); ws = outcome(lambda: deserialization_schema(src_of(arg), with_schema=False))
                if ds != ws: fail("schema-of-the-target-differs-from-the-schema-of-the-source", desc=desc, target=f"G[{arg.__name__}]", got=show(ds), want=show(ws))
    # method / property serializers: the converter is "call the method / read the property on the value" - a subclass overriding it
    # is converted through its override (serialize(T, v) == serialize(U, g(v)) with g dispatched on v)
    from apischema.json_schema import serialization_schema as _ss
    for i in range(30 * budget):
        kind = rnd.choice(["method", "property"]); how = rnd.choice(["registered", "dynamic"])
        deco = "    @serializer\n" if how == "registered" else ""
        prop = "    @property\n" if kind == "property" else ""
        text = ("from apischema import serializer\n"
                f"class PB{i}:\n    def __init__(self, v=1): self.v = v\n{deco}{prop}    def as_int(self) -> int:\n        return self.v\n"
                f"class PS{i}(PB{i}):\n{prop}    def as_int(self) -> int:\n        return self.v * 100\n"
                f"class PP{i}(PB{i}):\n    pass\n")
        from common import build_module as _bm
        pm = _bm(text, f"propser{seed}_{i}"); Base, Sub, Plain = getattr(pm, f"PB{i}"), getattr(pm, f"PS{i}"), getattr(pm, f"PP{i}")
        kw = {"conversion": Base.as_int} if how == "dynamic" else {}
        desc = {"serializer": kind, "mode": how}
        for cls, v, want in ((Base, Base(3), 3), (Plain, Plain(4), 4), (Sub, Sub(5), 500)):
            for tp, val, exp in ((cls, v, want), (Base, v, want), (List[Base], [v], [want]), (Optional[Base], v, want)):
                evaluations += 1; distinct.add(("propser", kind, how, cls.__name__[:2], str(tp)[:12]))
                got = outcome(lambda: serialize(tp, val, **kw))
                if got != ("ok", exp): fail("serialization-square", desc=desc, cls=cls.__name__, through=str(tp), got=show(got), want=exp)
        hist["method/property-serializers"] += 1
    # a dynamic conversion next to alternatives of a union that are not supported (hence dropped) - before or after the converted
    # class, under Optional and containers: operations and schemas are those of the source / target
    class Opaque: pass
    for i in range(30 * budget):
        Foo = dataclass(type(f"UF{i}", (), {"__annotations__": {"bar": int}}))
        def foo_to_int(foo): return foo.bar
        def foo_from_int(x): return Foo(x)
        foo_to_int.__annotations__ = {"foo": Foo, "return": int}; foo_from_int.__annotations__ = {"x": int, "return": Foo}
        order = rnd.choice(["unsupported-first", "unsupported-last", "unsupported-between"])
        alts = {"unsupported-first": (Opaque, Foo), "unsupported-last": (Foo, Opaque), "unsupported-between": (Foo, Opaque, str)}[order]
        U = Union[alts]
        shapes = {"U": (U, lambda x: x, lambda sch: sch), "List[U]": (List[U], lambda x: [x], lambda sch: {"type": "array", "items": sch}),
                  "Optional[U]": (Optional[U], lambda x: x, None), "Dict[str, U]": (Dict[str, U], lambda x: {"k": x}, lambda sch: {"type": "object", "additionalProperties": sch})}
        sname = rnd.choice(sorted(shapes)); tp, wrapv, wraps = shapes[sname]
        mode = rnd.choice(["dynamic", "field"])
        desc = {"union": order, "shape": sname, "mode": mode}
        evaluations += 1; distinct.add(("union-unsupported", order, sname, mode))
        base_alts = [int] + ([str] if str in alts else [])
        if mode == "field":
            from apischema.metadata import conversion as conv_md
            H = dataclass(type(f"UH{i}", (), {"__annotations__": {"x": tp}, "x": field(metadata=conv_md(deserialization=foo_from_int, serialization=foo_to_int))}))
            Href = dataclass(type(f"UH{i}", (), {"__annotations__": {"x": eval(sname.replace("U", "B"), {"B": Union[tuple(base_alts)], "List": List, "Optional": Optional, "Dict": Dict, "str": str})}}))
            a = outcome(lambda: serialize(H, H(wrapv(Foo(7))))); 
            if a != ("ok", {"x": wrapv(7)}): fail("serialization-square", desc=desc, got=show(a), want={"x": wrapv(7)})
            b = outcome(lambda: deserialize(H, {"x": wrapv(7)}))
            if b != ("ok", H(wrapv(Foo(7)))): fail("deserialization-square", desc=desc, got=show(b))
            for view, fn in (("serialization_schema", _ss), ("deserialization_schema", deserialization_schema)):
                got = outcome(lambda: fn(H, with_schema=False)); want = outcome(lambda: fn(Href, with_schema=False))
                if got != want: fail("schema-of-the-converted-class-differs-from-its-source/target", desc=desc, view=view, got=show(got), expected=show(want))
        else:
            a = outcome(lambda: serialize(tp, wrapv(Foo(7)), conversion=foo_to_int))
            if a != ("ok", wrapv(7)): fail("serialization-square", desc=desc, got=show(a), want=wrapv(7))
            b = outcome(lambda: deserialize(tp, wrapv(7), conversion=foo_from_int))
            if b != ("ok", wrapv(Foo(7))): fail("deserialization-square", desc=desc, got=show(b))
            ref = eval(sname.replace("U", "B"), {"B": Union[tuple(base_alts)], "List": List, "Optional": Optional, "Dict": Dict, "str": str})
            for view, fn, c in (("serialization_schema", _ss, foo_to_int), ("deserialization_schema", deserialization_schema, foo_from_int)):
                got = outcome(lambda: fn(tp, with_schema=False, conversion=c)); want = outcome(lambda: fn(ref, with_schema=False))
                if got != want: fail("schema-of-the-converted-class-differs-from-its-source/target", desc=desc, view=view, got=show(got), expected=show(want))
    # field-level conversions whose source / target contains named types (used twice, or recursive): the schema of the holder is the schema of the same
    # holder declared with the source types - references and definitions included
    from common import build_module as _bm2
    fc_src = ["from dataclasses import dataclass, field", "from typing import *", "from apischema.metadata import conversion", ""]
    nfc = 6 * budget
    for i in range(nfc):
        fc_src += ["@dataclass", f"class FPoint{i}:", "    x: int = 0", "    y: int = 0", "",
                   f"class FPixel{i}:", "    def __init__(self, x, y): self.x, self.y = x, y", "",
                   f"def fpx_from{i}(p: FPoint{i}) -> FPixel{i}:", f"    return FPixel{i}(p.x, p.y)", f"def fpx_to{i}(px: FPixel{i}) -> FPoint{i}:", f"    return FPoint{i}(px.x, px.y)", "",
                   "@dataclass", f"class FSeg{i}:", f"    a: FPixel{i} = field(metadata=conversion(fpx_from{i}, fpx_to{i}))", f"    b: FPixel{i} = field(metadata=conversion(fpx_from{i}, fpx_to{i}))", "",
                   "@dataclass", f"class FSegSrc{i}:", f"    a: FPoint{i}", f"    b: FPoint{i}", "",
                   "@dataclass", f"class FRNode{i}:", "    v: int = 0", f"    kids: List['FRNode{i}'] = field(default_factory=list)", "",
                   f"class FTree{i}:", "    def __init__(self, n): self.n = n", "",
                   f"def ftree_from{i}(n: FRNode{i}) -> FTree{i}:", f"    return FTree{i}(n)", f"def ftree_to{i}(t: FTree{i}) -> FRNode{i}:", "    return t.n", "",
                   "@dataclass", f"class FGarden{i}:", f"    tree: FTree{i} = field(metadata=conversion(ftree_from{i}, ftree_to{i}))", "",
                   "@dataclass", f"class FGardenSrc{i}:", f"    tree: FRNode{i}", ""]
    fcm = dict(vars(_bm2(fc_src, f"c12fieldconv{seed}")))
    import sys as _sys
    for i in range(nfc):
        for holder, ref in ((f"FSeg{i}", f"FSegSrc{i}"), (f"FGarden{i}", f"FGardenSrc{i}")):
            for all_refs in (False, True):
                for view, fn in (("deserialization_schema", deserialization_schema), ("serialization_schema", _ss)):
                    evaluations += 1; distinct.add(("field-conversion-named", holder[:5], all_refs, view))
                    lim = _sys.getrecursionlimit(); _sys.setrecursionlimit(1200)
                    try:
                        got = outcome(lambda: json.loads(json.dumps(fn(fcm[holder], all_refs=all_refs, with_schema=False)).replace(holder, "H")))
                        want = outcome(lambda: json.loads(json.dumps(fn(fcm[ref], all_refs=all_refs, with_schema=False)).replace(ref, "H")))
                    finally: _sys.setrecursionlimit(lim)
                    if got != want: fail("schema-of-the-converted-class-differs-from-its-source/target", desc={"field_conversion_to": holder, "all_refs": all_refs}, view=view, got=show(got), expected=show(want))
    import corners8
    c8f_, c8n_, c8d_, c8h_ = corners8.run_part("C12", seed, budget)
    failures += c8f_; distinct |= c8d_; evaluations += c8n_
    for k_, v_ in c8h_.items(): hist[k_] += v_
    for f in c8f_: hist["P:" + f["why"][0].split(":")[0]] += 1
    import corners7
    cf_, cn_, cd_, ch_ = corners7.run_part("C12", seed, budget)
    failures += cf_; distinct |= cd_; evaluations += cn_
    for k_, v_ in ch_.items(): hist[k_] += v_
    return {"evaluations": evaluations, "distinct_nontrivial": len(distinct),
            "rule": "field conversions to sources with named / recursive types (schemas with references); method / property serializers (registered or dynamic) with overriding subclasses; dynamic / field conversions next to unsupported union alternatives (operations and schemas); "
                    "fresh wrapper classes with a deserializer S -> W and a serializer W -> S over six source types, registered or dynamic, 40% of the "
                    "converters raising ValueError under catch_value_error, 30% of the registered ones with a second deserializer; every datum of a "
                    "per-source pool (valid and invalid); four-level class hierarchies with a serializer at the root and one (inherited or not) below it; "
                    "chains int -> S -> T with a catching outer converter and a catching or non-catching inner one; generic wrappers G[T] converted from T / List[T] / Optional[T] "
                    "(registered, dynamic, field-level) specialised at int and str; non-trivial = every case (a conversion is always in effect); distinct by (source, mode, datum)",
            "samples": samples, "histograms": dict(hist), "failures": failures}


def equivalent_anyof(a, b):
    """{'anyOf': [S1, S2]} on both sides up to the order of equal members, or a merged `type` list"""
    ja, jb = json.dumps(a, sort_keys=True), json.dumps(b, sort_keys=True)
    if ja == jb: return True
    def alts(s): return sorted(json.dumps(x, sort_keys=True) for x in s.get("anyOf", [s]))
    return alts(a) == alts(b)


def is_known(kid, case): return False


def replay(prop, case, ctx):
    return {"fails": True, "note": "conversion cases register converters on fresh classes: replay by re-running the check with the same VERIF_SEED", "case": case}
