"""cache engine (C09) on the real code.
Histories of configuration operations and observations; after every observation the same observation is recomputed
from a cold start (a forked child that calls `apischema.cache.reset()` first, so the parent's caches stay warm); a
difference is a stale cache.  Two modes: the *targeted* enumeration of every (mutation, value, observation) triple and
random histories.  Every mutation is tagged with the wiring point it goes through (CacheAwareDict mutator, settings
class, unwrapped registry, nested mutation), the same names the translator writes into Generated/Wiring.lean: staleness
is tolerated only at a point the generated table marks as not resetting *and* a listed known finding names."""
import sys, os, json, random, collections
from dataclasses import dataclass, field
from typing import Optional, List, Union


def outcome(fn):
    from apischema import ValidationError
    try: return ("ok", repr(fn()))
    except ValidationError as e: return ("invalid", json.dumps(e.errors, sort_keys=True, default=repr))
    except Exception as e: return ("crash", type(e).__name__ + ":" + str(e)[:60])


def fresh(fn):
    """the same observation from a cold start, computed in a forked child so that the parent's caches stay as they are"""
    from apischema.cache import reset
    r, w = os.pipe()
    pid = os.fork()
    if pid == 0:
        try:
            # cold start: every lru_cache of the process is emptied, not only the ones `reset()` knows about
            import gc, functools
            os.close(r); reset()
            for o in gc.get_objects():
                if isinstance(o, functools._lru_cache_wrapper): o.cache_clear()
            os.write(w, json.dumps(outcome(fn)).encode())
        finally:
            os._exit(0)
    os.close(w); data = b""
    while True:
        chunk = os.read(r, 65536)
        if not chunk: break
        data += chunk
    os.close(r); os.waitpid(pid, 0)
    return tuple(json.loads(data))


def world():
    """fresh classes, observations and operations (built once per engine run)"""
    from apischema import (deserialize, serialize, settings, ValidationError, alias, order, schema, type_name, validator,
                           deserializer, serializer, serialized, dependent_required, discriminator)
    from apischema.conversions import Conversion, reset_deserializers, reset_serializer
    from apischema.json_schema import deserialization_schema, serialization_schema
    from apischema.objects import set_object_fields, ObjectField
    from apischema import cache as cache_mod

    @dataclass
    class A:
        some_field: int = 0
        other: Optional[str] = None

    @dataclass
    class B:
        x: int = 0

    @dataclass
    class B1:
        pass

    @dataclass
    class B2:
        pass

    # a type cycle RN -> RL -> RN that a converter registered for RL hides: whether RN is recursive depends on the registry
    @dataclass
    class RL:
        node: Optional["RN"] = None

    @dataclass
    class RN:
        links: List[RL] = field(default_factory=list)
    import typing as _t
    RL.__annotations__["node"] = Optional[RN]
    try: RL.__dataclass_fields__["node"].type = Optional[RN]
    except Exception: pass

    class W:
        def __init__(self, v): self.v = v
        def __eq__(self, o): return isinstance(o, W) and o.v == self.v
        def __repr__(self): return f"W({self.v!r})"

    @dataclass
    class HAny:
        x: _t.Any

    # an aggregate field whose pattern is *inferred* from the schema registered for the key type, and an `object_serialization` view whose output
    # fields are derived from the fields of A (class aliaser, set_object_fields): both read registries through helpers of their own
    from apischema.metadata import properties as _properties
    from apischema.objects import object_serialization as _object_serialization
    KeyT = _t.NewType("KeyT", str)
    schema(pattern="^k_")(KeyT)

    @dataclass
    class PF:
        known: int = 0
        extra: _t.Mapping[KeyT, int] = field(default_factory=dict, metadata=_properties(...))
    view_A = _object_serialization(A, [...])

    OBS = {
        "deser_PF_k": lambda: deserialize(PF, {"k_x": 1}),
        "deser_PF_z": lambda: deserialize(PF, {"z_x": 1}),
        "dschema_PF": lambda: deserialization_schema(PF),
        "ser_A_view": lambda: serialize(A, A(3, None), conversion=view_A),
        "sschema_A_view": lambda: serialization_schema(A, conversion=view_A),
        "deser_A": lambda: deserialize(A, {"some_field": 1, "x": 2}),
        "deser_A_bad": lambda: deserialize(A, {"some_field": -5, "someField": "q"}),
        "deser_A_str": lambda: deserialize(A, {"some_field": "s"}),
        "deser_A_other": lambda: deserialize(A, {"other": "zz"}),
        "ser_A": lambda: serialize(A, A(3, None)),
        "dschema_A": lambda: deserialization_schema(A),
        "sschema_A": lambda: serialization_schema(A),
        # the same values through the untyped / Any path (the method is chosen by the runtime class of the value)
        "ser_untyped_A": lambda: serialize(A(3, None)),
        "ser_untyped_W": lambda: serialize(W(5)),
        "ser_anyfield_A": lambda: serialize(HAny(A(3, None))),
        "ser_anylist_W": lambda: serialize(List[_t.Any], [W(5), A(1, "s")]),
        "deser_W": lambda: deserialize(W, 5),
        "ser_W": lambda: serialize(W, W(5)),
        "deser_cint": lambda: deserialize(int, 0, schema=schema(min=1)),
        "deser_B": lambda: deserialize(B, {"x": -3}),
        "ser_B": lambda: serialize(B, B(4)),
        "sschema_B": lambda: serialization_schema(B),
        "deser_RN": lambda: deserialize(RN, {"links": [{"node": {"links": []}}]}),
        "ser_RN": lambda: serialize(RN, RN([RL(RN([]))])),
        "dschema_RN": lambda: deserialization_schema(RN),
        # two types that `typing` considers equal (one lru_cache key) with different first alternatives
        "deser_Union[B1,B2]": lambda: deserialize(Union[B1, B2], {}),
        "deser_Union[B2,B1]": lambda: deserialize(Union[B2, B1], {}),
    }

    def neg_validator(self):
        if self.x < 0: raise ValidationError(["negative"])

    def ops(b):
        """(name, wiring point, thunk) for the boolean value `b` of each two-valued mutation"""
        S, D, SER = settings, settings.deserialization, settings.serialization
        return [
            ("settings.additional_properties", ("settings", "settings"), lambda: setattr(S, "additional_properties", b)),
            ("settings.camel_case", ("settings", "settings"), lambda: setattr(S, "camel_case", b)),
            ("settings.deserialization.coerce", ("settings", "settings.deserialization"), lambda: setattr(D, "coerce", b)),
            ("settings.deserialization.fall_back_on_default", ("settings", "settings.deserialization"), lambda: setattr(D, "fall_back_on_default", b)),
            ("settings.serialization.exclude_none", ("settings", "settings.serialization"), lambda: setattr(SER, "exclude_none", b)),
            ("settings.serialization.exclude_defaults", ("settings", "settings.serialization"), lambda: setattr(SER, "exclude_defaults", b)),
            ("settings.errors.minimum", ("settings", "settings.errors"),
             lambda: setattr(S.errors, "minimum", "too small {}" if b else "less than {} (minimum)")),
            ("settings.base_schema.type", ("settings", "settings.base_schema"),
             lambda: setattr(S.base_schema, "type", (lambda tp: schema(description="d") if tp is A else None) if b else (lambda *_: None))),
            ("deserializer(W)/reset_deserializers(W)", ("CacheAwareDict", "__setitem__" if b else "__delitem__"),
             lambda: deserializer(Conversion(W, source=int, target=W)) if b else reset_deserializers(W)),
            ("serializer(W)/reset_serializer(W)", ("CacheAwareDict", "__setitem__" if b else "__delitem__"),
             lambda: serializer(Conversion(lambda w: w.v, source=W, target=int)) if b else reset_serializer(W)),
            ("deserializer(RL)/reset_deserializers(RL): hides / shows the cycle RN -> RL -> RN", ("CacheAwareDict", "__setitem__" if b else "__delitem__"),
             lambda: deserializer(Conversion(lambda i: RL(None), source=int, target=RL)) if b else reset_deserializers(RL)),
            ("serializer(RL)/reset_serializer(RL): hides / shows the cycle", ("CacheAwareDict", "__setitem__" if b else "__delitem__"),
             lambda: serializer(Conversion(lambda l: 0, source=RL, target=int)) if b else reset_serializer(RL)),
            ("alias(A)", ("CacheAwareDict", "__setitem__"), lambda: alias((lambda s: s.upper()) if b else (lambda s: s))(A)),
            ("order(A)", ("CacheAwareDict", "__setitem__"), lambda: order({"other": order(-1 if b else 1)})(A)),
            ("schema(A)", ("registry", "apischema.schemas._schemas"), lambda: schema(max_props=1 if b else 5)(A)),
            ("type_name(A)", ("CacheAwareDict", "__setitem__"), lambda: type_name("AA" if b else "A")(A)),
            ("schema(KeyT): the pattern an aggregate field infers", ("registry", "apischema.schemas._schemas"), lambda: schema(pattern="^z_" if b else "^k_")(KeyT)),
            ("set_object_fields(A)", ("CacheAwareDict", "__setitem__" if b else "__delitem__"),
             lambda: set_object_fields(A, [ObjectField("some_field", int, required=True)] if b else None)),
            ("validator(owner=B)", ("nested", "apischema.validation.validators._validators"),
             lambda: validator(neg_validator, owner=B) if b else None),
            ("serialized(owner=B)", ("nested", "apischema.serialization.serialized_methods._serialized_methods"),
             lambda: serialized("twice", owner=B)(lambda self: self.x * 2) if b else None),
            ("cache.set_size", ("cache", "set_size"), lambda: cache_mod.set_size(64 if b else 128)),
        ]
    return OBS, ops


TYPED_TWIN = {"ser_untyped_A": "ser_A", "ser_untyped_W": "ser_W"}


def baseline(ops_fn, i):
    """bring the two-valued mutation `i` to its False value (registrations cannot always be undone: best effort)"""
    try: ops_fn(False)[i][2]()
    except Exception: pass


def run(prop, seed, budget, ctx):
    import apischema
    from apischema.cache import reset
    sys.path.insert(0, os.path.join(ctx["root"], "lean"))
    rnd = random.Random(seed)
    OBS, ops_fn = world()
    n_ops = len(ops_fn(True))
    failures, hist, samples, distinct = [], collections.Counter(), [], set()
    evaluations = 0
    # mode 0: dynamic reading of the wiring, to be compared with the table the translator generated from the source:
    # every attribute of every settings class and every mutator of every wrapped registry must empty every registered cache
    import apischema.cache as cmod
    from apischema.cache import CacheAwareDict
    import importlib, pkgutil
    def warmed():
        for ofn in list(OBS.values())[:6]: outcome(ofn)
        return [c.cache_info().currsize for c in cmod._cached]
    def all_empty(): return all(c.cache_info().currsize == 0 for c in cmod._cached)
    def settings_classes(cls, path):
        yield path, cls
        for k, v in vars(cls).items():
            if isinstance(v, type) and not k.startswith("__"): yield from settings_classes(v, path + "." + k)
    from apischema import settings as S
    for path, cls in settings_classes(S, "settings"):
        for name, val in list(vars(cls).items()):
            if name.startswith("__") or isinstance(val, type) or isinstance(val, property): continue
            if sum(warmed()) == 0: continue
            evaluations += 1; hist["wiring:settings-attribute"] += 1
            try: setattr(cls, name, val)                     # same value: configuration unchanged, the path is what is tested
            except Exception: continue
            if not all_empty():
                failures.append({"kind": "P", "mode": "wiring", "point": ["settings", path], "op": f"{path}.{name} = <same value>", "k_ok": True,
                                 "why": ["assignment-does-not-reset-the-caches:" + path + "." + name]})
            distinct.add(("wiring", path, name))
    for m in pkgutil.walk_packages(apischema.__path__, "apischema."):
        try: mod_ = importlib.import_module(m.name)
        except Exception: continue
        for rname, reg in list(vars(mod_).items()):
            if isinstance(reg, CacheAwareDict) and getattr(reg, "__module__", None) is None or isinstance(reg, CacheAwareDict):
                class _K: pass
                for mut, do in (("__setitem__", lambda: reg.__setitem__(_K, reg.wrapped.get(_K) if hasattr(reg.wrapped, "get") else None)),
                                ("__delitem__", lambda: reg.__delitem__(_K))):
                    if sum(warmed()) == 0: continue
                    evaluations += 1; hist["wiring:registry-mutator"] += 1
                    try: do()
                    except Exception: continue
                    if not all_empty():
                        failures.append({"kind": "P", "mode": "wiring", "point": ["CacheAwareDict", mut], "op": f"{m.name}.{rname}.{mut}", "k_ok": True,
                                         "why": [f"registry-mutation-does-not-reset-the-caches:{m.name}.{rname}.{mut}"]})
                    distinct.add(("wiring", m.name, rname, mut))
    # mode 0b: whether a type is recursive depends on the registry (a converter hides a cycle): fresh classes whose *first* use
    # happens while the cycle is hidden, then the converter is removed (and the other way round)
    from apischema import deserialize as _des, serialize as _ser, deserializer as _dz, serializer as _sz
    from apischema.conversions import Conversion as _Conv, reset_deserializers as _rd, reset_serializer as _rs
    for k in range(4 * budget):
        ns = {}
        exec("from dataclasses import dataclass, field\nfrom typing import *\n"
             f"@dataclass\nclass RL{k}:\n    node: Optional['RN{k}'] = None\n\n@dataclass\nclass RN{k}:\n    links: List[RL{k}] = field(default_factory=list)\n", ns)
        RLk, RNk = ns[f"RL{k}"], ns[f"RN{k}"]
        RLk.__annotations__["node"] = Optional[RNk]; RLk.__dataclass_fields__["node"].type = Optional[RNk]
        hidden_first = k % 2 == 0
        obs = {"deser": lambda: _des(RNk, {"links": [{"node": {"links": []}}]}), "ser": lambda: _ser(RNk, RNk([RLk(RNk([]))]))}
        hide = lambda: (_dz(_Conv(lambda i: RLk(None), source=int, target=RLk)), _sz(_Conv(lambda l: 0, source=RLk, target=int)))
        show = lambda: (_rd(RLk), _rs(RLk))
        steps = [hide, show] if hidden_first else [show, hide, show]
        def twin(tag, hidden):
            # brand-new classes of the same shape, brought directly to the current configuration: what a process that never
            # saw the earlier configuration computes (a memo kept outside the lru caches survives the forked cold start)
            ns2 = {}
            exec("from dataclasses import dataclass, field\nfrom typing import *\n"
                 f"@dataclass\nclass RL{tag}:\n    node: Optional['RN{tag}'] = None\n\n@dataclass\nclass RN{tag}:\n    links: List[RL{tag}] = field(default_factory=list)\n", ns2)
            RL2, RN2 = ns2[f"RL{tag}"], ns2[f"RN{tag}"]
            RL2.__annotations__["node"] = Optional[RN2]; RL2.__dataclass_fields__["node"].type = Optional[RN2]
            if hidden: _dz(_Conv(lambda i: RL2(None), source=int, target=RL2)); _sz(_Conv(lambda l: 0, source=RL2, target=int))
            return {"deser": lambda: _des(RN2, {"links": [{"node": {"links": []}}]}), "ser": lambda: _ser(RN2, RN2([RL2(RN2([]))]))}
        import re as _re
        norm = lambda o: (o[0], _re.sub(r"R([NL])\w+?\(", r"R\1(", o[1]))
        for si, st in enumerate(steps):
            st()
            tw = twin(f"{k}t{si}", st is hide)
            for oname, ofn in obs.items():
                evaluations += 1; hist["recursion-status-history"] += 1
                a = outcome(ofn); f = fresh(ofn)
                t2 = outcome(tw[oname])
                if a == f and norm(a) != norm(t2): f = t2        # the forked child inherited a stale memo: the twin is the reference
                if norm(a) != norm(f):
                    failures.append({"kind": "P", "mode": "recursion-status", "point": ["CacheAwareDict", "__delitem__"], "observation": oname + " of a class recursive through a convertible class",
                                     "history": ["converter registered (cycle hidden)", "first use", "converter removed", "use"] if hidden_first else ["use", "converter registered", "use", "converter removed", "use"],
                                     "cached": list(a), "cold_start": list(f), "k_ok": True, "why": ["stale-recursion-analysis-after-a-registry-change"]})
        distinct.add(("recursion-status", k))
    # mode 1: targeted (mutation, value, observation) triples
    for i in range(n_ops):
        for b in (True, False):
            for oname, ofn in OBS.items():
                reset()
                name, point, _ = ops_fn(b)[i]
                try: ops_fn(not b)[i][2]()
                except Exception: continue
                outcome(ofn)                       # warm the caches under the opposite value
                try: ops_fn(b)[i][2]()
                except Exception as e: hist["op-raises:" + name] += 1; continue
                evaluations += 1
                a = outcome(ofn); f = fresh(ofn)
                distinct.add((name, b, oname)); hist["point:" + "/".join(point)] += 1
                if a != f:
                    failures.append({"kind": "P", "mode": "targeted", "op": name, "value": b, "point": list(point), "observation": oname,
                                     "cached": list(a), "cold_start": list(f), "k_ok": True,
                                     "why": ["stale-observation-after:" + name]})
                elif len(samples) < 3 and a[0] != "crash":
                    samples.append({"history": [f"{name} := {not b}", f"observe {oname}", f"{name} := {b}", f"observe {oname}"], "cached": a[1][:80], "cold_start": f[1][:80]})
    # mode 1b: the same triples after a `cache.set_size` (the resized wrappers must still be the ones `reset()` clears)
    from apischema import cache as cache_mod
    for i in range(n_ops):
        name, point, _ = ops_fn(True)[i]
        if point[0] == "cache": continue
        for oname in list(OBS)[:6]:
            reset(); cache_mod.set_size(96)
            try: ops_fn(False)[i][2]()
            except Exception: continue
            outcome(OBS[oname])
            try: ops_fn(True)[i][2]()
            except Exception: continue
            evaluations += 1
            a = outcome(OBS[oname]); f = fresh(OBS[oname])
            distinct.add(("set_size", name, oname))
            if a != f and POINT_KF.get(tuple(point)) is None:
                failures.append({"kind": "P", "mode": "targeted-after-set_size", "op": name, "value": True, "point": ["cache", "set_size"],
                                 "observation": oname, "cached": list(a), "cold_start": list(f), "k_ok": True,
                                 "why": ["stale-observation-after:cache.set_size;" + name]})
    cache_mod.set_size(128)
    # mode 1c: observations whose cache keys are equal for `typing` (Union[A, B] == Union[B, A])
    for first, second in (("deser_Union[B1,B2]", "deser_Union[B2,B1]"), ("deser_Union[B2,B1]", "deser_Union[B1,B2]")):
        reset(); outcome(OBS[first]); evaluations += 1
        a = outcome(OBS[second]); f = fresh(OBS[second])
        if a != f:
            failures.append({"kind": "P", "mode": "key-clash", "history": [first, second], "observation": second, "point": ["key", "typing-equality"],
                             "cached": list(a), "cold_start": list(f), "k_ok": True, "why": ["stale-observation-after-an-observation-with-an-equal-key"]})
    # mode 2: random histories
    for h in range(20 * budget):
        reset(); since = []
        for step in range(40):
            if rnd.random() < 0.5:
                b = rnd.random() < 0.5; name, point, fn = rnd.choice(ops_fn(b))
                try: fn()
                except Exception: hist["op-raises:" + name] += 1
                since.append([name, b, list(point)])
            else:
                oname = rnd.choice(list(OBS)); evaluations += 1
                a = outcome(OBS[oname]); f = fresh(OBS[oname])
                if a != f:
                    failures.append({"kind": "P", "mode": "history", "history": since[-12:], "observation": oname, "cached": list(a),
                                     "cold_start": list(f), "k_ok": True, "points": sorted({"/".join(p) for _, _, p in since}),
                                     "why": ["stale-observation-in-a-random-history"]})
                # the untyped / Any path against the typed one under the configuration of the moment: a memo kept outside the registered caches is
                # inherited by the forked cold start, so the two would agree on a stale answer - the typed method, rebuilt after every reset, is the reference
                elif oname in TYPED_TWIN:
                    t = outcome(OBS[TYPED_TWIN[oname]])
                    if t[0] == "ok" and a[0] == "ok" and a != t:
                        failures.append({"kind": "P", "mode": "history", "history": since[-12:], "observation": oname, "cached": list(a), "cold_start": list(t), "k_ok": True,
                                         "point": ["CacheAwareDict", "__setitem__"], "points": sorted({"/".join(p) for _, _, p in since}), "why": ["untyped-serialization-differs-from-the-typed-one"]})
        if len(since) > 2: distinct.add(("history", h, seed))
    # histories on discriminated unions, against twin classes that only see the final configuration (a cold start in a forked child cannot
    # tell state kept inside the user's own objects - a mapping given to discriminator(...) - from configuration)
    df, dn = discr_histories(rnd, seed, budget, hist, distinct); failures += df; evaluations += dn
    # restore the defaults for whoever runs next in this process
    for i in range(n_ops): baseline(ops_fn, i)
    reset()
    # histories of calls (no configuration change at all): per-call options and types sharing classes, each call against the same call in a cold state
    import opt_hist
    of_, on_, od_, oh_ = opt_hist.run_part(seed, budget)
    failures += of_; evaluations += on_; distinct |= od_
    for k_, v_ in oh_.items(): hist[k_] += v_
    for f in failures: hist["stale:" + ("/".join(f["point"]) if "point" in f else "history")] += 1
    return {"evaluations": evaluations, "distinct_nontrivial": len(distinct),
            "rule": f"targeted: every (mutation, value, observation) triple over {n_ops} two-valued mutations (settings incl. errors / base_schema, "
                    "converter registration and reset functions, class aliaser, order, schema, type_name, set_object_fields, validator, serialized "
                    f"method, set_size) x {len(OBS)} observations, each compared with a cold start in a forked child; random histories of 40 steps; "
                    "non-trivial = the mutation was applied after the observation had been cached under the opposite value; plus histories of calls that differ by their "
                    "per-call options (aliaser, additional_properties, coercion, exclude_*, all_refs, version, ...) over types sharing classes: every call = the same call in a cold state",
            "samples": samples, "histograms": dict(hist), "correspondence": {"wiring_points_exercised": sorted({k[6:] for k in hist if k.startswith("point:")})},
            "failures": failures}


def discr_histories(rnd, seed, budget, hist, distinct):
    """observe, change what an implicit discriminator key is derived from (type_name of an alternative, the settings' default type name, the
    fields of the class), observe again: the second observation is the one twin classes give that never saw the first configuration"""
    from common import build_module
    from apischema import deserialize, serialize, type_name, settings
    from apischema.json_schema import deserialization_schema
    src = ["from dataclasses import dataclass, field", "from typing import *", "from apischema import discriminator", ""]
    n = 10 * budget; specs = []
    for i in range(n):
        mapping = rnd.choice(["{'dog': PFX_Dog}", "{'dog': PFX_Dog, 'liz': PFX_Liz}", None, "[('dog', PFX_Dog)]"])
        for pfx in (f"D{i}", f"T{i}"):
            src += ["@dataclass", f"class {pfx}_Cat:", "    a: int = 0", "", "@dataclass", f"class {pfx}_Dog:", "    b: int = 0", "", "@dataclass", f"class {pfx}_Liz:", "    c: int = 0", "",
                    f"{pfx}_U = Annotated[Union[{pfx}_Cat, {pfx}_Dog, {pfx}_Liz], discriminator('type'" + (", " + mapping.replace("PFX", pfx).replace("[(", "dict([(").replace(")]", ")])") if mapping else "") + ")]", ""]
        specs.append((i, mapping))
    mod = build_module(src, f"c09discr{seed}"); ns = dict(vars(mod))
    failures, count = [], 0
    def observe(pfx, names):
        U, Cat = ns[pfx + "_U"], ns[pfx + "_Cat"]
        out = {}
        out["schema"] = outcome(lambda: json.dumps(deserialization_schema(U), sort_keys=True))
        out["serialize"] = outcome(lambda: serialize(U, Cat(1)))
        out["deserialize(current name)"] = outcome(lambda: deserialize(U, {"type": names["Cat"], "a": 2}))
        out["deserialize(old name)"] = outcome(lambda: deserialize(U, {"type": pfx + "_Cat", "a": 2}))
        def canon(k, v):
            txt = v[1].replace(pfx + "_", "X_")
            if k == "schema" and v[0] == "ok":
                import ast as _ast
                txt = json.dumps(json.loads(_ast.literal_eval(txt)), sort_keys=True)       # (key order after the renaming)
            return (v[0], txt)
        return {k: canon(k, v) for k, v in out.items()}
    for i, mapping in specs:
        d, t = f"D{i}", f"T{i}"
        names = {"Cat": d + "_Cat"}
        first = observe(d, names)                                     # warm: the union is compiled under the first configuration
        new = rnd.choice(["Kitty", "Cat2", "cat"])
        type_name(new)(ns[d + "_Cat"]); type_name(new)(ns[t + "_Cat"])
        second = observe(d, {"Cat": new}); ref = observe(t, {"Cat": new})
        count += 1; hist["discriminated-union-histories"] += 1; distinct.add(("discr-history", i, repr(mapping), new))
        bad = {k: {"warm": second[k], "twin": ref[k]} for k in second if second[k] != ref[k]}
        if bad:
            failures.append({"kind": "P", "mode": "discriminator-history", "mapping": mapping, "history": ["observe", f"type_name({new!r})(Cat)", "observe"], "differences": bad, "k_ok": True,
                             "point": ["CacheAwareDict", "__setitem__"], "why": ["stale-observation-in-a-history-on-a-discriminated-union"]})
    return failures, count


# wiring point -> known finding
POINT_KF = {
    ("key", "typing-equality"): "KF13",
}


def is_known(kid, case):
    if case.get("kind") != "P": return False
    if case.get("mode") == "recursion-status": return False
    if case.get("mode") in ("targeted", "key-clash", "wiring"):
        return POINT_KF.get(tuple(case["point"])) == kid
    if case.get("mode") == "history" and kid == "KF13" and case.get("observation", "").startswith("deser_Union["):
        return True
    # a random history is explained by a finding only if every non-resetting point it went through is a listed one
    pts = [tuple(p.split("/", 1)) for p in case.get("points", [])]
    unreset = [p for p in pts if p in POINT_KF]
    return bool(unreset) and all(POINT_KF[p] == kid for p in unreset)


def replay(prop, case, ctx):
    from apischema.cache import reset
    OBS, ops_fn = world()
    if case.get("mode") == "targeted":
        i = next(k for k, o in enumerate(ops_fn(True)) if o[0] == case["op"])
        reset(); ops_fn(not case["value"])[i][2](); outcome(OBS[case["observation"]]); ops_fn(case["value"])[i][2]()
        a = outcome(OBS[case["observation"]]); f = fresh(OBS[case["observation"]])
        return {"cached": a, "cold_start": f, "fails": a != f}
    return {"fails": True, "note": "random histories are replayed by re-running the check with the same VERIF_SEED"}
