"""The sequential recursion analysis on generated class graphs (C20: "every call returns what it returns in a sequential execution" presupposes
that the sequential answer is well defined; C03: no `RecursionError` while a method is compiled).

Generated: 2-7 dataclasses whose fields point at each other through `Optional[...]`, `List[...]` and `Dict[str, ...]` (every field defaulted, so `{}` is
a datum of every class); a history of 1-3 `is_recursive` calls on one memo.
K   the memo `recursion_cache(DeserializationRecursiveChecker, default_conversion)` after the history = the memo of the Lean model
    (`Api.Rec.history step`, driver operation `rec`) on the type graph the harness derives from the annotations alone.
P1  every answer of the memo is exact: `True` iff the type reaches itself (reference: a transitive closure in Python, and `Api.Rec.onCycleB`) -
    `RecursiveConversionsVisitor.visit` hands a type answered `False` to a fresh visitor, so a wrong `False` is an unbounded recursion.
P2  from a cold state, `deserialize` / `serialize` / `deserialization_schema` of every class of the graph, in a generated order, return."""
import collections, random, typing
from common import build_module, case_hash, model

SHAPES = ["Optional[{c}]", "Optional[{c}]", "List[{c}]", "Dict[str, {c}]"]


# minimised past failure (row 96), run first: HP(h: H, q: Q), H(x: X), X(h: H, y: Y), Y(hp: HP), Q(x: X)
CORPUS = [[[1, 4], [2], [1, 3], [0], [2]]]


def gen_graph(r, tag, fixed=None):
    if fixed is not None:
        names = [f"G{tag}_{j}" for j in range(len(fixed))]
        src = ["from dataclasses import dataclass, field", "from typing import Optional, List, Dict", ""]
        for j, n in enumerate(names):
            src += ["@dataclass", f"class {n}:", "    v: int = 0"] + [f'    f{fi}: Optional["{names[t]}"] = None' for fi, t in enumerate(fixed[j])] + [""]
        return names, src, fixed
    k = r.randrange(2, 8)
    names = [f"G{tag}_{j}" for j in range(k)]
    src = ["from dataclasses import dataclass, field", "from typing import Optional, List, Dict", ""]
    edges = []
    for j, n in enumerate(names):
        src += ["@dataclass", f"class {n}:", "    v: int = 0"]
        targets = [r.randrange(k) for _ in range(r.choice([0, 1, 1, 2, 2, 3]))]
        for fi, t in enumerate(targets):
            shape = r.choice(SHAPES).format(c=f'"{names[t]}"')
            default = "None" if shape.startswith("Optional") else ("field(default_factory=list)" if shape.startswith("List") else "field(default_factory=dict)")
            src.append(f"    f{fi}: {shape} = {default}")
        edges.append(targets); src.append("")
    return names, src, edges


def type_graph(classes):
    """nodes = types as the checker keys them; children in visiting order - derived from the annotations only"""
    ids, graph = {}, []
    def node(tp):
        if tp in ids: return ids[tp]
        i = ids[tp] = len(ids); graph.append([i, None])
        origin = typing.get_origin(tp)
        if origin is typing.Union: ch = list(typing.get_args(tp))
        elif origin in (list, dict): ch = list(typing.get_args(tp))
        elif isinstance(tp, type) and hasattr(tp, "__dataclass_fields__"):
            hints = typing.get_type_hints(tp); ch = [hints[f] for f in tp.__dataclass_fields__]
        else: ch = []
        graph[i][1] = [node(c) for c in ch]
        return i
    for c in classes: node(c)
    return ids, graph


def memo_of(recursion_cache, checker, dc):
    """the memo of a checker class (an internal function: a signature without the default conversion is tried too, so that a refactoring of the
    signature is not mistaken for a crash of the analysis - what the memo is keyed by is the business of `memo_keyed_by_default_conversion`)"""
    try: return recursion_cache(checker, dc)
    except TypeError: return recursion_cache(checker)


def on_cycle(graph):
    succ = {i: set(ch) for i, ch in graph}
    out = set()
    for i in succ:
        seen, todo = set(), list(succ[i])
        while todo:
            x = todo.pop()
            if x in seen: continue
            seen.add(x); todo += succ[x]
        if i in seen: out.add(i)
    return out


def enumerate_model(n, maxlen, starts_list):
    """every digraph on n nodes with at most maxlen ordered children per node, every history of starts_list, through the Lean model: the graphs
    whose repaired memo is not exact (a test of the model over a small scope, not a proof)"""
    import itertools, json, subprocess, threading
    from common import DRIVER
    cl = [[]] + [list(p) for L in range(1, maxlen + 1) for p in itertools.permutations(range(n), L)]
    proc = subprocess.Popen([DRIVER], stdin=subprocess.PIPE, stdout=subprocess.PIPE, text=True, bufsize=1 << 20)
    def feed():
        for combo in itertools.product(cl, repeat=n):
            g = [[i, combo[i]] for i in range(n)]
            for st in starts_list: proc.stdin.write(json.dumps({"op": "rec", "id": 0, "graph": g, "starts": st, "fuel": 5000}) + "\n")
        proc.stdin.close()
    th = threading.Thread(target=feed); th.start()
    total, bad = 0, []
    combos = ((combo, st) for combo in itertools.product(cl, repeat=n) for st in starts_list)
    for line, (combo, st) in zip(proc.stdout, combos):
        o = json.loads(line); total += 1; cyc = set(o.get("on_cycle", []))
        if "error" in o or any(b != (k in cyc) for k, b in o["fixed"]):
            if len(bad) < 3: bad.append({"edges": [list(c) for c in combo], "starts": st, "model": o})
    th.join(); proc.wait()
    return total, bad


def minimal(ns, names, edges_of, depth):
    """a datum that walks one level of every field"""
    return {}


def run_part(seed, budget, exit_model="fixed"):
    import apischema
    from apischema import deserialize, serialize, settings, ValidationError
    from apischema.json_schema import deserialization_schema
    from apischema.recursion import is_recursive, recursion_cache, DeserializationRecursiveChecker, SerializationRecursiveChecker
    r = random.Random(seed * 7919 + 5)
    failures, hist, distinct, n = [], collections.Counter(), set(), 0
    cases, reqs, creqs, creal = [], [], [], []
    for gi in range(60 * budget):
        names, src, edges = gen_graph(r, f"{seed}_{gi}", CORPUS[gi] if gi < len(CORPUS) else None)
        mod = build_module(src, f"recg{seed}_{gi}"); ns = vars(mod)
        classes = [ns[x] for x in names]
        ids, graph = type_graph(classes)
        rev = {i: tp for tp, i in ids.items()}
        starts = [r.choice(classes) for _ in range(r.randrange(1, 4))]
        if gi < len(CORPUS): starts = [classes[0]]
        if r.random() < 0.3:                                       # a call on a field type (Optional[...] / List[...]) as well
            inner = [tp for tp in ids if typing.get_origin(tp) is not None]
            if inner: starts.insert(r.randrange(len(starts) + 1), r.choice(inner))
        side = r.choice(["deser", "deser", "ser"])
        checker = DeserializationRecursiveChecker if side == "deser" else SerializationRecursiveChecker
        dc = settings.deserialization.default_conversion if side == "deser" else settings.serialization.default_conversion
        apischema.cache.reset()
        answers, crash = [], None
        try:
            for s in starts: answers.append(bool(is_recursive(s, None, dc, checker)))
            memo = {ids[k[0]]: v for k, v in memo_of(recursion_cache, checker, dc).items() if k[0] in ids and k[1] is None}
        except BaseException as e:
            crash = f"{type(e).__name__}: {str(e)[:80]}"; memo = {}
        cyc = on_cycle(graph)
        case = {"classes": src, "side": side, "starts": [getattr(s, "__name__", repr(s)) for s in starts], "graph": graph,
                "nodes": {str(i): getattr(tp, "__name__", repr(tp)) for i, tp in rev.items()}}
        why = []
        if crash: why.append("crash-in-analysis:" + crash)
        wrong = sorted(i for i, v in memo.items() if v != (i in cyc))
        if wrong: why.append("is_recursive-not-exact:" + ",".join(f"{case['nodes'][str(i)]}={memo[i]}" for i in wrong))
        # P2: cold first uses, generated order
        apischema.cache.reset()
        order = classes[:]
        if gi >= len(CORPUS): r.shuffle(order)
        real_compiled = []
        for c in order:
            try: deserialize(c, {}); real_compiled.append(True)
            except RecursionError: real_compiled.append(False)
            except BaseException: real_compiled.append(True)
        apischema.cache.reset()
        for c in order:
            for label, fn in (("deserialize", lambda: deserialize(c, {})), ("serialize", lambda: serialize(c, c())), ("schema", lambda: deserialization_schema(c))):
                try: fn()
                except ValidationError as e: why.append(f"rejected-{label}:{c.__name__}")
                except BaseException as e: why.append(f"crash-{label}:{c.__name__}:{type(e).__name__}"); break
        n += 1
        nontrivial = bool(cyc) and len(graph) > 3
        if nontrivial: distinct.add(case_hash({"g": graph, "s": case["starts"], "side": side}))
        hist["rec-graph:" + ("cyclic" if cyc else "acyclic")] += 1; hist[f"rec-graph-classes:{len(names)}"] += 1
        hist["rec-graph-history:%d" % len(starts)] += 1
        cases.append((case, memo, why, ids, starts))
        reqs.append({"op": "rec", "id": gi, "graph": graph, "starts": [ids[s] for s in starts], "fuel": 20000})
        creqs.append({"op": "rec", "id": gi, "graph": graph, "starts": [ids[c] for c in order], "fuel": 20000, "compile": True, "objects": [ids[c] for c in classes]}); creal.append(real_compiled)
    outs = model(reqs)
    k_bad = 0
    for (case, memo, why, ids, starts), out in zip(cases, outs):
        want = {i: b for i, b in out.get(exit_model, [])}
        k_ok = "error" not in out and want == memo
        cyc_model = set(out.get("on_cycle", []))
        if "error" not in out and cyc_model != on_cycle(case["graph"]): why.append("oracles-disagree")     # Lean's onCycleB vs the closure above
        if not k_ok:
            k_bad += 1
            case = dict(case, model=sorted(want.items()), real=sorted(memo.items()))
        if why or not k_ok:
            failures.append({"kind": "P" if why else "K", "k_ok": k_ok, "mode": "rec-graph", "case": case, "why": why or ["memo-differs-from-model"]})
    # the consumer of the answers: the method of each class, compiled cold in the generated order, returns iff the model's compilation (`compileF`) stays within its bound
    c_bad = 0
    for (case, memo, why, ids, starts), out, real in zip(cases, model(creqs), creal):
        want = out.get("compiled_" + exit_model)
        # (`compileF`: the `_first_visit` flag and its restoration at the end of every object field are in the model; the outcome is compared both ways)
        if "error" in out or want != real:
            c_bad += 1
            failures.append({"kind": "K", "k_ok": False, "mode": "rec-graph-compile", "case": dict(case, model_compiled=want, real_compiled=real), "why": ["compilation-outcome-differs-from-model"]})
    hist["rec-graph-compile-K-compared"] = len(cases); hist["rec-graph-compile-K-disagreements"] = c_bad
    hist["rec-graph-K-compared"] = len(cases); hist["rec-graph-K-disagreements"] = k_bad
    # small-scope enumeration of the model (quick: 3 nodes, up to 3 children; thorough: 4 nodes, up to 2 children); a graph whose model memo is not exact is replayed on the real code
    scope = (4, 2, [[0], [2, 0]]) if budget >= 4 else (3, 3, [[0], [1, 0]])
    total, bad = enumerate_model(*scope)
    hist[f"rec-graph-model-enumeration:{scope[0]}-nodes-{scope[1]}-children"] = total; n += total
    for b in bad:
        names, src, edges = gen_graph(r, f"{seed}_enum{len(failures)}", b["edges"])
        ns = vars(build_module(src, f"recg{seed}_enum{len(failures)}")); classes = [ns[x] for x in names]
        ids, graph = type_graph(classes); apischema.cache.reset()
        dc = settings.deserialization.default_conversion
        for st in b["starts"]: is_recursive(classes[st], None, dc, DeserializationRecursiveChecker)
        memo = {ids[k[0]]: v for k, v in memo_of(recursion_cache, DeserializationRecursiveChecker, dc).items() if k[0] in ids and k[1] is None}
        cyc = on_cycle(graph); wrong = sorted(i for i, v in memo.items() if v != (i in cyc))
        failures.append({"kind": "P" if wrong else "K", "k_ok": bool(wrong), "mode": "rec-graph-enumeration", "case": {"classes": src, "starts": b["starts"], "edges": b["edges"], "model": b["model"]},
                         "why": ["is_recursive-not-exact:" + ",".join(map(str, wrong))] if wrong else ["model-memo-not-exact-but-the-real-memo-is"]})
    return failures, n, distinct, hist
