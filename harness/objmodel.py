"""Object-model corners against plain twins (C01, C02, C04, C05, C06, C07, C11, C15, C16): what a class *means* when it is built with inheritance
(a field re-annotated in a subclass), nested `Annotated` aliases (the outermost annotation wins), a class aliaser on a generic class used specialised,
init variables between fields, `none_as_undefined` inside `Annotated`, unset-tracking on a generic class, a generic `total=False` TypedDict, serialized methods
inherited from a partially specialised generic base.  Each scenario gives the class as a user would write it and a *twin*: a plain class (no inheritance, no
generics, metadata in `field(...)`) that says the same thing.  Oracle: every view of the real class equals the view of the twin - deserialization outcome
(field values or errors), serialized data, both JSON schemas (up to the class name), the set of set fields - plus, where a scenario states them, explicit
expectations (order of the schema properties, location of a validator's error)."""
import collections, dataclasses, random
from common import build_module, case_hash

HEADER = ["from __future__ import annotations" if False else "", "from dataclasses import dataclass, field, InitVar", "from typing import *",
          "from apischema import alias, schema, serialized, validator, ValidationError, Undefined, UndefinedType, type_name, discriminator",
          "from apischema.fields import with_fields_set", "from apischema.metadata import skip, none_as_undefined, flatten, properties, conversion", "from apischema.objects import get_alias",
          "from apischema.utils import to_camel_case", "T = TypeVar('T'); U = TypeVar('U'); V = TypeVar('V')", ""]

# (name, source lines ({i} = unique suffix), real type expression, twin type expression, data, options)
SCENARIOS = [
    ("reannotated-field", [
        "@dataclass", "class RB{i}:", "    id: int", "    name: str = 'n'", "",
        "@dataclass", "class RS{i}(RB{i}):", "    id: str", "    extra: int = 0", "",
        "@dataclass", "class TwRS{i}:", "    id: str", "    name: str = 'n'", "    extra: int = 0", ""],
     "RS{i}", "TwRS{i}", [{"id": "abc"}, {"id": 1}, {"id": "x", "name": 2}, {"id": "x", "extra": "e"}, {}], {}),
    ("reannotated-generic-field", [
        "@dataclass", "class GBx{i}(Generic[T]):", "    content: T", "    tag: str = 't'", "",
        "@dataclass", "class PBx{i}(GBx{i}[int]):", "    content: Annotated[int, schema(min=0)]", "",
        "@dataclass", "class TwPBx{i}:", "    content: Annotated[int, schema(min=0)]", "    tag: str = 't'", ""],
     "PBx{i}", "TwPBx{i}", [{"content": -1}, {"content": 3}, {"content": "x"}, {"content": 1, "tag": 2}], {}),
    ("nested-annotated-alias", [
        "UserId{i} = Annotated[int, alias('id')]",
        "@dataclass", "class Msg{i}:", "    id: UserId{i}", "    sender: Annotated[UserId{i}, alias('sender_id')]", "    receiver: Annotated[UserId{i}, alias('receiver_id')] = 0", "",
        "@dataclass", "class TwMsg{i}:", "    id: int = field(metadata=alias('id'))", "    sender: int = field(metadata=alias('sender_id'))",
        "    receiver: int = field(default=0, metadata=alias('receiver_id'))", ""],
     "Msg{i}", "TwMsg{i}", [{"id": 1, "sender_id": 2, "receiver_id": 3}, {"id": 1, "sender_id": 2}, {"id": 1, "sender": 2}, {"id": 1}, {"id": "x", "sender_id": "y"}], {}),
    ("nested-annotated-skip-and-schema", [
        "Quiet{i} = Annotated[int, skip(serialization_default=True), schema(min=0)]",
        "@dataclass", "class Sk{i}:", "    a: Quiet{i} = 0", "    b: Annotated[Quiet{i}, skip(serialization_default=False), schema(max=10)] = 0", "",
        "@dataclass", "class TwSk{i}:", "    a: int = field(default=0, metadata=skip(serialization_default=True) | schema(min=0))",
        "    b: int = field(default=0, metadata=schema(min=0, max=10))", ""],
     "Sk{i}", "TwSk{i}", [{}, {"a": 1, "b": 1}, {"a": -1, "b": 11}, {"b": -1}], {}),
    ("class-aliaser-on-generic", [
        "@alias(to_camel_case)", "@dataclass", "class Pg{i}(Generic[T]):", "    page_items: List[T]", "    next_cursor: Optional[str] = None", "    total_count: int = 0", "",
        "@alias(to_camel_case)", "@dataclass", "class TwPg{i}:", "    page_items: List[int]", "    next_cursor: Optional[str] = None", "    total_count: int = 0", ""],
     "Pg{i}[int]", "TwPg{i}", [{"pageItems": [1, 2], "nextCursor": "c", "totalCount": 2}, {"pageItems": [1, "x"]}, {"page_items": [1]}, {"pageItems": [], "totalCount": "n"}, {}], {}),
    ("class-aliaser-on-generic-nested", [
        "@alias(str.upper)", "@dataclass", "class Pr{i}(Generic[T, U]):", "    left: T", "    right: U", "",
        "@dataclass", "class Hold{i}:", "    p: Optional[Pr{i}[int, str]] = None", "    ps: List[Pr{i}[str, int]] = field(default_factory=list)", "",
        "@alias(str.upper)", "@dataclass", "class TwPrA{i}:", "    left: int", "    right: str", "",
        "@alias(str.upper)", "@dataclass", "class TwPrB{i}:", "    left: str", "    right: int", "",
        "@dataclass", "class TwHold{i}:", "    p: Optional[TwPrA{i}] = None", "    ps: List[TwPrB{i}] = field(default_factory=list)", ""],
     "Hold{i}", "TwHold{i}", [{"p": {"LEFT": 1, "RIGHT": "r"}}, {"p": {"left": 1, "right": "r"}}, {"ps": [{"LEFT": "a", "RIGHT": 1}, {"LEFT": 1, "RIGHT": "b"}]}, {}], {"names": {"TwPrA{i}": "Pr{i}", "TwPrB{i}": "Pr{i}"}}),
    ("none-as-undefined-in-annotated", [
        "@dataclass", "class Nu{i}:", "    x: Annotated[Optional[int], none_as_undefined] = None", "    p: Annotated[Optional[int], alias('parent'), none_as_undefined] = None", "    q: Annotated[Optional[str], alias('qq')] = field(default=None, metadata=none_as_undefined)", "",
        "@dataclass", "class TwNu{i}:", "    x: Optional[int] = field(default=None, metadata=none_as_undefined)", "    p: Optional[int] = field(default=None, metadata=alias('parent') | none_as_undefined)",
        "    q: Optional[str] = field(default=None, metadata=alias('qq') | none_as_undefined)", ""],
     "Nu{i}", "TwNu{i}", [{}, {"x": 1, "parent": 2, "qq": "s"}, {"x": None}, {"p": 1}, {"parent": "x"}], {}),
    ("unset-tracking-on-generic", [
        "@with_fields_set", "@dataclass", "class Fs{i}(Generic[T]):", "    a: T", "    b: Optional[T] = None", "    c: int = 0", "",
        "@with_fields_set", "@dataclass", "class TwFs{i}:", "    a: int", "    b: Optional[int] = None", "    c: int = 0", ""],
     "Fs{i}[int]", "TwFs{i}", [{"a": 1}, {"a": 1, "b": None}, {"a": 1, "c": 0}, {"a": "x"}], {"fields_set": True}),
    ("generic-partial-typeddict", [
        "class Pt{i}(TypedDict, Generic[T], total=False):", "    value: T", "    comment: str", "",
        "class TwPt{i}(TypedDict, total=False):", "    value: int", "    comment: str", ""],
     "Pt{i}[int]", "TwPt{i}", [{"value": 1}, {}, {"value": "x"}, {"value": 1, "comment": "c"}], {}),
    ("serialized-method-of-a-partially-specialised-base", [
        "@dataclass", "class SP{i}(Generic[T, U]):", "    items: List[T]", "    meta: Optional[U] = None",
        "    @serialized", "    def first(self) -> Optional[T]:", "        return self.items[0] if self.items else None", "",
        "@dataclass", "class SS{i}(SP{i}[str, V], Generic[V]):", "    extra: Optional[V] = None", "",
        "@dataclass", "class TwSS{i}:", "    items: List[str]", "    meta: Optional[int] = None", "    extra: Optional[int] = None",
        "    @serialized", "    def first(self) -> Optional[str]:", "        return self.items[0] if self.items else None", ""],
     "SS{i}[int]", "TwSS{i}", [{"items": ["a", "b"]}, {"items": [], "meta": 1, "extra": 2}, {"items": [1]}, {"items": ["a"], "extra": "x"}], {"one_way": True}),
    ("init-variable-between-fields", [
        "@dataclass", "class Iv{i}:", "    login: str", "    password: InitVar[str]", "    email: str = ''", "    nick: str = ''", "    digest: int = field(init=False, default=0)",
        "    def __post_init__(self, password):", "        self.digest = len(password)", ""],
     "Iv{i}", None, [{"login": "l", "password": "pw"}, {"login": "l"}, {"login": "l", "password": 3, "email": 4}],
     {"deser_props": ["login", "password", "email", "nick"], "ser_props": ["login", "email", "nick", "digest"]}),
    ("discriminated-reannotated-literal", [
        "@dataclass", "class An{i}:", "    type: str = 'animal'", "    name: str = 'n'", "",
        "@dataclass", "class Ct{i}(An{i}):", "    type: Literal['cat'] = 'cat'", "",
        "@dataclass", "class Dg{i}(An{i}):", "    type: Literal['dog'] = 'dog'", "    legs: int = 4", "",
        "@dataclass", "class TwCt{i}:", "    type: Literal['cat'] = 'cat'", "    name: str = 'n'", "",
        "@dataclass", "class TwDg{i}:", "    type: Literal['dog'] = 'dog'", "    name: str = 'n'", "    legs: int = 4", ""],
     "Annotated[Union[Ct{i}, Dg{i}], discriminator('type')]", "Annotated[Union[TwCt{i}, TwDg{i}], discriminator('type')]",
     [{"type": "cat"}, {"type": "dog", "legs": 3}, {"type": "Ct{i}"}, {"type": "animal"}, {"type": "dog", "legs": "x"}], {"names": {"TwCt{i}": "Ct{i}", "TwDg{i}": "Dg{i}"}}),
    ("undefined-before-none-in-a-union", [
        "@dataclass", "class Un{i}:", "    a: Union[UndefinedType, None, int] = Undefined", "    b: Union[UndefinedType, int, None] = Undefined", "",
        "@dataclass", "class TwUn{i}:", "    a: Union[None, int, UndefinedType] = Undefined", "    b: Union[int, None, UndefinedType] = Undefined", ""],
     "Un{i}", "TwUn{i}", [{"a": 1, "b": 2}, {"a": None, "b": None}, {"a": "x"}, {}], {}),
]


def run_part(prop, seed, budget):
    from apischema import deserialize, serialize, ValidationError
    from apischema.json_schema import deserialization_schema, serialization_schema
    from apischema.fields import fields_set
    r = random.Random(seed * 409 + 23)
    failures, hist, distinct, n = [], collections.Counter(), set(), 0
    src = list(HEADER)
    insts = []
    for k, (name, lines, real, twin, data, opts) in enumerate(SCENARIOS):
        for rep in range(budget):
            i = f"{k}_{rep}"
            src += [l.replace("{i}", i) for l in lines] + [""]
            insts.append((name, real.replace("{i}", i), twin.replace("{i}", i) if twin else None, [({k_: (v_.replace("{i}", i) if isinstance(v_, str) else v_) for k_, v_ in d_.items()} if isinstance(d_, dict) else d_) for d_ in data], {a: ({x.replace("{i}", i): y.replace("{i}", i) for x, y in b.items()} if isinstance(b, dict) else b) for a, b in opts.items()}, [l.replace("{i}", i) for l in lines]))
    ns = vars(build_module(src, f"objmodel{seed}"))

    # K: the model of the metadata chain (Api.Meta.fullMetadata, driver op "metachain") against `ObjectField.full_metadata` on fields whose type is an
    # annotated alias re-annotated up to three times, with and without field metadata: which alias / description wins
    if prop in ("C11", "C04"):
        from common import model
        from apischema.objects import object_fields
        ksrc = ["from dataclasses import dataclass, field", "from typing import *", "from apischema import alias, schema", ""]
        kspecs = []
        for j in range(12 * budget):
            levels = [[(k, f"{k}{j}_{lv}") for k in r.sample(["alias", "descr"], r.randint(0, 2))] for lv in range(r.randint(1, 3))]
            fm = [(k, f"{k}{j}_f") for k in r.sample(["alias", "descr"], r.randint(0, 1))]
            def md(pairs): return [("alias(%r)" % v) if k == "alias" else ("schema(description=%r)" % v) for k, v in pairs]
            tp = "int"
            for lv in levels: tp = "Annotated[" + ", ".join([tp] + (md(lv) or ["'doc'"])) + "]"
            ksrc += ["@dataclass", f"class MK{j}:", f"    f: {tp} = " + (f"field(default=0, metadata={' | '.join(md(fm))})" if fm else "0"), ""]
            kspecs.append((j, levels, fm))
        kns = vars(build_module(ksrc, f"objmodelmeta{seed}"))
        reqs = []
        for j, levels, fm in kspecs:
            for key in ("alias", "descr"):
                reqs.append({"op": "metachain", "id": len(reqs), "field": [list(p) for p in fm], "annos": [[list(p) for p in lv] for lv in levels], "key": key})
        reps = model(reqs); it = iter(reps)
        for j, levels, fm in kspecs:
            fld = object_fields(kns[f"MK{j}"])["f"]
            for key in ("alias", "descr"):
                rep = next(it); n += 1; hist["K:metadata-chains"] += 1
                from apischema.metadata.keys import ALIAS_METADATA, SCHEMA_METADATA
                fmd = fld.full_metadata
                real = (str(fmd[ALIAS_METADATA]) if ALIAS_METADATA in fmd else None) if key == "alias" else (fmd[SCHEMA_METADATA].description if SCHEMA_METADATA in fmd else None)
                if key == "alias" and (str(fld.alias) if fld.alias != "f" else None) != real: real = "field.alias=" + str(fld.alias) + " but full_metadata says " + str(real)
                if "error" in rep or rep["value"] != real:
                    failures.append({"kind": "K", "k_ok": False, "part": "object-model-twins", "features": ["object-model", "metadata-chain"], "why": ["model and implementation disagree"],
                                     "py": f"MK{j}", "key": key, "levels(innermost first)": levels, "field_metadata": fm, "model": rep, "real": real})

    def out(fn):
        try: return ("ok", fn())
        except ValidationError as e: return ("invalid", e.errors)
        except Exception as e: return ("crash", type(e).__name__ + ":" + str(e)[:100])

    def plain(v):
        if dataclasses.is_dataclass(v) and not isinstance(v, type): return {f.name: plain(getattr(v, f.name)) for f in dataclasses.fields(v)}
        if isinstance(v, list): return [plain(x) for x in v]
        if isinstance(v, dict): return {k: plain(x) for k, x in v.items()}
        return v

    def rename(x, names):
        if isinstance(x, dict): return {rename(k, names): rename(v, names) for k, v in x.items()}
        if isinstance(x, list): return [rename(v, names) for v in x]
        if isinstance(x, str):
            for a, b in names.items(): x = x.replace(a, b)
        return x

    for name, real, twin, data, opts, lines in insts:
        G = eval(real, ns); Tw = eval(twin, ns) if twin else None
        names = dict(opts.get("names", {}))
        if twin: names[twin.split("[")[0]] = real.split("[")[0]
        def fail(why, **kw):
            failures.append(dict({"kind": "P", "k_ok": None, "part": "object-model-twins", "features": ["object-model", name], "scenario": name, "py": real, "src": lines, "why": [why]}, **kw))
        hist["object-model:" + name] += 1
        # schemas (C06 / C07 / C16 / C11): equal to the twin's up to the class name; explicit property order where stated
        if prop in ("C06", "C07", "C11", "C16", "C17"):
            for fn_, key in ((deserialization_schema, "deser_props"), (serialization_schema, "ser_props")):
                if prop == "C06" and fn_ is serialization_schema or prop == "C07" and fn_ is deserialization_schema: continue
                n += 1; distinct.add(case_hash("objmodel-schema", name, fn_.__name__))
                a = out(lambda: fn_(G))
                if a[0] != "ok": fail("schema-generation-raises:" + a[1].split(":")[0] if a[0] == "crash" else "schema-generation-raises", which=fn_.__name__, got=repr(a)[:300]); continue
                if Tw is not None:
                    b = out(lambda: fn_(Tw))
                    same = rename(b[1], names) == a[1] if b[0] == "ok" else False
                    if prop == "C16": same = b[0] == "ok" and list(rename(b[1], names).get("properties", {})) == list(a[1].get("properties", {}))
                    if not same: fail("schema-differs-from-the-plain-twin", which=fn_.__name__, real=a[1], twin=b[1] if b[0] == "ok" else repr(b)[:300])
                if key in opts and list(a[1].get("properties", {})) != opts[key]:
                    fail("schema-properties-not-in-declaration-order", which=fn_.__name__, got=list(a[1].get("properties", {})), expected=opts[key])
        if prop in ("C06", "C07"):
            # the property itself on the real class
            import jsonschema
            ds, ss = out(lambda: deserialization_schema(G)), out(lambda: serialization_schema(G))
            for d in data:
                a = out(lambda: deserialize(G, d))
                if prop == "C06" and ds[0] == "ok" and a[0] in ("ok", "invalid"):
                    n += 1
                    ok = jsonschema.Draft202012Validator(ds[1]).is_valid(d)
                    if (a[0] == "ok") != ok: fail("deserialize-and-deserialization_schema-disagree", datum=d, deserialize=repr(a)[:200], validates=ok, real=ds[1])
                if prop == "C07" and ss[0] == "ok" and a[0] == "ok" and not opts.get("fields_set"):     # (C07 excludes fields dropped by unset-tracking)
                    n += 1
                    sv = out(lambda: serialize(G, a[1]))
                    if sv[0] != "ok" or not jsonschema.Draft202012Validator(ss[1]).is_valid(sv[1]): fail("serialized-value-does-not-validate-against-serialization_schema", datum=d, serialized=repr(sv)[:200], real=ss[1])
            continue
        if prop in ("C16", "C17"): continue
        for d in data:
            n += 1; distinct.add(case_hash("objmodel", name, repr(d)))
            a = out(lambda: deserialize(G, d))
            if a[0] == "crash" and prop in ("C01", "C03"): fail("crash:" + a[1].split(":")[0], datum=d, got=a[1]); continue
            if Tw is None: continue
            b = out(lambda: deserialize(Tw, d))
            hist["object-model-outcome:" + b[0]] += 1
            if prop in ("C01", "C02", "C11", "C13"):
                av = plain(a[1]) if a[0] == "ok" else a[1]; bv = plain(b[1]) if b[0] == "ok" else b[1]
                if prop in ("C01", "C13") and (a[0] != b[0] or (a[0] == "ok" and av != bv)): fail("deserializes-differently-from-the-plain-twin", datum=d, real=repr(a)[:300], twin=repr(b)[:300])
                if prop in ("C02", "C11") and a[0] == "invalid" and b[0] == "invalid" and a[1] != b[1]: fail("errors-differ-from-the-plain-twin", datum=d, real=a[1], twin=b[1])
                if prop == "C11" and a[0] != b[0]: fail("keys-consumed-differ-from-the-plain-twin", datum=d, real=repr(a)[:300], twin=repr(b)[:300])
            if a[0] == "ok" and b[0] == "ok":
                if prop in ("C04", "C05", "C11", "C13"):
                    sa, sb = out(lambda: serialize(G, a[1])), out(lambda: serialize(Tw, b[1]))
                    if sa != sb: fail("serializes-differently-from-the-plain-twin", datum=d, real=repr(sa)[:300], twin=repr(sb)[:300])
                    if prop in ("C05", "C13") and sa[0] == "ok" and not opts.get("one_way"):
                        back = out(lambda: deserialize(G, sa[1]))
                        if back[0] != "ok" or plain(back[1]) != plain(a[1]): fail("value-does-not-round-trip", datum=d, serialized=repr(sa[1])[:200], back=repr(back)[:200])
                if prop == "C04":
                    # the value built directly (defaults of the class), typed and untyped
                    pass
                if prop == "C15" and opts.get("fields_set"):
                    fa, fb = out(lambda: sorted(fields_set(a[1]))), out(lambda: sorted(fields_set(b[1])))
                    if fa != fb: fail("fields_set-differs-from-the-plain-twin", datum=d, real=repr(fa), twin=repr(fb))
                    sa, sb = out(lambda: serialize(G, a[1])), out(lambda: serialize(Tw, b[1]))
                    if sa != sb: fail("serializes-differently-from-the-plain-twin", datum=d, real=repr(sa)[:300], twin=repr(sb)[:300])
        if prop in ("C04", "C05") and Tw is not None:
            # default instances (no datum involved)
            da, db = out(lambda: serialize(G, deserialize(G, data[0]))), out(lambda: serialize(Tw, deserialize(Tw, data[0])))
            if da[0] == "ok" and db[0] == "ok" and da != db: fail("serializes-differently-from-the-plain-twin", datum=data[0], real=repr(da)[:300], twin=repr(db)[:300])
    return failures, n, distinct, hist
