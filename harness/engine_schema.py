"""schema engine: C06 (deserialize <=> deserialization_schema), C07 (serialize(v) validates against
serialization_schema), C18 (older dialects accept the same instances, V's vocabulary only).
K: the real schema = the model's builder output; the Lean validators = jsonschema on every (schema, datum) pair.
P: on the real code alone, with jsonschema as the independent validator."""
import sys, os, json, random, collections, math
HERE = os.path.dirname(os.path.abspath(__file__)); sys.path.insert(0, HERE)
from gen import Gen, Pool, py_proto
from common import model, build_module, fresh, case_hash
from apischema.cache import reset as _cache_reset


def canon_schema(p):
    tag = p[0]
    if tag == "l": return ["l", [canon_schema(x) for x in p[1]]]
    if tag == "d":
        items = []
        for k, v in p[1]:
            v = canon_schema(v)
            if k in ("type", "enum") and v[0] == "l": v = ["l", sorted(v[1], key=json.dumps)]
            # `type: ["number"]` (a union whose `integer` was absorbed by `number`) and `type: "number"` are one schema
            if k == "type" and v[0] == "l" and len(v[1]) == 1: v = v[1][0]
            items.append([k, v])
        return ["d", sorted(items, key=lambda kv: kv[0])]
    return p


def first_diff(a, b, path=""):
    if a == b: return None
    if a[0] == "d" and b[0] == "d":
        ka = {k: json.dumps(v) for k, v in a[1]}; kb = {k: json.dumps(v) for k, v in b[1]}
        for k in sorted(set(ka) | set(kb)):
            if k not in ka: return f"{path}/{k}: missing in real, model={kb[k][:200]}"
            if k not in kb: return f"{path}/{k}: missing in model, real={ka[k][:200]}"
            if ka[k] != kb[k]: return first_diff(json.loads(ka[k]), json.loads(kb[k]), path + "/" + k)
    if a[0] == "l" and b[0] == "l" and len(a[1]) == len(b[1]):
        for i, (x, y) in enumerate(zip(a[1], b[1])):
            if x != y: return first_diff(x, y, f"{path}[{i}]")
    return f"{path}: real={json.dumps(a)[:200]} model={json.dumps(b)[:200]}"


def common_domain(d):
    """the stated common semantic domain: no integer-valued floats, no NaN / inf, integers within the doubles"""
    if isinstance(d, float): return not (d.is_integer() or math.isnan(d) or math.isinf(d))
    if isinstance(d, bool) or d is None or isinstance(d, str): return True
    if isinstance(d, int): return abs(d) < 2**53
    if isinstance(d, list): return all(map(common_domain, d))
    if isinstance(d, dict): return all(map(common_domain, d.values()))
    return False


def strip_unique(j):
    if isinstance(j, dict): return {k: strip_unique(v) for k, v in j.items() if k != "uniqueItems"}
    if isinstance(j, list): return [strip_unique(v) for v in j]
    return j


def strip_keys(j, keys):
    if isinstance(j, dict): return {k: strip_keys(v, keys) for k, v in j.items() if k not in keys}
    if isinstance(j, list): return [strip_keys(v, keys) for v in j]
    return j


def no_fbod(t):
    if (getattr(t, "aggregate", None) or {}).get("fbod"): return False
    return not any(f["fbod"] for f in getattr(t, "fields", [])) and all(no_fbod(k) for k in t.kids)


OBJ_KINDS = {"dataclass", "namedtuple", "typeddict"}
VOCAB_NEW = {"prefixItems", "$defs", "dependentRequired", "unevaluatedProperties"}
VOCAB_BY_VERSION = {"DRAFT_7": {"prefixItems", "$defs", "dependentRequired", "unevaluatedProperties"},
                    "DRAFT_2019_09": {"prefixItems"},
                    "OPEN_API_3_0": {"prefixItems", "$defs", "dependentRequired", "unevaluatedProperties", "additionalItems", "const", "examples"},
                    "OPEN_API_3_1": set()}


def keywords(j, acc=None, in_props=False):
    """keywords used anywhere in a schema (not the property names under `properties`)"""
    acc = set() if acc is None else acc
    if isinstance(j, dict):
        for k, v in j.items():
            if not in_props: acc.add(k)
            keywords(v, acc, in_props=(k in ("properties", "patternProperties", "$defs", "definitions") and not in_props))
    elif isinstance(j, list):
        for v in j: keywords(v, acc)
    return acc


def all_types(j, in_props=False):
    """values of the `type` keyword at every schema position"""
    if isinstance(j, dict):
        for k, v in j.items():
            if k == "type" and not in_props: yield v
            else: yield from all_types(v, in_props=(k in ("properties", "patternProperties", "$defs", "definitions") and not in_props))
    elif isinstance(j, list):
        for v in j: yield from all_types(v)


def oas30_as_draft7(j, in_props=False):
    """documented mapping of the OpenAPI 3.0 schema object onto JSON Schema: `nullable: true` also admits null"""
    if isinstance(j, list): return [oas30_as_draft7(x) for x in j]
    if not isinstance(j, dict): return j
    if in_props: return {k: oas30_as_draft7(v) for k, v in j.items()}
    r = {k: oas30_as_draft7(v, in_props=k in ("properties", "patternProperties", "definitions")) for k, v in j.items() if k not in ("nullable", "example")}
    if j.get("nullable") is True: return {"anyOf": [{"type": "null"}, r]}
    return r


def ref_siblings(j, in_props=False):
    """schema levels where `$ref` has siblings (ignored by draft-07 / OpenAPI 3.0 consumers)"""
    out = []
    if isinstance(j, dict):
        if not in_props and "$ref" in j and len(j) > 1: out.append(sorted(j))
        for k, v in j.items(): out += ref_siblings(v, in_props=(not in_props and k in ("properties", "patternProperties", "$defs", "definitions", "dependentRequired", "dependencies")))
    elif isinstance(j, list):
        for v in j: out += ref_siblings(v)
    return out


def pack(t, **extra):
    return dict({"py": t.py, "src": t.decls(), "ty": t.lean, "features": sorted(t.features())}, **extra)


def run(prop, seed, budget, ctx):
    import jsonschema
    from apischema import deserialize, serialize, ValidationError, settings
    from apischema.json_schema import deserialization_schema, serialization_schema, JsonSchemaVersion
    rnd = random.Random(seed * 7919 + sum(map(ord, prop))); pool = Pool(); g = Gen(rnd, pool, None)
    if prop == "C07": g.kinds = g.kinds + ["reqopt", "reqopt", "optenum1"]
    if prop == "C18": g.kinds = g.kinds + ["falsy_const", "falsy_const", "depreq", "described", "described"]
    g.kinds = g.kinds + ["depreq", "aggregate"]          # dependent_required / aggregate-field classes: outside the Lean model (K skipped), inside the P checks
    n_types, per = {"C06": (250, 8), "C07": (250, 8), "C18": (250, 6)}[prop]
    types = [g.ty(3) for _ in range(n_types * budget)]
    if prop == "C07":
        # minProperties / maxProperties on a class-typed position bound the keys of the datum; a value whose image (completed
        # with defaults) exceeds them is not a value of the constrained type
        from engine_ser import has_props_bound_on_class, ambiguous_union, has_unique
        # ... and a union two alternatives of which share a runtime class serializes a value of the later one through the earlier
        # one (the documented first-match rule): outside the statement's domain, as in C04 / C05
        # ... and uniqueItems is tested on the raw data: distinct data may have equal images, which are not values of the type
        types = [t for t in types if not has_props_bound_on_class(t) and not ambiguous_union(t) and not has_unique(t)]
    if prop == "C06":
        # field-level fall_back_on_default accepts what the schema cannot describe: outside the statement's domain
        types = [t for t in types if no_fbod(t)]
    mod = build_module(pool.source(), f"{prop}_{seed}"); ns = dict(vars(mod))
    failures, hist, distinct, samples, reqs, meta = [], collections.Counter(), set(), [], [], []
    evaluations = 0
    for t in types:
        _cache_reset()      # typing-equal types (Literal[1, True] / Literal[True, 1]) share one cache entry: finding KF13, not this property
        tp = eval(t.py, ns); ap = rnd.random() < 0.3
        if prop == "C06":
            try: real = deserialization_schema(tp, additional_properties=ap, with_schema=False)
            except Exception as e: hist["schema-exc:" + type(e).__name__] += 1; continue
            data = []
            for _ in range(per):
                d = g.valid(t)
                if rnd.random() < 0.5: d = g.mutate(d)
                agg = getattr(t, "aggregate", None)
                if agg and isinstance(d, dict) and rnd.random() < 0.3:
                    # a key spelled like the aggregate field itself is a key like any other (no property of the class has that name)
                    d = dict(d); d[{"additional": "extras", "pattern": "pat", "flatten": "inner"}[agg["kind"]]] = rnd.choice([1, "x", None, {"p_x": 1}])
                if common_domain(d): data.append(d)
            reqs.append({"id": len(reqs), "op": "schema", "ap": ap, "ty": t.lean, "data": [py_proto(d) for d in data]})
            meta.append((t, tp, ap, None, real, data, None))
        elif prop == "C07":
            so = {"exclude_none": rnd.random() < 0.4, "exclude_defaults": rnd.random() < 0.4, "ap": ap}
            vals = []
            try:
                settings.serialization.exclude_none, settings.serialization.exclude_defaults = so["exclude_none"], so["exclude_defaults"]
                try: real = serialization_schema(tp, additional_properties=ap, with_schema=False)
                except Exception as e: hist["schema-exc:" + type(e).__name__] += 1; continue
                for _ in range(per):
                    d = g.valid(t)
                    try:
                        v = deserialize(tp, fresh(d), additional_properties=ap)
                        j = serialize(tp, v, additional_properties=ap)
                    except Exception as e: hist["roundtrip-exc:" + type(e).__name__] += 1; continue
                    vals.append((d, j))
            finally:
                settings.serialization.exclude_none = settings.serialization.exclude_defaults = False
            reqs.append({"id": len(reqs), "op": "schema", "ap": ap, "ty": t.lean, "so": so, "data": []})
            meta.append((t, tp, ap, so, real, vals, None))
        else:
            ver0 = rnd.choice(["DRAFT_7", "DRAFT_2019_09", "OPEN_API_3_0", "OPEN_API_3_1"])
            # types whose schema has keywords that the rewrites rename (const, dependentRequired): every version
            vers = ["DRAFT_7", "DRAFT_2019_09", "OPEN_API_3_0", "OPEN_API_3_1"] if ({"literal", "enum", "depreq", "described"} & t.features()) else [ver0]
            data = [d for d in (g.mutate(g.valid(t)) if rnd.random() < 0.5 else g.valid(t) for _ in range(per)) if common_domain(d)]
            for ver in vers:
                try:
                    real = deserialization_schema(tp, additional_properties=ap, with_schema=False, version=getattr(JsonSchemaVersion, ver))
                    base = deserialization_schema(tp, additional_properties=ap, with_schema=False)
                except Exception as e: hist["schema-exc:" + type(e).__name__] += 1; continue
                reqs.append({"id": len(reqs), "op": "schema07", "ap": ap, "keeps_prefix_items": False, "ty": t.lean, "data": [py_proto(d) for d in data]})
                meta.append((t, tp, ap, ver, real, data, base))
    ms = model(reqs) if ctx["driver_ok"] else [None] * len(reqs)
    kbad = kcmp = 0
    for (t, tp, ap, extra, real, data, base), mo in zip(meta, ms):
        for f in t.features(): hist["ty:" + f] += 1
        has_refs = "$defs" in real or "definitions" in real or "components" in json.dumps(real)
        k_ok = None
        if mo is not None and "error" in mo:
            failures.append(pack(t, kind="K", why="driver error " + str(mo["error"])[:100], k_ok=False)); continue
        if prop == "C18" and extra in ("OPEN_API_3_0", "OPEN_API_3_1"): mo = None      # no Lean model of the OpenAPI rewrite yet
        if {"depreq", "aggregate", "described"} & t.features(): mo = None
        if mo is not None and not has_refs:
            kcmp += 1
            k_ok = canon_schema(py_proto(real)) == canon_schema(mo["schema"])
            if not k_ok:
                kbad += 1
                failures.append(pack(t, kind="K", ap=ap, extra=extra, k_ok=False, why="generated schema differs from the model's: " +
                                     str(first_diff(canon_schema(py_proto(real)), canon_schema(mo["schema"])))[:300], real=real))
        if len(samples) < 4 and t.kind not in Gen.LEAVES and len(json.dumps(real)) < 400:
            samples.append({"type": t.py, "options": {"additional_properties": ap, "extra": extra}, "schema": real})
        if prop == "C06":
            v = jsonschema.Draft202012Validator(real)
            for i, d in enumerate(data):
                evaluations += 1
                try: jv = v.is_valid(d)
                except Exception as e: hist["jsonschema-exc"] += 1; continue
                if k_ok and mo["valid"][i] != jv:
                    failures.append(pack(t, kind="K", ap=ap, d=py_proto(d), d_repr=repr(d), k_ok=False,
                                         why=f"Lean validator says {mo['valid'][i]}, jsonschema says {jv}", real=real))
                try: deserialize(tp, fresh(d), additional_properties=ap); acc = True
                except ValidationError: acc = False
                except Exception as e: hist["deser-crash:" + type(e).__name__] += 1; continue
                hist["accepted" if acc else "rejected"] += 1
                if t.kind not in Gen.LEAVES: distinct.add(case_hash(t.lean, py_proto(d), ap))
                if acc and not jv and ({"set", "frozenset"} & t.features()) and jsonschema.Draft202012Validator(strip_unique(real)).is_valid(d):
                    # common domain: array uniqueness is not enforced for set-typed positions
                    hist["set-uniqueness-excluded"] += 1
                    if "clist" in t.features(): continue          # cannot tell the two kinds of uniqueItems apart: out of the domain
                    jv = True
                if acc != jv:
                    failures.append(pack(t, kind="P", ap=ap, d=py_proto(d), d_repr=repr(d), k_ok=k_ok, real=real, accepted=acc,
                                         why=["accepted-by-deserialize-but-rejected-by-the-schema" if acc else "rejected-by-deserialize-but-valid-against-the-schema"]))
        elif prop == "C07":
            v = jsonschema.Draft202012Validator(real)
            for d, j in data:
                evaluations += 1
                if t.kind not in Gen.LEAVES: distinct.add(case_hash(t.lean, py_proto(d), extra))
                try: ok = v.is_valid(j)
                except Exception: hist["jsonschema-exc"] += 1; continue
                if not ok and ({"set", "frozenset"} & t.features()) and "clist" in t.features() \
                        and jsonschema.Draft202012Validator(strip_unique(real)).is_valid(j):
                    # the value was obtained by deserializing data whose *raw* items were distinct but whose set images are
                    # equal: it is not a value of the constrained type (out of the statement's domain)
                    hist["not-a-value-of-the-type(unique over sets)"] += 1; continue
                hist["validates" if ok else "does-not-validate"] += 1
                if not ok:
                    only_dr = jsonschema.Draft202012Validator(strip_keys(real, {"dependentRequired"})).is_valid(j)
                    failures.append(pack(t, kind="P", ap=ap, so=extra, d=py_proto(d), d_repr=repr(d), serialized=j, k_ok=k_ok, real=real,
                                         only_dependent_required=only_dr,
                                         why=["serialized-value-does-not-validate-against-serialization_schema"]))
        else:
            ver = extra
            new = keywords(real) & VOCAB_BY_VERSION[ver]
            if new:
                failures.append(pack(t, kind="P", ap=ap, version=ver, k_ok=k_ok, real=real, why=["keyword-outside-the-target-vocabulary:" + ",".join(sorted(new))]))
            if ver in ("DRAFT_7", "OPEN_API_3_0") and ref_siblings(real):
                # the older dialects ignore what stands next to a `$ref`: the rewrite isolates references (`isolate_ref`)
                failures.append(pack(t, kind="P", ap=ap, version=ver, k_ok=k_ok, real=real, why=["$ref-with-siblings:" + ",".join(ref_siblings(real)[0])]))
            # the definitions entry point, one side and both sides merged: the same vocabulary at every level
            if OBJ_KINDS & t.features():
                from apischema.json_schema import definitions_schema
                for sides in ("deserialization", "both"):
                    kw = {"deserialization": [tp]} if sides == "deserialization" else {"deserialization": [tp], "serialization": [tp]}
                    try: ds = dict(definitions_schema(version=getattr(JsonSchemaVersion, ver), all_refs=True, additional_properties=ap, **kw))
                    except TypeError: hist["definitions:both-sides-differ"] += 1; continue       # "Reference ... has different schemas"
                    except Exception as e: hist["definitions-exc:" + type(e).__name__] += 1; continue
                    hist["definitions:" + sides] += 1
                    bad = keywords({"definitions": ds}) & VOCAB_BY_VERSION[ver]
                    if ver == "OPEN_API_3_0" and [x for x in all_types(ds) if not isinstance(x, str)]: bad = bad | {"type-list"}
                    if bad:
                        failures.append(pack(t, kind="P", ap=ap, version=ver, k_ok=k_ok, real=ds, sides=sides,
                                             why=["keyword-outside-the-target-vocabulary:" + ",".join(sorted(bad))])); break
            if ver in ("DRAFT_7", "DRAFT_2019_09"):
                V = jsonschema.Draft7Validator if ver == "DRAFT_7" else jsonschema.Draft201909Validator
                v, v0 = V(real), jsonschema.Draft202012Validator(base)
                for i, d in enumerate(data):
                    evaluations += 1
                    if t.kind not in Gen.LEAVES: distinct.add(case_hash(t.lean, py_proto(d), ver))
                    jv, j0 = v.is_valid(d), v0.is_valid(d)
                    hist[ver + (":valid" if jv else ":invalid")] += 1
                    if k_ok and mo["valid"][i] != jv:
                        failures.append(pack(t, kind="K", ap=ap, version=ver, d=py_proto(d), d_repr=repr(d), k_ok=False, real=real,
                                             why=f"Lean draft-07/2019-09 validator says {mo['valid'][i]}, jsonschema says {jv}"))
                    if jv != j0:
                        failures.append(pack(t, kind="P", ap=ap, version=ver, d=py_proto(d), d_repr=repr(d), k_ok=k_ok, real=real, base=base,
                                             why=["older-dialect-and-2020-12-schema-disagree-on-an-instance"]))
            elif ver == "OPEN_API_3_0":
                # OpenAPI 3.0 through its documented mapping: `type` is a single string, `nullable: true` admits null
                bad_types = [x for x in all_types(real) if not isinstance(x, str)]
                if bad_types:
                    failures.append(pack(t, kind="P", ap=ap, version=ver, k_ok=k_ok, real=real, why=["keyword-outside-the-target-vocabulary:type-list"]))
                dropped = keywords(base) & {"prefixItems", "dependentRequired", "unevaluatedProperties"}
                v, v0 = jsonschema.Draft7Validator(oas30_as_draft7(real)), jsonschema.Draft202012Validator(base)
                for d in data:
                    evaluations += 1
                    if t.kind not in Gen.LEAVES: distinct.add(case_hash(t.lean, py_proto(d), ver))
                    if dropped: hist["OAS3.0:instances-not-compared(dropped keywords)"] += 1; continue
                    try: jv, j0 = v.is_valid(d), v0.is_valid(d)
                    except Exception: hist["jsonschema-exc"] += 1; continue
                    hist[ver + (":valid" if jv else ":invalid")] += 1
                    if jv != j0:
                        failures.append(pack(t, kind="P", ap=ap, version=ver, d=py_proto(d), d_repr=repr(d), k_ok=k_ok, real=real, base=base,
                                             why=["older-dialect-and-2020-12-schema-disagree-on-an-instance"]))
            else:
                evaluations += 1; hist[ver] += 1
    if prop == "C18":
        # properties that exist on one side only (a serialized method: read-only; a field skipped by serialization: write-only) in definitions merged from
        # both sides: the merged property schemas are converted like every other level
        from apischema.json_schema import definitions_schema
        one_src = ["from dataclasses import dataclass, field", "from typing import *", "from apischema import serialized", "from apischema.metadata import skip", ""]
        rets = ["Tuple[int, str]", "Optional[int]", "Literal['only']", "Optional[Tuple[int, int]]", "List[Optional[str]]"]
        for i, rt in enumerate(rets):
            one_src += ["@dataclass", f"class OS{i}:", "    a: int = 0", f"    w: {rt} = field(default=None, metadata=skip(serialization=True))",
                        "    @serialized", f"    def r(self) -> {rt}: ...", ""]
        ons = dict(vars(build_module(one_src, f"c18oneside_{seed}")))
        for i, rt in enumerate(rets):
            for ver in ("DRAFT_7", "DRAFT_2019_09", "OPEN_API_3_0", "OPEN_API_3_1"):
                evaluations += 1; distinct.add(("one-sided", i, ver)); hist["definitions:one-sided-properties"] += 1
                try: ds = dict(definitions_schema(deserialization=[ons[f"OS{i}"]], serialization=[ons[f"OS{i}"]], version=getattr(JsonSchemaVersion, ver), all_refs=True))
                except Exception as e:
                    failures.append({"kind": "P", "part": "one-sided", "features": ["definitions"], "py": f"OS{i}", "src": one_src, "version": ver, "why": ["definitions_schema-raises:" + type(e).__name__], "k_ok": None}); continue
                bad = keywords({"definitions": ds}) & VOCAB_BY_VERSION[ver]
                if ver == "OPEN_API_3_0" and [x for x in all_types(ds) if not isinstance(x, str)]: bad = bad | {"type-list"}
                if ver == "OPEN_API_3_0" and "const" in json.dumps(ds): bad = bad | {"const"}
                if bad:
                    failures.append({"kind": "P", "part": "one-sided", "features": ["definitions"], "py": f"OS{i}", "returns": rt, "version": ver, "real": ds,
                                     "why": ["keyword-outside-the-target-vocabulary:" + ",".join(sorted(bad))], "k_ok": None})
    if prop == "C18":
        import corners7
        cf_, cn_, cd_, ch_ = corners7.run_part("C18", seed, budget)
        failures += cf_; evaluations += cn_; distinct |= cd_
        for k_, v_ in ch_.items(): hist[k_] += v_
    if prop in ("C06", "C07"):
        import rec_conv
        rf, rn, rd, rh = rec_conv.run_part(prop, seed, budget)
        failures += rf; evaluations += rn; distinct |= rd
        for k_, v_ in rh.items(): hist[k_] += v_
        if prop == "C06":
            import rec_cons
            cf_, cn_, cd_, ch_ = rec_cons.run_part(seed, budget)
            failures += cf_; evaluations += cn_; distinct |= cd_
            for k_, v_ in ch_.items(): hist[k_] += v_
            import corners8
            cf_, cn_, cd_, ch_ = corners8.run_part("C06", seed, budget)
            failures += cf_; evaluations += cn_; distinct |= cd_
            for k_, v_ in ch_.items(): hist[k_] += v_
        import generics
        gf, gn, gd, gh = generics.run_part(prop, seed, budget)
        failures += gf; evaluations += gn; distinct |= gd
        for k_, v_ in gh.items(): hist[k_] += v_
        import objmodel
        gf, gn, gd, gh = objmodel.run_part(prop, seed, budget)
        failures += gf; evaluations += gn; distinct |= gd
        for k_, v_ in gh.items(): hist[k_] += v_
    if prop == "C07":
        from schema_conv import run_conv_schema
        cf, cn = run_conv_schema(rnd, seed, budget, hist, distinct, build_module); failures += cf; evaluations += cn
        from schema_conv import run_method_schema
        cf, cn = run_method_schema(rnd, seed, budget, hist, distinct, build_module); failures += cf; evaluations += cn
        import corners8
        cf_, cn_, cd_, ch_ = corners8.run_part("C07", seed, budget)
        failures += cf_; evaluations += cn_; distinct |= cd_
        for k_, v_ in ch_.items(): hist[k_] += v_
    for f in failures:
        hist[("P:" + f["why"][0].split(":")[0]) if f["kind"] == "P" else "K"] += 1
    return {"evaluations": evaluations, "distinct_nontrivial": len(distinct),
            "rule": {"C06": "generated types x (valid data, half of them mutated) inside the common domain; deserialize vs jsonschema (2020-12) on the real schema",
                     "C07": "generated types under random global exclude_none / exclude_defaults; serialize(deserialize(valid datum)) validated by jsonschema against the real serialization_schema",
                     "C18": "generated types x version in {draft-07, 2019-09, OAS 3.0, OAS 3.1}; vocabulary at every depth; instances validated under the old dialect and under 2020-12"}[prop]
                    + "; non-trivial = the type has a non-leaf constructor; distinct by (type, datum, options)",
            "samples": samples, "histograms": dict(hist), "correspondence": {"schemas_compared_with_model": kcmp, "disagreements": kbad},
            "failures": failures}


def _f(c, *names): return any(n in c["features"] for n in names)


def _why(c, w): return isinstance(c.get("why"), list) and c["why"][0].startswith(w)


def _lits_mixed(c):
    """a literal / enum type whose values meet bool / int / float under Python equality"""
    return _f(c, "literal", "enum")


KF = {
    # Literal / Enum lookup uses Python hashing: True == 1 == 1.0, so a datum of another JSON type than the declared value is accepted
    "KF34": lambda c: _why(c, "accepted-by-deserialize") and c.get("k_ok") is not False and _lits_mixed(c)
                      and has_numlike(c["d"]),
    # uniqueItems is tested with Python equality (0 == False == 0.0), JSON Schema distinguishes booleans from numbers
    "KF34u": lambda c: _why(c, "rejected-by-deserialize") and c.get("k_ok") is not False and _f(c, "clist") and has_bool_and_num(c["d"]),
    # Dict[<str with a pattern>, V]: `patternProperties` is emitted without `additionalProperties: false`
    "KF33": lambda c: _why(c, "rejected-by-deserialize") and c.get("k_ok") is not False and _f(c, "mapping") and _f(c, "cstr", "literal"),
    # a NamedTuple value in a union is serialized by an earlier tuple alternative (first isinstance match), not by its own
    "KF29": lambda c: _why(c, "serialized-value-does-not-validate") and c.get("k_ok") is not False and _f(c, "namedtuple")
                      and _f(c, "tuple", "vtuple") and _f(c, "union", "optional") and isinstance(c.get("serialized"), list),
    # the serialization schema keeps `dependentRequired` although exclude_none / exclude_defaults can omit the dependent key
    "KF44": lambda c: _why(c, "serialized-value-does-not-validate") and _f(c, "depreq") and c.get("only_dependent_required") is True
                      and (c["so"]["exclude_none"] or c["so"]["exclude_defaults"]),
    # flattened field: the schema is an allOf of two members that each carry additionalProperties: false, so each rejects the keys of the other
    "KF09": lambda c: "aggregate-flatten" in c["features"] and (_why(c, "accepted-by-deserialize") or _why(c, "serialized-value-does-not-validate")),
    # draft-07 output of a class with a flattened field keeps `unevaluatedProperties` (a 2019-09 keyword)
    # (so a draft-07 validator, which ignores the keyword, accepts an instance with an extra key that the 2020-12 schema rejects)
    "KF46": lambda c: "aggregate-flatten" in c["features"] and c.get("version") == "DRAFT_7" and
                      (c["why"][0] == "keyword-outside-the-target-vocabulary:unevaluatedProperties" or
                       (c["why"] == ["older-dialect-and-2020-12-schema-disagree-on-an-instance"] and "unevaluatedProperties" in json.dumps(c.get("real")))),
    # a set whose elements are converted by a non-injective conversion: the images repeat, the schema says uniqueItems
    "KF48": lambda c: c.get("part") == "converted" and _why(c, "serialized-value-does-not-validate") and c.get("only_unique_items") is True and "FrozenSet" in c["py"],
    # constraints on the float image of a large integer (checked after float(int) has rounded)
    "KF41": lambda c: c.get("k_ok") is not False and _f(c, "cfloat") and has_big_int(c["d"]),
}


def walk(p):
    yield p
    if p[0] == "l":
        for x in p[1]: yield from walk(x)
    elif p[0] == "d":
        for k, v in p[1]: yield from walk(v)


def has_numlike(p): return any(x[0] in ("b", "i", "f") for x in walk(p))
def has_bool_and_num(p):
    kinds = {x[0] for x in walk(p)}
    return "b" in kinds and (("i" in kinds) or ("f" in kinds))
def has_big_int(p): return any(x[0] == "i" and abs(int(x[1])) >= 2**53 for x in walk(p))


def is_known(kid, case):
    p = KF.get(kid)
    return bool(p and case.get("kind") == "P" and p(case))


def replay(prop, case, ctx):
    import jsonschema
    from apischema import deserialize, serialize, ValidationError, settings
    from apischema.json_schema import deserialization_schema, serialization_schema, JsonSchemaVersion
    from common import proto_py
    if case.get("part") in ("recursive-conversions", "one-sided"):
        return {k: v for k, v in case.items() if k not in ("kind", "k_ok", "features", "src")}
    if case.get("part") == "converted":
        return {"type": case["py"], "class": case.get("class_src"), "conversion": case["conversion"], "mode": case["mode"], "value": case["value"], "serialized": case["serialized"],
                "schema": case["real"], "recorded": case["why"]}
    mod = build_module("\n".join(Pool.HEADER + case["src"]), "schreplay"); ns = dict(vars(mod)); tp = eval(case["py"], ns)
    out = {"type": case["py"], "recorded": case.get("why")}
    if prop == "C06":
        d = proto_py(case["d"]); real = deserialization_schema(tp, additional_properties=case["ap"], with_schema=False)
        try: deserialize(tp, fresh(d), additional_properties=case["ap"]); acc = True
        except ValidationError: acc = False
        jv = jsonschema.Draft202012Validator(real).is_valid(d)
        out.update(schema=real, datum=repr(d), accepted=acc, schema_valid=jv, fails=acc != jv)
    elif prop == "C07":
        so = case["so"]; d = proto_py(case["d"])
        try:
            settings.serialization.exclude_none, settings.serialization.exclude_defaults = so["exclude_none"], so["exclude_defaults"]
            real = serialization_schema(tp, additional_properties=case["ap"], with_schema=False)
            j = serialize(tp, deserialize(tp, fresh(d), additional_properties=case["ap"]), additional_properties=case["ap"])
        finally:
            settings.serialization.exclude_none = settings.serialization.exclude_defaults = False
        ok = jsonschema.Draft202012Validator(real).is_valid(j)
        out.update(schema=real, serialized=j, fails=not ok)
    else:
        ver = case["version"]
        if case.get("sides"):
            from apischema.json_schema import definitions_schema
            kw = {"deserialization": [tp]} if case["sides"] == "deserialization" else {"deserialization": [tp], "serialization": [tp]}
            ds = dict(definitions_schema(version=getattr(JsonSchemaVersion, ver), all_refs=True, additional_properties=case["ap"], **kw))
            bad = keywords({"definitions": ds}) & VOCAB_BY_VERSION[ver]
            if ver == "OPEN_API_3_0" and [x for x in all_types(ds) if not isinstance(x, str)]: bad = bad | {"type-list"}
            out.update(definitions=ds, vocabulary_violations=sorted(bad), fails=bool(bad)); return out
        real = deserialization_schema(tp, additional_properties=case["ap"], with_schema=False, version=getattr(JsonSchemaVersion, ver))
        base = deserialization_schema(tp, additional_properties=case["ap"], with_schema=False)
        bad = keywords(real) & VOCAB_BY_VERSION[ver]
        fails = bool(bad) or (ver in ("DRAFT_7", "OPEN_API_3_0") and bool(ref_siblings(real)))
        if ver == "OPEN_API_3_0":
            fails = fails or any(not isinstance(x, str) for x in all_types(real))
            if "d" in case:
                d = proto_py(case["d"])
                fails = fails or jsonschema.Draft7Validator(oas30_as_draft7(real)).is_valid(d) != jsonschema.Draft202012Validator(base).is_valid(d)
        if "d" in case and ver in ("DRAFT_7", "DRAFT_2019_09"):
            d = proto_py(case["d"]); V = jsonschema.Draft7Validator if ver == "DRAFT_7" else jsonschema.Draft201909Validator
            fails = fails or V(real).is_valid(d) != jsonschema.Draft202012Validator(base).is_valid(d)
        out.update(schema=real, vocabulary_violations=sorted(bad), fails=fails)
    return out
