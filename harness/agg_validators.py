"""Validators that read aggregate fields (a flattened class, a pattern-properties mapping, an additional-properties mapping): when the aggregate
field is invalid the validator does not run (C10) and nothing but a ValidationError comes out (C03); when it is valid the validator runs on it."""
import collections, random
from common import build_module, case_hash

HEADER = ["from dataclasses import dataclass, field", "from typing import *", "from apischema import validator, ValidationError", "from apischema.metadata import flatten, properties", "LOG = []", ""]


def gen(r, i):
    kind = r.choice(["flatten", "pattern", "additional"]); req = r.random() < 0.5
    L = []
    if kind == "flatten":
        L += ["@dataclass", f"class AVI{i}:", "    ix: int" if r.random() < 0.5 else "    ix: int = 0", ""]
        decl = f"    agg: AVI{i} = field(" + ("" if req else f"default_factory=lambda: AVI{i}(0), ") + "metadata=flatten)"; read = "self.agg.ix < 0"
    elif kind == "pattern":
        decl = "    agg: Dict[str, int] = field(" + ("" if req else "default_factory=dict, ") + "metadata=properties(pattern=r'^p_'))"; read = "sum(self.agg.values()) < 0"
    else:
        decl = "    agg: Dict[str, int] = field(" + ("" if req else "default_factory=dict, ") + "metadata=properties)"; read = "sum(self.agg.values()) < 0"
    fields = ["    a: int"] + ([decl] if req else []) + ["    b: int = 0"] + ([] if req else [decl])
    L += ["@dataclass", f"class AV{i}:"] + fields + [
        "    @validator", "    def on_agg(self):", f"        LOG.append('agg')", f"        if {read}: yield 'negative'",
        "    @validator", "    def on_a(self):", "        LOG.append('a')", "        if self.a == 13: yield 'thirteen'",
        "    @validator", "    def on_both(self):", "        LOG.append('both')", f"        if self.b == 13 and {read}: yield 'both'", ""]
    return {"i": i, "kind": kind, "required": req, "src": L}


def run_initvars(seed, budget, failures, hist, distinct):
    """validators that take init variables (InitVar fields of the dataclass) as parameters, after / before a failing discarding validator: every runnable one
    runs with the values of the datum (or the defaults), and nothing but a ValidationError comes out"""
    from apischema import deserialize, ValidationError
    r = random.Random(seed * 157 + 3); n = 0
    src = ["from dataclasses import dataclass, field, InitVar", "from typing import *", "from apischema import validator, ValidationError", "LOG = []", ""]
    specs = []
    for i in range(20 * budget):
        first_kind = r.choice(["field", "discard", "plain"])
        deco = {"field": "@validator('a')", "discard": "@validator(discard='a')", "plain": "@validator"}[first_kind]
        src += ["@dataclass", f"class IV{i}:", "    a: int", "    b: int = 0", "    limit: InitVar[int] = 10",
                f"    {deco}", "    def first(self):", "        LOG.append('first')", "        if self.a == 13: yield 'thirteen'",
                "    @validator", "    def second(self, limit: int):", "        LOG.append(('second', limit))", "        if self.b > limit: yield 'over'",
                "    @validator", "    def third(self, limit: int):", "        LOG.append(('third', limit))", "        if self.a > limit * 100: yield 'far over'", ""]
        specs.append((i, first_kind))
    mod = build_module(src, f"aggval_iv_{seed}")
    for i, fk in specs:
        cls = getattr(mod, f"IV{i}")
        for _ in range(6):
            a = r.choice([1, 13, "bad", 5000]); b = r.choice([0, 50]); lim = r.choice([None, 100])
            d = {"a": a, "b": b}
            if lim is not None: d["limit"] = lim
            L = lim if lim is not None else 10
            n += 1; hist["initvar-validators:" + fk] += 1; distinct.add(case_hash("iv", fk, repr(d)))
            mod.LOG.clear(); why = []
            try: deserialize(cls, dict(d)); out = ("ok", [])
            except ValidationError as e: out = ("invalid", sorted(x["err"] for x in e.errors))
            except Exception as e: out = ("crash", type(e).__name__ + ":" + str(e)[:80]); why.append("crash:" + type(e).__name__)
            if out[0] != "crash":
                a_ok = a != "bad"; discarded = a_ok and a == 13 and fk in ("field", "discard")
                want = []
                if not a_ok: want.append("expected type integer, found string")
                if a_ok and a == 13: want.append("thirteen")
                if b > L: want.append("over")                                  # `second` depends on b only
                if a_ok and not discarded and a > L * 100: want.append("far over")   # `third` depends on a
                if sorted(want) != out[1]: why.append("errors-differ-from-the-runnable-validators")
                if ("second", L) not in mod.LOG: why.append("runnable-validator-not-executed")
            if why:
                failures.append({"kind": "P", "part": "aggregate-validators", "features": ["validators", "initvar", fk], "src": [f"IV{i}: first validator is {fk}; second(self, limit) reads b; third(self, limit) reads a"],
                                 "datum": repr(d), "outcome": list(out), "validators_run": [str(x) for x in mod.LOG], "why": sorted(set(why)), "k_ok": None})
    return n


def run_part(seed, budget):
    from apischema import deserialize, ValidationError
    r = random.Random(seed * 389 + 17)
    classes = [gen(r, i) for i in range(40 * budget)]
    mod = build_module(HEADER + [l for c in classes for l in c["src"]], f"aggval_{seed}")
    failures, hist, distinct, n = [], collections.Counter(), set(), 0
    for c in classes:
        cls = getattr(mod, f"AV{c['i']}")
        for _ in range(8):
            a = r.choice([1, 13, "bad"]); b = r.choice([0, 13, "bad", None])
            d = {"a": a}
            if b is not None: d["b"] = b
            agg_state = r.choice(["valid", "valid-negative", "invalid", "absent"])
            key = {"flatten": "ix", "pattern": "p_x", "additional": "zz"}[c["kind"]]
            if agg_state != "absent": d[key] = {"valid": 1, "valid-negative": -5, "invalid": "bad"}[agg_state]
            n += 1; hist["aggregate-validators:" + c["kind"] + ":" + agg_state] += 1
            distinct.add(case_hash("aggval", c["src"], repr(d)))
            mod.LOG.clear(); why, info = [], {}
            try: v = deserialize(cls, dict(d)); out = ("ok", repr(v))
            except ValidationError as e: out = ("invalid", e.errors)
            except Exception as e: out = ("crash", type(e).__name__ + ":" + str(e)[:60]); why.append("crash:" + type(e).__name__)
            ran = list(mod.LOG)
            agg_bad = agg_state == "invalid"
            if out[0] != "crash":
                if agg_bad and ("agg" in ran or "both" in ran): why.append("validator-ran-although-a-field-it-depends-on-is-invalid")
                if a == "bad" and ("a" in ran): why.append("validator-ran-although-a-field-it-depends-on-is-invalid")
                if b == "bad" and ("both" in ran): why.append("validator-ran-although-a-field-it-depends-on-is-invalid")
                if (agg_bad or a == "bad" or b == "bad") and out[0] == "ok": why.append("accepted-with-an-invalid-field")
                # runnable validators all run: on_a only needs `a`
                if a != "bad" and "a" not in ran: why.append("runnable-validator-not-executed")
            if why:
                failures.append({"kind": "P", "part": "aggregate-validators", "features": ["aggregate", "validators", c["kind"]], "src": c["src"], "datum": repr(d), "outcome": list(out) if out[0] != "invalid" else ["invalid", out[1][:4]],
                                 "validators_run": ran, "why": sorted(set(why)), "k_ok": None})
    n += run_initvars(seed, budget, failures, hist, distinct)
    return failures, n, distinct, hist
