"""Validators that read aggregate fields (a flattened class, a pattern-properties mapping, an additional-properties mapping): when the aggregate
field is invalid the validator does not run (C10) and nothing but a ValidationError comes out (C03); when it is valid the validator runs on it."""
import collections, random
from common import build_module, case_hash

HEADER = ["from dataclasses import dataclass, field", "from typing import *", "from apischema import validator, ValidationError", "from apischema.metadata import flatten, properties", "LOG = []", ""]


def gen(r, i):
    kind = r.choice(["flatten", "pattern", "additional"]); req = r.random() < 0.5
    L = []
    if kind == "flatten":
        L += ["@dataclass", f"class AVI{i}:", "    ix: int" if r.random() < 0.5 else "    ix: int = 0", ""]
        decl = f"    agg: AVI{i} = field(" + ("" if req else f"default_factory=lambda: AVI{i}(0), ") + "metadata=flatten)"; read = "self.agg.ix < 0"
    elif kind == "pattern":
        decl = "    agg: Dict[str, int] = field(" + ("" if req else "default_factory=dict, ") + "metadata=properties(pattern=r'^p_'))"; read = "sum(self.agg.values()) < 0"
    else:
        decl = "    agg: Dict[str, int] = field(" + ("" if req else "default_factory=dict, ") + "metadata=properties)"; read = "sum(self.agg.values()) < 0"
    fields = ["    a: int"] + ([decl] if req else []) + ["    b: int = 0"] + ([] if req else [decl])
    L += ["@dataclass", f"class AV{i}:"] + fields + [
        "    @validator", "    def on_agg(self):", f"        LOG.append('agg')", f"        if {read}: yield 'negative'",
        "    @validator", "    def on_a(self):", "        LOG.append('a')", "        if self.a == 13: yield 'thirteen'",
        "    @validator", "    def on_both(self):", "        LOG.append('both')", f"        if self.b == 13 and {read}: yield 'both'", ""]
    return {"i": i, "kind": kind, "required": req, "src": L}


def run_part(seed, budget):
    from apischema import deserialize, ValidationError
    r = random.Random(seed * 389 + 17)
    classes = [gen(r, i) for i in range(40 * budget)]
    mod = build_module(HEADER + [l for c in classes for l in c["src"]], f"aggval_{seed}")
    failures, hist, distinct, n = [], collections.Counter(), set(), 0
    for c in classes:
        cls = getattr(mod, f"AV{c['i']}")
        for _ in range(8):
            a = r.choice([1, 13, "bad"]); b = r.choice([0, 13, "bad", None])
            d = {"a": a}
            if b is not None: d["b"] = b
            agg_state = r.choice(["valid", "valid-negative", "invalid", "absent"])
            key = {"flatten": "ix", "pattern": "p_x", "additional": "zz"}[c["kind"]]
            if agg_state != "absent": d[key] = {"valid": 1, "valid-negative": -5, "invalid": "bad"}[agg_state]
            n += 1; hist["aggregate-validators:" + c["kind"] + ":" + agg_state] += 1
            distinct.add(case_hash("aggval", c["src"], repr(d)))
            mod.LOG.clear(); why, info = [], {}
            try: v = deserialize(cls, dict(d)); out = ("ok", repr(v))
            except ValidationError as e: out = ("invalid", e.errors)
            except Exception as e: out = ("crash", type(e).__name__ + ":" + str(e)[:60]); why.append("crash:" + type(e).__name__)
            ran = list(mod.LOG)
            agg_bad = agg_state == "invalid"
            if out[0] != "crash":
                if agg_bad and ("agg" in ran or "both" in ran): why.append("validator-ran-although-a-field-it-depends-on-is-invalid")
                if a == "bad" and ("a" in ran): why.append("validator-ran-although-a-field-it-depends-on-is-invalid")
                if b == "bad" and ("both" in ran): why.append("validator-ran-although-a-field-it-depends-on-is-invalid")
                if (agg_bad or a == "bad" or b == "bad") and out[0] == "ok": why.append("accepted-with-an-invalid-field")
                # runnable validators all run: on_a only needs `a`
                if a != "bad" and "a" not in ran: why.append("runnable-validator-not-executed")
            if why:
                failures.append({"kind": "P", "part": "aggregate-validators", "features": ["aggregate", "validators", c["kind"]], "src": c["src"], "datum": repr(d), "outcome": list(out) if out[0] != "invalid" else ["invalid", out[1][:4]],
                                 "validators_run": ran, "why": sorted(set(why)), "k_ok": None})
    return failures, n, distinct, hist
