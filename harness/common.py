"""Shared plumbing of the engines: driver invocation, module pool, datum <-> protocol, helpers."""
import sys, os, json, importlib, subprocess, hashlib, math, copy

HERE = os.path.dirname(os.path.abspath(__file__))
ROOT = os.path.dirname(HERE)
DRIVER = os.path.join(ROOT, "lean", ".lake", "build", "bin", "driver")
POOL = os.path.join(HERE, "pool")


def model(lines):
    """send JSON-able requests (or pre-encoded lines) to the Lean driver; one reply per request"""
    enc = [l if isinstance(l, str) else json.dumps(l) for l in lines]
    if not enc: return []
    r = subprocess.run([DRIVER], input="\n".join(enc) + "\n", capture_output=True, text=True)
    out = r.stdout.splitlines()
    if len(out) != len(enc):
        raise RuntimeError(f"driver answered {len(out)} lines for {len(enc)} requests: {r.stderr[-500:]}")
    return [json.loads(l) for l in out]


def build_module(src, tag):
    """write generated source as a module of the pool package and import it (validators need getsource)"""
    os.makedirs(POOL, exist_ok=True)
    if POOL not in sys.path: sys.path.insert(0, POOL)
    text = src if isinstance(src, str) else "\n".join(src)
    name = f"vpool_{tag}_{hashlib.sha1(text.encode()).hexdigest()[:8]}"
    path = os.path.join(POOL, name + ".py")
    with open(path, "w") as f: f.write(text)
    try:
        sys.modules.pop(name, None); importlib.invalidate_caches()
        # typing caches subscriptions on equality (Union[A, B] == Union[B, A], Literal[1, True] == Literal[True, 1]): a spelling
        # used by an earlier generated module must not be handed to this one
        import typing
        for clear in getattr(typing, "_cleanups", []): clear()
        return importlib.import_module(name)
    finally:
        try: os.remove(path)
        except OSError: pass


def fresh(d):
    """rebuild the datum the way `json.loads` would: every float (NaN included) is its own object"""
    if isinstance(d, float): return float(repr(d))
    if isinstance(d, list): return [fresh(x) for x in d]
    if isinstance(d, dict): return {k: fresh(v) for k, v in d.items()}
    return d


def proto_py(p):
    """protocol term -> Python datum (inverse of gen.py_proto on JSON-shaped data)"""
    t = p[0]
    if t == "n": return None
    if t == "b": return p[1]
    if t == "i": return int(p[1])
    if t == "f":
        s = p[1]
        if s in ("nan", "inf", "-inf"): return float(s)
        a, b = s.split("/"); return int(a) / int(b)
    if t == "s": return p[1]
    if t == "l": return [proto_py(x) for x in p[1]]
    if t == "d": return {k: proto_py(v) for k, v in p[1]}
    if t == "dn": return {_hashable(proto_py(k)): proto_py(v) for k, v in p[1]}
    if t == "o": return OTHERS[p[1]]()
    raise ValueError(p)


def _hashable(k):
    return tuple(k) if isinstance(k, list) else k


class _StrSub(str): pass
class _IntSub(int): pass
class _ListSub(list): pass
class _DictSub(dict): pass

OTHERS = {"tuple": lambda: (1, 2), "bytes": lambda: b"ab", "set": lambda: {1}, "object": object,
          "complex": lambda: 1j, "frozenset": lambda: frozenset({1}), "bytearray": lambda: bytearray(b"a"),
          "_StrSub": lambda: _StrSub("a"), "_IntSub": lambda: _IntSub(1), "_ListSub": lambda: _ListSub([1]),
          "_DictSub": lambda: _DictSub({"a": 1}), "Decimal": lambda: __import__("decimal").Decimal("1.5"),
          "range": lambda: range(2)}


def is_json(d):
    """JSON-shaped, string keys, integers fit a double"""
    if d is None or isinstance(d, (bool, str)): return type(d) in (type(None), bool, str)
    if type(d) is int: return abs(d) < 2**53
    if type(d) is float: return True
    if type(d) is list: return all(is_json(x) for x in d)
    if type(d) is dict: return all(type(k) is str and is_json(v) for k, v in d.items())
    return False


def snapshot(d):
    """structure-preserving repr used to detect mutation of the input (NaN-safe)"""
    if isinstance(d, list): return ("L", type(d).__name__, [snapshot(x) for x in d])
    if isinstance(d, dict): return ("D", type(d).__name__, [(snapshot(k), snapshot(v)) for k, v in d.items()])
    return repr(d)


def containers(d, acc=None):
    """ids of the mutable containers of a datum"""
    acc = {} if acc is None else acc
    if isinstance(d, (list, dict, set)):
        acc[id(d)] = d
        for x in (d.values() if isinstance(d, dict) else d): containers(x, acc)
    return acc


def value_containers(v, acc=None, depth=0):
    """ids of the mutable containers reachable in a result value (through dataclass fields too)"""
    import dataclasses
    acc = {} if acc is None else acc
    if depth > 50: return acc
    if isinstance(v, (list, dict, set)):
        acc[id(v)] = v
        for x in (list(v.values()) + list(v.keys()) if isinstance(v, dict) else v): value_containers(x, acc, depth + 1)
    elif isinstance(v, (tuple, frozenset)):
        for x in v: value_containers(x, acc, depth + 1)
    elif dataclasses.is_dataclass(v) and not isinstance(v, type):
        for f in dataclasses.fields(v): value_containers(getattr(v, f.name, None), acc, depth + 1)
    return acc


def case_hash(*parts):
    return hashlib.sha1(json.dumps(parts, sort_keys=True, default=repr).encode()).hexdigest()
