"""Scenarios added after the eighth round of seeded changes, one block per property.  Expectations come from plain Python (the key type applied to the key,
`fields_set`, the aliaser applied to the field names), from a relation between two public calls (the image of a field is the image of its value under the
same options; a conversion's square commutes) or from `jsonschema`; none restates the implementation."""
import collections, itertools, json
from common import build_module, case_hash
from corners7 import _out, _fail

SRC = '''
from dataclasses import dataclass, field
from enum import Enum
from typing import *
from uuid import UUID
from apischema import schema, alias
from apischema.fields import with_fields_set
from apischema.metadata import flatten
from apischema.conversions import Conversion, deserializer, serializer, catch_value_error

class Color{i}(Enum):
    RED = "red"
    BLUE = "blue"
class Tag{i}(str): pass
Name{i} = NewType("Name{i}", str)

@dataclass
class Pt{i}:
    x: int = 0

@dataclass
class Palette{i}:
    weights: Mapping[Color{i}, List[str]]

@with_fields_set
@dataclass
class Address{i}:
    city: str
    zip_code: Optional[str] = None
    country: str = "FR"
    street_name: Optional[str] = None

@dataclass
class Person{i}:
    name: str
    address: Address{i}
    previous: List[Address{i}] = field(default_factory=list)
    by_kind: Dict[str, Address{i}] = field(default_factory=dict)
    maybe: Optional[Address{i}] = None

@dataclass
class Street{i}:
    street_name: str
    zip_code: str = "0"
@dataclass
class Customer{i}:
    full_name: str
    address: Street{i} = field(metadata=flatten)

T = TypeVar("T")
@schema(min_props=1, max_props=2)
@dataclass
class Patch{i}(Generic[T]):
    value: Optional[T] = None
    note: Optional[str] = None
    extra: Optional[int] = None
@dataclass
class Request{i}:
    patches: List[Patch{i}[int]] = field(default_factory=list)

# ---- conversions (C12)
class CTag{i}:
    def __init__(self, name): self.name = name
    def __eq__(self, o): return isinstance(o, CTag{i}) and o.name == self.name
    def __hash__(self): return hash(self.name)
class Level{i}:
    def __init__(self, n): self.n = n
    def __eq__(self, o): return isinstance(o, Level{i}) and o.n == self.n
def tag_to_str{i}(t: CTag{i}) -> str: return t.name
def tag_from_str{i}(s: str) -> CTag{i}: return CTag{i}(s)
def level_to_int{i}(l: Level{i}) -> int: return l.n
def level_from_int{i}(n: int) -> Level{i}: return Level{i}(n)
class Registry{i}(Collection):
    def __init__(self, entries): self.entries = entries
    def __contains__(self, x): return x in self.entries
    def __iter__(self): return iter(self.entries)
    def __len__(self): return len(self.entries)
    def __eq__(self, o): return isinstance(o, Registry{i}) and o.entries == self.entries
def registry_to_dict{i}(r: Registry{i}) -> Dict[CTag{i}, Level{i}]: return r.entries
def registry_from_dict{i}(e: Dict[CTag{i}, Level{i}]) -> Registry{i}: return Registry{i}(e)
serializer(Conversion(registry_to_dict{i}, sub_conversion=tag_to_str{i}))
deserializer(Conversion(registry_from_dict{i}, sub_conversion=tag_from_str{i}))

class Port{i}:
    def __init__(self, n): self.n = n
def port_from_int{i}(n: int) -> Port{i}:
    if not 0 < n < 65536: raise ValueError("not a port")
    return Port{i}(n)
deserializer(port_from_int{i})
class Single{i}:
    def __init__(self, ports: List[Port{i}]):
        if not ports: raise ValueError("no port")
        self.how, self.ports = "ports", ports
deserializer(Conversion(catch_value_error(Single{i}), source=List[Port{i}], target=Single{i}))
class Several{i}:
    def __init__(self, how, ports): self.how, self.ports = how, ports
def several_from_ports{i}(ports: List[Port{i}]) -> Several{i}:
    if not ports: raise ValueError("no port")
    return Several{i}("ports", ports)
def several_from_ints{i}(ports: List[int]) -> Several{i}: return Several{i}("ints", ports)
deserializer(Conversion(catch_value_error(several_from_ports{i}), source=List[Port{i}], target=Several{i}))
deserializer(several_from_ints{i})
'''


def run_part(prop, seed, budget):
    from apischema import deserialize, serialize, ValidationError
    from apischema.json_schema import deserialization_schema, serialization_schema
    from apischema.utils import to_camel_case
    from apischema.fields import fields_set
    import dataclasses
    failures, hist, distinct, n = [], collections.Counter(), set(), 0
    i = f"{seed}"
    ns = vars(build_module(SRC.replace("{i}", i).splitlines(), f"corners8_{prop}_{seed}"))
    g = lambda name: ns[name + i]
    if prop == "C01":
        # mapping keys are built with the key type, whatever the values need (typed image), in every container spelling, with and without no_copy
        from typing import Dict, Mapping, List, Optional
        import uuid
        u = "12345678-1234-5678-1234-567812345678"
        keys = [("enum", g("Color"), "red", g("Color").RED), ("str-subclass", g("Tag"), "x", g("Tag")("x")), ("uuid", uuid.UUID, u, uuid.UUID(u)), ("newtype", g("Name"), "k", "k")]
        vals = [("int", int, 1, 1), ("bool", bool, True, True), ("optional", Optional[int], None, None), ("list", List[str], ["a"], ["a"]), ("dict", Dict[str, int], {"a": 1}, {"a": 1}),
                ("float", float, 1, 1.0), ("object", g("Pt"), {"x": 2}, g("Pt")(2))]
        for (kn, K, kd, kv), (vn, V, vd, vv), M, no_copy in itertools.product(keys, vals, (Dict, Mapping), (True, False)):
            n += 1; distinct.add(case_hash("c8-mapkey", kn, vn, M._name, no_copy)); hist["mapping-key-types:" + kn] += 1
            r = _out(lambda: deserialize(M[K, V], {kd: vd}, no_copy=no_copy))
            ok = r[0] == "ok" and r[1] == {kv: vv} and all(type(k) is type(kv) for k in r[1]) and all(type(x) is type(vv) for x in r[1].values())
            if not ok: _fail(failures, "mapping-key-types", "crash:" + r[1].split(":")[0] if r[0] == "crash" else "mapping-key-not-built-with-the-key-type", key=kn, value=vn, mapping=M._name, no_copy=no_copy, got=r)
        n += 1; hist["mapping-key-types:nested"] += 1
        r = _out(lambda: deserialize(g("Palette"), {"weights": {"blue": ["a", "b"]}}))
        if r != ("ok", g("Palette")({g("Color").BLUE: ["a", "b"]})): _fail(failures, "mapping-key-types", "mapping-key-not-built-with-the-key-type", where="field of a dataclass", got=r)
        r = _out(lambda: deserialize(Dict[g("Color"), int], {"green": 1}))
        if r[0] != "invalid": _fail(failures, "mapping-key-types", "invalid-key-accepted", got=r)
    if prop == "C02":
        # fall_back_on_default concerns fields that have a default: on a class without any, the errors are those reported without the option (aggregate fields included)
        asrc = ["from dataclasses import dataclass, field", "from typing import *", "from apischema.metadata import flatten, properties, fall_back_on_default", "",
                "@dataclass", f"class AIn{i}:", "    b: int", "    c: int", "",
                "@dataclass", f"class AFl{i}:", "    a: int", f"    inner: AIn{i} = field(metadata=flatten)", "",
                "@dataclass", f"class APa{i}:", "    a: int", "    pats: Dict[str, int] = field(metadata=properties(pattern=r'^p_'))", "",
                "@dataclass", f"class AAd{i}:", "    a: int", "    rest: Dict[str, int] = field(metadata=properties)", "",
                "@dataclass", f"class AFb{i}:", "    a: int", f"    inner: AIn{i} = field(metadata=flatten | fall_back_on_default)", ""]
        ag = vars(build_module(asrc, f"corners8agg_{seed}"))
        cases = [(f"AFl{i}", {"a": "x", "b": "y"}), (f"AFl{i}", {"a": 1, "b": "y", "c": 2}), (f"AFl{i}", {"a": 1, "c": None}), (f"APa{i}", {"a": "x", "p_1": "y", "p_2": 2}), (f"APa{i}", {"a": 1, "p_1": []}),
                 (f"AAd{i}", {"a": "x", "k": "y"}), (f"AAd{i}", {"a": 1, "k": None, "l": 1}), (f"AFb{i}", {"a": 1, "b": "y", "c": 2}), (f"AFl{i}", {"a": 1, "b": 1, "c": 2})]
        for tn, d in cases:
            n += 1; distinct.add(case_hash("c8-required-aggregate", tn, repr(d))); hist["required-aggregate-under-fall-back"] += 1
            ref = _out(lambda: deserialize(ag[tn], d)); got = _out(lambda: deserialize(ag[tn], d, fall_back_on_default=True))
            canon = lambda r: (r[0], sorted(map(repr, r[1])) if r[0] == "invalid" else r[1])
            if canon(ref) != canon(got): _fail(failures, "required-aggregate-under-fall-back", "crash:" + got[1].split(":")[0] if got[0] == "crash" else "errors-of-a-required-field-lost-under-fall_back_on_default", type=tn, datum=d, got=got, expected=ref)
    if prop == "C19":
        # a generic class published specialised: the resolvers that mention the type variable are typed like the plain field that does, and execute like serialize
        import graphql
        from apischema.graphql import graphql_schema
        gsrc = ["from dataclasses import dataclass", "from typing import *", "from apischema import type_name", "from apischema.graphql import resolver", "", "T = TypeVar('T')", "CALLS = []",
                "@dataclass", f"class GItem{i}:", "    label: str", "    weight_kg: int", "",
                f"@type_name(graphql=lambda cls, arg: arg.__name__.capitalize() + 'Box{i}')", "@dataclass", f"class GBox{i}(Generic[T]):", "    content: T",
                "    @resolver", "    def unwrap(self) -> T: return self.content",
                "    @resolver", "    def pick(self, among: List[T]) -> Optional[T]:", "        CALLS.append(among)", "        return self.content if self.content in among else None", "",
                f"def int_box() -> GBox{i}[int]: return GBox{i}(3)", f"def item_box() -> GBox{i}[GItem{i}]: return GBox{i}(GItem{i}('anvil', 50))", ""]
        gg = vars(build_module(gsrc, f"corners8gql_{seed}"))
        r = _out(lambda: graphql_schema(query=[gg["int_box"], gg["item_box"]]))
        n += 1; distinct.add(case_hash("c8-generic-resolvers", "schema")); hist["resolvers-of-a-specialised-generic-class"] += 1
        if r[0] != "ok" or graphql.validate_schema(r[1]): _fail(failures, "resolvers-of-a-specialised-generic-class", "crash:" + str(r[1]).split(":")[0] if r[0] != "ok" else "schema-invalid", got=str(r[1])[:200])
        else:
            sch = r[1]
            for box in (f"IntBox{i}", f"Gitem{i}Box{i}"):
                n += 1; distinct.add(case_hash("c8-generic-resolvers", box)); hist["resolvers-of-a-specialised-generic-class"] += 1
                tm = sch.type_map.get(box)
                if tm is None: _fail(failures, "resolvers-of-a-specialised-generic-class", "specialisation-not-published-under-its-name", name=box, types=sorted(k for k in sch.type_map if "Box" in k)); continue
                c_, u_, p_ = (str(tm.fields[k].type) for k in ("content", "unwrap", "pick"))
                if u_ != c_ or p_ + "!" != c_: _fail(failures, "resolvers-of-a-specialised-generic-class", "resolver-not-typed-by-the-specialisation", box=box, content=c_, unwrap=u_, pick=p_)
                el = str(tm.fields["pick"].args["among"].type)
                if "JSON" in el or "JSON" in sch.type_map: _fail(failures, "resolvers-of-a-specialised-generic-class", "resolver-argument-not-typed-by-the-specialisation", box=box, among=el)
            n += 1; hist["resolvers-of-a-specialised-generic-class"] += 1
            res = graphql.graphql_sync(sch, "{intBox{content unwrap pick(among: [1, 3])}}")
            if res.errors or res.data != {"intBox": {"content": 3, "unwrap": 3, "pick": 3}}: _fail(failures, "resolvers-of-a-specialised-generic-class", "execution-differs-from-serialize", errors=[str(e) for e in res.errors or []][:2], data=res.data)
            gg["CALLS"].clear()
            res = graphql.graphql_sync(sch, '{intBox{pick(among: ["a"])}}')
            if not res.errors or gg["CALLS"]: _fail(failures, "resolvers-of-a-specialised-generic-class", "invalid-argument-reached-the-resolver", errors=[str(e) for e in res.errors or []][:2], calls=repr(gg["CALLS"]))
    if prop == "C08":
        import json as _json, uuid
        from typing import List, Optional, Any
        from apischema import PassThroughOptions, serialization_default, serialization_method
        # a dynamic conversion at a position decides the image there, whether or not the type is named in PassThroughOptions (serialization_default completes the rest)
        psrc = ["from dataclasses import dataclass, field", "from typing import *", "from uuid import UUID", "from apischema.metadata import conversion", "",
                "def uuid_hex(v: UUID) -> str: return v.hex", "def uuid_int(v: UUID) -> int: return v.int", "",
                "@dataclass", f"class Res{i}:", "    id: UUID", "    owner: UUID = field(metadata=conversion(serialization=uuid_hex))",
                "    parents: List[UUID] = field(default_factory=list, metadata=conversion(serialization=uuid_int))",
                "    previous: Optional[UUID] = field(default=None, metadata=conversion(serialization=uuid_hex))", "",
                "@dataclass", f"class Ev{i}:", "    name: str", "    payload: Any = None", "    maybe: Optional[Any] = None", "",
                f"class EvNT{i}(NamedTuple):", "    name: str", "    payload: Any = None", ""]
        pg = vars(build_module(psrc, f"corners8pt_{seed}"))
        U1, U2, U3 = uuid.UUID("12345678-1234-5678-1234-567812345678"), uuid.UUID(int=255), uuid.UUID(int=2 ** 127 + 1)
        Res = pg[f"Res{i}"]; res = Res(U1, U2, [U3, U2], U3)
        completed = lambda v, **kw: _json.loads(_json.dumps(v, default=serialization_default(**kw)))
        for tp, obj, kw in ((Res, res, {}), (List[Res], [res, Res(U2, U1)], {}), (uuid.UUID, U1, {"conversion": pg["uuid_hex"]}), (List[uuid.UUID], [U1, U2], {"conversion": pg["uuid_int"]})):
            ref = _out(lambda: serialize(tp, obj, **kw))
            for pi, pt in enumerate((PassThroughOptions(types={uuid.UUID}), PassThroughOptions(types=(uuid.UUID,), collections=True), PassThroughOptions(types=lambda t: t is uuid.UUID),
                                     PassThroughOptions(types={uuid.UUID}, dataclasses=True, any=True))):
                for no_copy, pre in itertools.product((True, False), (False, True)):
                    n += 1; distinct.add(case_hash("c8-pt-dynamic", repr(tp), pi, no_copy, pre)); hist["pass-through-next-to-a-dynamic-conversion"] += 1
                    got = _out(lambda: completed(serialization_method(tp, pass_through=pt, no_copy=no_copy, **kw)(obj) if pre else serialize(tp, obj, pass_through=pt, no_copy=no_copy, **kw)))
                    if ref[0] != "ok" or got != ref: _fail(failures, "pass-through-next-to-a-dynamic-conversion", "crash:" + got[1].split(":")[0] if got[0] == "crash" else "pass-through-changes-the-result", type=repr(tp), options=pi, no_copy=no_copy, precomputed=pre, got=got, expected=ref)
        # no_copy=False: a value of an Any position is a copy, in every kind of object (field-by-field and fast paths alike)
        for tn in (f"Ev{i}", f"EvNT{i}"):
            for key, val in (("payload", [1, [2]]), ("payload", {"a": [1]}), ("maybe", [1])):
                if key == "maybe" and tn.startswith("EvNT"): continue
                for override in (False, True):
                    from apischema import settings as _st
                    n += 1; distinct.add(case_hash("c8-any-copy", tn, key, repr(val), override)); hist["any-position-copied-without-no_copy"] += 1
                    d = {"name": "n", key: val}; before = copy_ = _json.loads(_json.dumps(d))
                    old_ = _st.deserialization.override_dataclass_constructors; _st.deserialization.override_dataclass_constructors = override
                    try: r = _out(lambda: deserialize(pg[tn], d, no_copy=False))
                    finally: _st.deserialization.override_dataclass_constructors = old_
                    if r[0] != "ok": _fail(failures, "any-position-copied-without-no_copy", "crash:" + str(r[1]).split(":")[0], type=tn, datum=d); continue
                    v = getattr(r[1], key)
                    if v is d[key] or v != before[key] or d != before: _fail(failures, "any-position-copied-without-no_copy", "result-shares-a-container-with-the-input", type=tn, datum=d, override_dataclass_constructors=override)
    if prop == "C15":
        from apischema.fields import unset_fields
        from apischema.dataclasses import replace
        # exactly the set fields are emitted, aggregate fields (flattened / pattern / additional properties) included - the reference is fields_set, in plain Python
        qsrc = ["from dataclasses import dataclass, field", "from typing import *", "from apischema.fields import with_fields_set", "from apischema.metadata import flatten, properties", "",
                "@dataclass", f"class Paging{i}:", "    offset: int = 0", "    limit: int = 20", "",
                "@with_fields_set", "@dataclass", f"class Query{i}:", "    text: str", "    lang: str = 'en'", f"    paging: Paging{i} = field(default_factory=Paging{i}, metadata=flatten)",
                "    pats: Dict[str, int] = field(default_factory=dict, metadata=properties(pattern=r'^p_'))", "    extra: Dict[str, int] = field(default_factory=dict, metadata=properties)", ""]
        qg = vars(build_module(qsrc, f"corners8fs_{seed}")); Q, Pg = qg[f"Query{i}"], qg[f"Paging{i}"]
        def image(q, exclude_unset=True):
            fs = fields_set(q); out = {}
            for name in ("text", "lang"):
                if not exclude_unset or name in fs: out[name] = getattr(q, name)
            if not exclude_unset or "paging" in fs: out.update({"offset": q.paging.offset, "limit": q.paging.limit})
            for name in ("pats", "extra"):
                if not exclude_unset or name in fs: out.update(getattr(q, name))
            return out
        q1 = Q("foo"); q2 = Q("foo", paging=Pg(10, 5)); q2.extra = {"x": 1}; q3 = replace(q1, lang="fr"); q4 = deserialize(Q, {"text": "bar", "limit": 3, "y": 2, "p_a": 1}); q5 = deserialize(Q, {"text": "bar", "limit": 3, "y": 2}); unset_fields(q5, "paging", "extra")
        q6 = Q("foo", pats={"p_z": 1})
        for label, q in (("constructor", q1), ("constructor-and-assignment", q2), ("replace", q3), ("deserialized", q4), ("deserialized-then-unset", q5), ("pattern-field-given", q6)):
            for eu in (True, False):
                n += 1; distinct.add(case_hash("c8-fs-aggregate", label, eu)); hist["unset-aggregate-fields"] += 1
                r = _out(lambda: serialize(Q, q, exclude_unset=eu)); want = image(q, eu)
                if r != ("ok", want): _fail(failures, "unset-aggregate-fields", "crash:" + str(r[1]).split(":")[0] if r[0] == "crash" else "emitted-fields-differ-from-fields_set", how=label, exclude_unset=eu, fields_set=sorted(fields_set(q)), got=r, expected=want)
    if prop == "C07":
        import jsonschema
        from apischema import settings as _st
        # members ordered after / before a serialized method that has an alias of its own; every emitted key is declared, with and without an aliaser
        msrc = ["from dataclasses import dataclass, field", "from typing import *", "from apischema import order, serialized", "",
                "@dataclass", f"class Rect{i}:", "    width: int", "    height: int",
                "    @serialized('surface')", "    def area(self) -> int: return self.width * self.height",
                "    unit: str = field(default='m', metadata=order(after='area'))",
                "    scale: int = field(default=1, metadata=order(before='area'))",
                "    @serialized", "    @property", "    def perimeter(self) -> int: return 2 * (self.width + self.height)", "",
                "@order({'label': order(after='checksum')})", "@dataclass", f"class Blob{i}:", "    payload: str",
                "    @serialized(alias='crc')", "    def checksum(self) -> int: return sum(map(ord, self.payload)) % 251",
                "    @serialized", "    def label(self) -> str: return self.payload.upper()", "",
                f"class TDx{i}(TypedDict):", "    a: int", ""]
        mg = vars(build_module(msrc, f"corners8ser_{seed}"))
        for tn, v in ((f"Rect{i}", mg[f"Rect{i}"](2, 3)), (f"Blob{i}", mg[f"Blob{i}"]("ab"))):
            for al in (None, str.upper, to_camel_case):
                kw = {"aliaser": al} if al else {}
                n += 1; distinct.add(case_hash("c8-aliased-method-order", tn, getattr(al, "__name__", None))); hist["members-ordered-around-an-aliased-method"] += 1
                sc = _out(lambda: serialization_schema(mg[tn], **kw)); d = _out(lambda: serialize(mg[tn], v, **kw))
                if sc[0] != "ok" or d[0] != "ok": _fail(failures, "members-ordered-around-an-aliased-method", "crash:" + str((sc if sc[0] != "ok" else d)[1]).split(":")[0], type=tn); continue
                errs = [e.message for e in jsonschema.Draft202012Validator(sc[1]).iter_errors(d[1])]
                if errs or list(sc[1].get("properties", {})) != list(d[1]):
                    _fail(failures, "members-ordered-around-an-aliased-method", "serialized-data-rejected-by-the-schema" if errs else "declared-properties-differ-from-the-emitted-keys", type=tn, aliaser=getattr(al, "__name__", None), data=d[1], properties=list(sc[1].get("properties", {})), errors=errs[:2])
        # the effective additional_properties (explicit argument, else the global setting) is the same for serialize and for the schema
        TD = mg[f"TDx{i}"]; val = [{"a": 1, "zz": 2}]
        from typing import List
        for glob, expl in itertools.product((False, True), (None, False, True)):
            n += 1; distinct.add(case_hash("c8-effective-ap", glob, expl)); hist["effective-additional-properties"] += 1
            eff = glob if expl is None else expl
            kw = {} if expl is None else {"additional_properties": expl}
            old_ = _st.additional_properties; _st.additional_properties = glob
            try: sc = _out(lambda: serialization_schema(List[TD], **kw)); d = _out(lambda: serialize(List[TD], val, **kw))
            finally: _st.additional_properties = old_
            if sc[0] != "ok" or d[0] != "ok": _fail(failures, "effective-additional-properties", "crash:" + str((sc if sc[0] != "ok" else d)[1]).split(":")[0], setting=glob, argument=expl); continue
            errs = [e.message for e in jsonschema.Draft202012Validator(sc[1]).iter_errors(d[1])]
            if errs or d[1] != ([{"a": 1, "zz": 2}] if eff else [{"a": 1}]):
                _fail(failures, "effective-additional-properties", "serialized-data-rejected-by-the-schema" if errs else "additional-keys-not-following-the-effective-option", setting=glob, argument=expl, data=d[1], errors=errs[:2])
    if prop == "C04":
        # the image of a field is the image of its value under the same options, at any depth: every option of serialize reaches nested objects
        A, P = g("Address"), g("Person")
        a1 = A("Paris"); a2 = A("Lyon", country="FR"); a3 = A("Rome", zip_code=None, country="IT", street_name="via")
        person = P("Ann", a1, [a2, a3], {"home": a1, "work": a3}, a2)
        for eu, en, ed, al in itertools.product((None, True, False), (None, True, False), (None, True, False), (None, to_camel_case, str.upper)):
            opts = {k: v for k, v in (("exclude_unset", eu), ("exclude_none", en), ("exclude_defaults", ed), ("aliaser", al)) if v is not None}
            n += 1; distinct.add(case_hash("c8-nested-options", eu, en, ed, getattr(al, "__name__", None))); hist["options-reach-nested-objects"] += 1
            A_ = al or (lambda s: s)
            def inner(x): return serialize(A, x, **opts)
            r = _out(lambda: serialize(P, person, **opts))
            want = _out(lambda: {A_("name"): "Ann", A_("address"): inner(a1), A_("previous"): [inner(a2), inner(a3)], A_("by_kind"): {"home": inner(a1), "work": inner(a3)}, A_("maybe"): inner(a2)})
            if r != want: _fail(failures, "options-reach-nested-objects", "crash:" + r[1].split(":")[0] if r[0] == "crash" else "nested-object-serialized-under-other-options",
                                options={k: getattr(v, "__name__", v) for k, v in opts.items()}, got=r, expected=want)
        # and the top-level reference itself: exactly the set fields (plain Python: fields_set), None dropped on request
        for x in (a1, a2, a3):
            for eu, en in itertools.product((True, False), (True, False)):
                n += 1; hist["options-reach-nested-objects:reference"] += 1
                want = {f.name: getattr(x, f.name) for f in dataclasses.fields(x) if (not eu or f.name in fields_set(x)) and not (en and getattr(x, f.name) is None)}
                r = _out(lambda: serialize(A, x, exclude_unset=eu, exclude_none=en))
                if r != ("ok", want): _fail(failures, "options-reach-nested-objects", "set-fields-not-emitted-exactly", exclude_unset=eu, exclude_none=en, got=r, expected=want)
    if prop == "C06":
        import jsonschema
        def valid(sch, d):
            return jsonschema.Draft202012Validator(sch).is_valid(d)
        # a flattened field under a per-call aliaser (additional properties allowed: the flattened schema with additionalProperties false is finding 9)
        C = g("Customer")
        for al in (None, to_camel_case, str.upper):
            A_ = al or (lambda s: s)
            opts = dict({"additional_properties": True}, **({"aliaser": al} if al else {}))
            for label, d in (("complete", {A_("full_name"): "n", A_("street_name"): "s", A_("zip_code"): "z"}), ("defaulted", {A_("full_name"): "n", A_("street_name"): "s"}),
                             ("missing-inner", {A_("full_name"): "n"}), ("ill-typed-inner", {A_("full_name"): "n", A_("street_name"): 3}), ("other-spelling", {"full_name": "n", "street_name": "s", "fullName": "n", "streetName": 1})):
                n += 1; distinct.add(case_hash("c8-flat-aliaser", getattr(al, "__name__", None), label)); hist["flattened-under-an-aliaser"] += 1
                r = _out(lambda: deserialize(C, d, **opts)); s = _out(lambda: deserialization_schema(C, **opts))
                if r[0] == "crash" or s[0] != "ok": _fail(failures, "flattened-under-an-aliaser", "crash:" + str((r if r[0] == "crash" else s)[1]).split(":")[0], datum=d, got=r); continue
                if (r[0] == "ok") != valid(s[1], d):
                    _fail(failures, "flattened-under-an-aliaser", "deserialize-and-schema-disagree", aliaser=getattr(al, "__name__", None), datum=d, deserialize=r[0], schema_valid=valid(s[1], d))
        # type-level constraints of a generic class through its specialisations
        from typing import List, Optional
        Pa, Rq = g("Patch"), g("Request")
        for tp_name, tp, wrap in (("Patch", Pa, lambda d: d), ("Patch[int]", Pa[int], lambda d: d), ("List[Patch[str]]", List[Pa[str]], lambda d: [d]), ("Optional[Patch[int]]", Optional[Pa[int]], lambda d: d),
                                  ("Request", Rq, lambda d: {"patches": [d]})):
            for d in ({}, {"note": "n"}, {"note": "n", "extra": 1}, {"note": "n", "extra": 1, "value": None}):
                for all_refs in (False, True):
                    n += 1; distinct.add(case_hash("c8-generic-constraints", tp_name, len(d), all_refs)); hist["type-level-schema-of-a-generic-class"] += 1
                    dd = wrap(d)
                    r = _out(lambda: deserialize(tp, dd)); s = _out(lambda: deserialization_schema(tp, all_refs=all_refs))
                    if r[0] == "crash" or s[0] != "ok": _fail(failures, "type-level-schema-of-a-generic-class", "crash:" + str((r if r[0] == "crash" else s)[1]).split(":")[0], type=tp_name, datum=dd); continue
                    if (r[0] == "ok") != valid(s[1], dd):
                        _fail(failures, "type-level-schema-of-a-generic-class", "deserialize-and-schema-disagree", type=tp_name, datum=dd, all_refs=all_refs, deserialize=r[0], schema_valid=valid(s[1], dd))
    if prop == "C12":
        from typing import Dict, List
        # the square of a registered conversion with a sub-conversion commutes under a dynamic conversion of the caller
        Reg, CT, Lv = g("Registry"), g("CTag"), g("Level")
        t2s, s2t, l2i, i2l, r2d, d2r = (ns[x + i] for x in ("tag_to_str", "tag_from_str", "level_to_int", "level_from_int", "registry_to_dict", "registry_from_dict"))
        value = Reg({CT("a"): Lv(1), CT("b"): Lv(2)}); data = {"a": 1, "b": 2}
        checks = [("serialize", lambda: serialize(Reg, value, conversion=l2i), lambda: serialize(Dict[CT, Lv], r2d(value), conversion=(t2s, l2i))),
                  ("serialize-in-a-list", lambda: serialize(List[Reg], [value], conversion=l2i), lambda: [serialize(Dict[CT, Lv], r2d(value), conversion=(t2s, l2i))]),
                  ("deserialize", lambda: deserialize(Reg, data, conversion=i2l), lambda: d2r(deserialize(Dict[CT, Lv], data, conversion=(s2t, i2l)))),
                  ("deserialize-in-a-list", lambda: deserialize(List[Reg], [data], conversion=i2l), lambda: [d2r(deserialize(Dict[CT, Lv], data, conversion=(s2t, i2l)))]),
                  ("serialization-schema", lambda: serialization_schema(Reg, conversion=l2i), lambda: serialization_schema(Dict[CT, Lv], conversion=(t2s, l2i))),
                  ("deserialization-schema", lambda: deserialization_schema(Reg, conversion=i2l), lambda: deserialization_schema(Dict[CT, Lv], conversion=(s2t, i2l)))]
        for label, lhs, rhs in checks:
            n += 1; distinct.add(case_hash("c8-subconv-square", label)); hist["sub-conversion-next-to-a-dynamic-conversion"] += 1
            a, b = _out(lhs), _out(rhs)
            if b[0] != "ok" or a != b: _fail(failures, "sub-conversion-next-to-a-dynamic-conversion", "crash:" + a[1].split(":")[0] if a[0] == "crash" else "conversion-square-does-not-commute", view=label, got=a, expected=b)
        # deserialize(T, d) = f(deserialize(S, d)): what deserialize(S, d) raises is what deserialize(T, d) raises, one deserializer or several
        Port, Single, Several = g("Port"), g("Single"), g("Several")
        def outc(fn):
            try: return ("value", fn())
            except ValidationError as e: return ("rejected", e.errors)
            except ValueError as e: return ("ValueError", str(e))
            except Exception as e: return ("crash", type(e).__name__)
        for d in ([0], [80, 0], [70000], [], ["a"], [80]):
            n += 1; distinct.add(case_hash("c8-valueerror", repr(d))); hist["value-error-of-the-source-type"] += 1
            src = outc(lambda: deserialize(List[Port], d))
            for T_, nm in ((Single, "one deserializer"), (Several, "several deserializers")):
                got = outc(lambda: deserialize(T_, d))
                if src[0] == "ValueError" and got != src: _fail(failures, "value-error-of-the-source-type", "error-of-the-source-type-swallowed", target=nm, datum=d, got=(got[0], str(got[1])[:80]), source=src)
                if src[0] == "value" and d and not (got[0] == "value" and got[1].how == "ports"): _fail(failures, "value-error-of-the-source-type", "registration-order-not-followed", target=nm, datum=d, got=got[0])
            if d == []:
                got = outc(lambda: deserialize(Several, d))
                if not (got[0] == "value" and got[1].how == "ints"): _fail(failures, "value-error-of-the-source-type", "own-value-error-not-turned-into-a-rejection", datum=d, got=got[0])
                got = outc(lambda: deserialize(Single, d))
                if got != ("rejected", [{"loc": [], "err": "no port"}]): _fail(failures, "value-error-of-the-source-type", "own-value-error-not-turned-into-a-rejection", datum=d, got=got)
    return failures, n, distinct, hist
