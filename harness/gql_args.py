"""C11 on GraphQL operation arguments: an argument has one external name, aliaser(alias or name) - the name published by the
schema is the name the resolver / subscriber reads the value from - for queries, mutations and the three kinds of
subscriptions (event generator alone, with parameters_metadata, with an explicit resolver), whatever the way the alias is given."""
import asyncio, collections, random
from common import build_module, case_hash

PARAMS = ["some_arg", "max_count", "n", "item_id"]
ALIASES = [None, None, "up_to", "someVal", "x_y"]
DYN = {"default-camelCase": None, "identity": (lambda s: s), "custom": (lambda s: "p_" + s)}


def camel(s):
    from apischema.utils import to_camel_case
    return to_camel_case(s)


def run_part(seed, budget):
    import graphql
    from apischema.graphql import graphql_schema
    r = random.Random(seed * 101 + 11)
    failures, hist, distinct, n = [], collections.Counter(), set(), 0
    for i in range(25 * budget):
        ops, src = [], ["from typing import *", "from apischema import alias, schema", "from apischema.graphql import Query, Mutation, Subscription", ""]
        decl = {"query": [], "mutation": [], "subscription": []}
        for j in range(r.randint(2, 5)):
            kind = r.choice(["query", "mutation", "sub", "sub", "sub-resolver"])
            p = r.choice(PARAMS); al = r.choice(ALIASES); how = r.choice(["metadata", "annotated"]) if al else "none"
            fname = f"op{i}_{j}"
            # (a constraint that 0 violates: the argument error raised by the resolver names the argument)
            ptype = f"Annotated[int, alias({al!r}), schema(min=1)]" if how == "annotated" else "Annotated[int, schema(min=1)]"
            md = f", parameters_metadata={{{p!r}: alias({al!r})}}" if how == "metadata" else ""
            if kind in ("query", "mutation"):
                src += [f"def {fname}({p}: {ptype} = 3) -> int:", f"    return {p} * 10", ""]
                wrap = {"query": "Query", "mutation": "Mutation"}[kind]
                decl[kind].append(f"{wrap}({fname}{md})" if md or r.random() < 0.3 else fname)
            elif kind == "sub":
                src += [f"async def {fname}({p}: {ptype} = 3) -> AsyncIterable[int]:", f"    yield {p} * 10", ""]
                decl["subscription"].append(f"Subscription({fname}{md})" if md or r.random() < 0.3 else fname)
            else:
                src += [f"async def {fname}_events({p}: {ptype} = 3) -> AsyncIterable[int]:", f"    yield {p} * 10", "",
                        f"def {fname}_resolver(event: int, {p}: {ptype} = 3) -> int:", f"    return event + {p}", ""]
                decl["subscription"].append(f"Subscription({fname}_events, resolver={fname}_resolver, alias={fname!r}{md})")
            ops.append({"kind": kind, "name": fname, "param": p, "alias": al, "how": how})
        if not decl["query"]:
            src += [f"def q{i}() -> int:", "    return 0", ""]; decl["query"].append(f"q{i}")
        src += [f"DECL = dict(query=[{', '.join(decl['query'])}], mutation=[{', '.join(decl['mutation'])}], subscription=[{', '.join(decl['subscription'])}])"]
        mod = build_module(src, f"gqlargs_{seed}_{i}")
        for dn, dyn in DYN.items():
            al_fn = camel if dyn is None else dyn
            try: schema = graphql_schema(**mod.DECL, **({} if dyn is None else {"aliaser": dyn}))
            except Exception as e:
                failures.append({"kind": "P", "k_ok": True, "part": "gql-args", "src": src, "aliaser": dn, "why": ["graphql_schema-raises:" + type(e).__name__], "info": str(e)[:200]}); continue
            for op in ops:
                n += 1; hist["gql-args:" + op["kind"] + ":" + op["how"]] += 1
                if op["alias"] or dn != "identity": distinct.add(case_hash("gqlargs", op, dn))
                root = {"query": "Query", "mutation": "Mutation", "sub": "Subscription", "sub-resolver": "Subscription"}[op["kind"]]
                fname = al_fn(op["name"]); want = al_fn(op["alias"] or op["param"])
                why, info = [], {}
                try:
                    published = sorted(schema.type_map[root].fields[fname].args)
                    if published != [want]: why.append("argument-name-in-the-schema-is-not-the-external-name"); info.update(published=published, expected=[want])
                    else:
                        word = {"query": "query", "mutation": "mutation"}.get(op["kind"], "subscription")
                        q = "%s { %s(%s: 4) }" % (word, fname, want)
                        exp = 44 if op["kind"] == "sub-resolver" else 40
                        if word == "subscription":
                            async def go():
                                doc = graphql.parse(q); errs = graphql.validate(schema, doc)
                                if errs: return "INVALID " + str(errs[0])[:100]
                                res = await graphql.subscribe(schema, doc)
                                if isinstance(res, graphql.ExecutionResult): return "ERROR " + str(res.errors)[:100]
                                return [(x.data, str(x.errors)[:100] if x.errors else None) async for x in res]
                            got = asyncio.run(go()); expd = [({fname: exp}, None)]
                        else:
                            res = graphql.graphql_sync(schema, q); got = (res.data, str(res.errors)[:100] if res.errors else None); expd = ({fname: exp}, None)
                        if got != expd: why.append("value-given-under-the-published-name-is-not-received"); info.update(query=q, got=repr(got)[:300], expected=repr(expd))
                        elif word != "subscription":
                            # an invalid value under the published name: the error is located at the published name
                            res = graphql.graphql_sync(schema, "%s { %s(%s: 0) }" % (word, fname, want))
                            msg = str(res.errors[0].message) if res.errors else ""
                            if ("'loc': [%r]" % want) not in msg: why.append("argument-error-not-located-at-the-published-name"); info.update(error=msg[:200], expected_loc=[want])
                except Exception as e: why.append("raises:" + type(e).__name__); info["msg"] = str(e)[:200]
                if why:
                    failures.append({"kind": "P", "k_ok": True, "part": "gql-args", "src": src, "op": op, "aliaser": dn, "why": why, "info": info})
    return failures, n, distinct, hist
