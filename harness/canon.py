"""Canonical forms of real results: values with runtime classes, error lists as rule kinds, crashes."""
import re, enum, dataclasses, json
from gen import flt_proto, lit_proto, num_proto

def val_proto(v):
    if v is None: return ["n"]
    if isinstance(v, enum.Enum): return ["enum", type(v).__name__, v.name]
    if isinstance(v, bool): return ["b", v]
    if isinstance(v, int): return ["i", str(v)]
    if isinstance(v, float): return ["f", flt_proto(v)]
    if isinstance(v, str): return ["s", v]
    if dataclasses.is_dataclass(v) and not isinstance(v, type):
        return ["obj", type(v).__name__, [[f.name, val_proto(getattr(v, f.name))] for f in dataclasses.fields(v)]]
    if isinstance(v, tuple) and hasattr(v, "_fields"):
        return ["obj", type(v).__name__, [[n, val_proto(getattr(v, n))] for n in v._fields]]
    if isinstance(v, list): return ["l", [val_proto(x) for x in v]]
    if isinstance(v, tuple): return ["t", [val_proto(x) for x in v]]
    if isinstance(v, frozenset): return ["fset", sorted((val_proto(x) for x in v), key=json.dumps)]
    if isinstance(v, set): return ["set", sorted((val_proto(x) for x in v), key=json.dumps)]
    if isinstance(v, dict): return ["d", sorted(([val_proto(k), val_proto(x)] for k, x in v.items()), key=json.dumps)]
    return ["o", type(v).__name__]

def canon_model_val(v):
    """sort set contents and dict items of a model value (Python `==` ignores both orders)"""
    tag = v[0]
    if tag in ("l", "t"): return [tag, [canon_model_val(x) for x in v[1]]]
    if tag in ("set", "fset"): return [tag, sorted((canon_model_val(x) for x in v[1]), key=json.dumps)]
    if tag == "d": return [tag, sorted(([canon_model_val(k), canon_model_val(x)] for k, x in v[1]), key=json.dumps)]
    if tag == "obj": return [tag, v[1], [[n, canon_model_val(x)] for n, x in v[2]]]
    return v

TEMPLATES = {
    "minimum": "less than {} (minimum)", "maximum": "greater than {} (maximum)",
    "exclusive_minimum": "less than or equal to {} (exclusiveMinimum)",
    "exclusive_maximum": "greater than or equal to {} (exclusiveMinimum)",
    "multiple_of": "not a multiple of {} (multipleOf)",
    "min_length": "string length lower than {} (minLength)", "max_length": "string length greater than {} (maxLength)",
    "pattern": "not matching pattern {} (pattern)",
    "min_items": "item count lower than {} (minItems)", "max_items": "item count greater than {} (maxItems)",
    "unique_items": "duplicate items (uniqueItems)",
    "min_properties": "property count lower than {} (minProperties)", "max_properties": "property count greater than {} (maxProperties)",
    "one_of": "not one of {} (oneOf)",
}
def _compile(tpl):
    parts = tpl.split("{}")
    return re.compile("^" + "(.*)".join(map(re.escape, parts)) + "$", re.S)
RULES = [(k, _compile(t)) for k, t in TEMPLATES.items()]
JSON_NAMES = {"null", "boolean", "integer", "number", "string", "array", "object"}
RE_TYPE = re.compile(r"^expected type (\w+), found (\w+)$")
RE_REQ = re.compile(r"^missing property \(required by (\[.*\])\)$")

def parse_param(kind, s):
    import ast
    if kind in ("min_length", "max_length", "min_items", "max_items", "min_properties", "max_properties"): return int(s)
    if kind == "pattern": return s
    if kind == "one_of":
        return [lit_proto(v.value if isinstance(v, enum.Enum) else v) for v in eval(s, {"nan": float("nan"), "inf": float("inf")})]
    v = ast.literal_eval(s) if s not in ("nan", "inf", "-inf") else float(s)
    return num_proto(v)

def rule_proto(msg):
    m = RE_TYPE.match(msg)
    if m: return ["type", m.group(1), m.group(2) if m.group(2) in JSON_NAMES else None]
    if msg == "missing property": return ["missing"]
    if msg == "unexpected property": return ["unexpected"]
    m = RE_REQ.match(msg)
    if m: return ["missing_required_by", eval(m.group(1))]
    for kind, rx in RULES:
        m = rx.match(msg)
        if m:
            try: return [kind] + ([parse_param(kind, m.group(1))] if m.groups() else [])
            except Exception: break
    return ["unknown", msg]

def canon_errors(errs):
    """`expected type` messages at one location are compared as a multiset: `LiteralMethod` lists
    the classes in `set` order, which depends on object addresses"""
    out, i = [], 0
    while i < len(errs):
        j = i
        while j < len(errs) and errs[j][0] == errs[i][0] and errs[j][1][0] == "type" and errs[i][1][0] == "type": j += 1
        if j > i + 1: out += sorted(errs[i:j], key=json.dumps); i = j
        else: out.append(errs[i]); i += 1
    # `Literal` types that differ only in the order of their values are one cache key for `typing`,
    # so the order of the values listed by a `oneOf` message is that of whichever was compiled first
    return [[p, ["one_of", sorted(r[1], key=json.dumps)]] if r[0] == "one_of" else [p, r] for p, r in out]

def errors_proto(errors):
    return canon_errors([[list(e["loc"]), rule_proto(e["err"])] for e in errors])
