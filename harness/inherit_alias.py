"""C11 on inherited field validators: the error of `@validator(field)` declared in a base class is located, for a subclass, at the key the subclass
*consumes* for that field - the subclass may rename the field (`alias` in a redeclaration), have a class aliaser of its own, or lack the base's.  The consumed
key is found by probing (the one key with which a valid value is accepted), so the oracle does not restate the naming rule; both validation paths are
exercised (all fields valid: real object; another field invalid: mock), with and without a dynamic aliaser."""
import collections, random
from common import build_module, case_hash

CLASS_AL = [None, "str.upper", "lambda s: 'c_' + s"]


def run_part(seed, budget):
    from apischema import deserialize, serialize, ValidationError
    r = random.Random(seed * 211 + 19)
    failures, hist, distinct, n = [], collections.Counter(), set(), 0
    src = ["from dataclasses import dataclass, field", "from typing import *", "from apischema import alias, validator", ""]
    specs = []
    for i in range(12 * budget):
        base_al = r.choice(CLASS_AL); sub_al = r.choice(CLASS_AL); rename = r.choice([None, None, "renamed"]); base_field_alias = r.choice([None, "fa"])
        md = f", metadata=alias({base_field_alias!r})" if base_field_alias else ""
        src += ([f"@alias({base_al})"] if base_al else []) + ["@dataclass", f"class IB{i}:", f"    my_field: int = field(default=0{md})", "    other: int = 0",
                "    @validator(my_field)", "    def check(self):", "        if self.my_field < 0: yield 'neg'", ""]
        src += ([f"@alias({sub_al})"] if sub_al else []) + ["@dataclass", f"class IS{i}(IB{i}):"] + \
               ([f"    my_field: int = field(default=0, metadata=alias({rename!r}))"] if rename else ["    extra: int = 0"]) + [""]
        specs.append((i, base_al, sub_al, rename, base_field_alias))
    ns = vars(build_module(src, f"inhalias{seed}"))
    dyn = {"none": None, "pre": (lambda s: "d_" + s)}
    for i, base_al, sub_al, rename, bfa in specs:
        for cname in (f"IB{i}", f"IS{i}"):
            cls = ns[cname]
            for dn, al in dyn.items():
                kw = {} if al is None else {"aliaser": al}
                # the keys the class publishes (serialization view), and among them the one consumed for my_field / other
                keys = list(serialize(cls, cls(), **kw))
                def consumed(name_hint):
                    good = [k for k in keys if _accepts(deserialize, ValidationError, cls, {k: 7}, kw) and _field_of(deserialize, cls, k, kw) == name_hint]
                    return good[0] if len(good) == 1 else None
                kf, ko = consumed("my_field"), consumed("other")
                n += 1; distinct.add(case_hash("inhalias", base_al, sub_al, rename, bfa, cname, dn)); hist["inherited-validator:" + ("sub" if cname.startswith("IS") else "base")] += 1
                if kf is None or ko is None:
                    failures.append({"kind": "P", "k_ok": None, "part": "inherited-validators", "features": ["validator", "inheritance"], "py": cname, "why": ["no-single-key-consumed-for-the-field"], "keys": keys}); continue
                for path, datum in (("object", {kf: -1}), ("mock", {kf: -1, ko: "x"})):
                    try: deserialize(cls, datum, **kw); got = None
                    except ValidationError as e: got = [x["loc"] for x in e.errors if x["err"] == "neg"]
                    except Exception as e: got = "EXC:" + type(e).__name__
                    if got != [[kf]]:
                        failures.append({"kind": "P", "k_ok": None, "part": "inherited-validators", "features": ["validator", "inheritance"], "py": cname, "path": path, "dynamic_aliaser": dn,
                                         "class_aliasers(base,sub)": [base_al, sub_al], "renamed_in_subclass": rename, "base_field_alias": bfa, "datum": repr(datum),
                                         "consumed_key": kf, "validator_error_locs": got, "why": ["validator-error-not-located-at-the-consumed-key"]})
    return failures, n, distinct, hist


def _accepts(deserialize, VE, cls, d, kw):
    try: deserialize(cls, d, **kw); return True
    except VE: return False


def _field_of(deserialize, cls, k, kw):
    v = deserialize(cls, {k: 7}, **kw)
    return next((f for f in ("my_field", "other", "extra") if getattr(v, f, 0) == 7), None)
