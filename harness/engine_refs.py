"""refs engine (C17).
K: $defs keys and $ref occurrences (document order) of the real schemas vs the type-graph model, on generated graphs of
   dataclasses (shared, nested, recursive), both builders, all_refs on / off.
P (real code alone): generation terminates; the output is valid against the meta-schema of the dialect it declares; every
   $ref resolves to an emitted definition; with all_refs=False exactly the names used more than once (or recursive) are
   extracted and with all_refs=True every named type; definitions_schema returns the inline definitions; two distinct
   classes sharing a type name are refused."""
import sys, os, json, random, collections
HERE = os.path.dirname(os.path.abspath(__file__)); sys.path.insert(0, HERE)
from common import model, build_module, case_hash
from gen import Gen, Pool


def gen_graph(rnd, gi):
    k = rnd.randint(1, 5); names = [f"G{gi}_{i}" for i in range(k)]
    def ty(depth=0):
        r = rnd.random()
        if r < 0.25 or depth > 2: return ("leaf", rnd.choice(["int", "str"]))
        if r < 0.6: return ("ref", rnd.choice(names))
        if r < 0.75: return ("list", ty(depth + 1))
        if r < 0.9: return ("opt", ("ref", rnd.choice(names)))
        return ("tuple", [ty(depth + 1) for _ in range(rnd.randint(1, 2))])
    classes = {n: [ty() for _ in range(rnd.randint(0, 3))] for n in names}
    root = rnd.choice([("ref", names[0]), ("list", ("ref", names[0])), ("tuple", [("ref", rnd.choice(names)), ("ref", rnd.choice(names))])])
    return names, classes, root


def py(t):
    k = t[0]
    if k == "leaf": return t[1]
    if k == "ref": return t[1]
    if k == "list": return f"List[{py(t[1])}]"
    if k == "opt": return f"Optional[{py(t[1])}]"
    return "Tuple[" + ", ".join(py(x) for x in t[1]) + "]"


def tyg(t):
    k = t[0]
    if k == "leaf": return ["leaf"]
    if k == "ref": return ["ref", t[1]]
    if k == "list": return ["node", [tyg(t[1])]]
    if k == "opt": return ["node", [tyg(t[1]), ["leaf"]]]
    return ["node", [tyg(x) for x in t[1]]]


def occurrences(t, acc):
    k = t[0]
    if k == "ref": acc[t[1]] += 1
    elif k in ("list", "opt"): occurrences(t[1], acc)
    elif k == "tuple":
        for x in t[1]: occurrences(x, acc)


def spec_defs(names, classes, root, all_refs):
    """independent specification: reachable names; extracted = all reachable (all_refs) or those with in-degree
    (with multiplicity, over the root and the bodies of reachable names) > 1"""
    reach, todo = [], []
    acc = collections.Counter(); occurrences(root, acc); todo = list(acc)
    while todo:
        n = todo.pop()
        if n in reach: continue
        reach.append(n); a = collections.Counter()
        for f in classes[n]: occurrences(f, a)
        todo += list(a)
    indeg = collections.Counter(); occurrences(root, indeg)
    for n in reach:
        for f in classes[n]: occurrences(f, indeg)
    return sorted(n for n in reach if all_refs or indeg[n] > 1)


def refs_in(j, prefix_keys=("$defs", "definitions")):
    out = []
    if isinstance(j, dict):
        for k, v in j.items():
            if k == "$ref": out.append(v.rsplit("/", 1)[1])
            elif k not in prefix_keys: out += refs_in(v)
    elif isinstance(j, list):
        for v in j: out += refs_in(v)
    return out


def src_of(names, classes):
    src = []
    for c in names:
        src += ["@dataclass", f"class {c}:"] + ([f"    f{i}: {py(t)}" for i, t in enumerate(classes[c])] or ["    pass"]) + [""]
    return src


HEADER = ["from __future__ import annotations", "from dataclasses import dataclass", "from typing import *", ""]


def observe(tp, all_refs, view, version=None):
    from apischema.json_schema import deserialization_schema, serialization_schema
    fn = deserialization_schema if view == "deser" else serialization_schema
    kw = {} if version is None else {"version": version}
    lim = sys.getrecursionlimit(); sys.setrecursionlimit(2000)
    try: return fn(tp, all_refs=all_refs, **kw)
    finally: sys.setrecursionlimit(lim)


def meta_valid(schema):
    """valid against the meta-schema of the dialect it declares"""
    import jsonschema
    url = schema.get("$schema", "")
    V = {"http://json-schema.org/draft/2020-12/schema#": jsonschema.Draft202012Validator,
         "http://json-schema.org/draft/2019-09/schema#": jsonschema.Draft201909Validator,
         "https://json-schema.org/draft/2020-12/schema": jsonschema.Draft202012Validator,
         "https://json-schema.org/draft/2019-09/schema": jsonschema.Draft201909Validator,
         "http://json-schema.org/draft-07/schema#": jsonschema.Draft7Validator}.get(url)
    if V is None: return None, "unknown $schema " + url
    try: V.check_schema(schema); return True, ""
    except Exception as e: return False, str(e)[:200]


def run(prop, seed, budget, ctx):
    from apischema.json_schema import definitions_schema, deserialization_schema, JsonSchemaVersion
    rnd = random.Random(seed); n = 250 * budget
    graphs = [gen_graph(rnd, i) for i in range(n)]
    src = list(HEADER)
    for names, classes, root in graphs: src += src_of(names, classes)
    mod = build_module(src, f"refs{seed}"); ns = dict(vars(mod))
    reqs, meta, failures, hist, distinct, samples = [], [], [], collections.Counter(), set(), []
    evaluations = 0
    for names, classes, root in graphs:
        tp = eval(py(root), ns)
        for all_refs in (False, True):
            for view in ("deser", "ser"):
                evaluations += 1
                case = {"src": src_of(names, classes), "root": py(root), "all_refs": all_refs, "view": view,
                        "graph": {c: [py(t) for t in classes[c]] for c in names}}
                why = []
                try: s = observe(tp, all_refs, view)
                except RecursionError: s = None; why.append("schema-generation-does-not-terminate")
                except Exception as e: s = None; why.append("schema-generation-raises:" + type(e).__name__)
                r = None
                if s is not None:
                    defs = s.get("$defs", {})
                    r = {"main": refs_in(s), "defs": sorted([k, refs_in(v)] for k, v in defs.items())}
                    dangling = [x for x in r["main"] + [y for _, ys in r["defs"] for y in ys] if x not in defs]
                    if dangling: why.append("dangling-$ref:" + ",".join(sorted(set(dangling))))
                    want = spec_defs(names, classes, root, all_refs)
                    if sorted(defs) != want: why.append("extracted-definitions-differ-from-the-rule"); case["expected_defs"] = want
                    ok, msg = meta_valid(s)
                    if ok is not True: why.append("invalid-against-declared-meta-schema:" + msg)
                    if view == "deser":
                        try:
                            ds = definitions_schema(deserialization=[tp], all_refs=all_refs)
                            if dict(ds) != dict(defs): why.append("definitions_schema-differs-from-inline-$defs")
                        except Exception as e: why.append("definitions_schema-raises:" + type(e).__name__)
                    if len(names) > 1: distinct.add(case_hash(case["graph"], case["root"], all_refs, view))
                    hist[f"defs={len(defs)}"] += 1
                case["real"] = r
                if len(samples) < 3 and r and r["defs"]: samples.append({"graph": case["graph"], "root": case["root"], "all_refs": all_refs, "defs/refs": r})
                reqs.append({"id": len(reqs), "op": "refs", "all_refs": all_refs, "root": tyg(root),
                             "env": [[c, ["node", [tyg(t) for t in classes[c]]]] for c in names]})
                meta.append((case, why))
    # part 1b: every version x all_refs in {default, False, True}: an explicit all_refs overrides the default of the version
    # (drafts: False, OpenAPI: True); the definitions are exactly those of the rule and close every $ref
    rndv = random.Random(seed * 3 + 2)
    for names, classes, root in graphs:
        if rndv.random() > 0.25: continue
        tp = eval(py(root), ns)
        for ver in ("DRAFT_2020_12", "DRAFT_2019_09", "DRAFT_7", "OPEN_API_3_0", "OPEN_API_3_1"):
            V = getattr(JsonSchemaVersion, ver)
            for all_refs in (None, False, True):
                evaluations += 1; hist["version-sweep:" + ver] += 1
                eff = {"DRAFT_2020_12": False, "DRAFT_2019_09": False, "DRAFT_7": False, "OPEN_API_3_0": True, "OPEN_API_3_1": True}[ver] if all_refs is None else all_refs
                case = {"src": src_of(names, classes), "root": py(root), "all_refs": all_refs, "version": ver, "view": "deser",
                        "graph": {c: [py(t) for t in classes[c]] for c in names}, "k_ok": None}
                why = []
                try:
                    s = observe(tp, all_refs, "deser", version=V)
                    ds = dict(definitions_schema(deserialization=[tp], version=V, all_refs=all_refs))
                except RecursionError: why.append("schema-generation-does-not-terminate"); s = ds = None
                except Exception as e: why.append("schema-generation-raises:" + type(e).__name__); s = ds = None
                if s is not None:
                    want = spec_defs(names, classes, root, eff)
                    if sorted(ds) != want: why.append("extracted-definitions-differ-from-the-rule"); case["expected_defs"] = want; case["got_defs"] = sorted(ds)
                    inline = s.get("$defs", s.get("definitions"))
                    if V.defs and dict(inline or {}) != ds: why.append("definitions_schema-differs-from-inline-$defs")
                    if not V.defs and inline: why.append("inline-definitions-in-a-version-without-them")
                    dangling = [x for x in refs_in(s) + [y for v in ds.values() for y in refs_in(v)] if x not in ds]
                    if dangling: why.append("dangling-$ref:" + ",".join(sorted(set(dangling))))
                    if len(names) > 1: distinct.add(case_hash(case["graph"], case["root"], all_refs, ver))
                if why: case.update(kind="P", why=why); failures.append(case)
    ms = model(reqs) if ctx["driver_ok"] else [None] * len(reqs)
    kbad = 0
    for (case, why), m in zip(meta, ms):
        k_ok = None
        if m is not None and "error" not in m:
            mm = {"main": m["main"], "defs": sorted(m["defs"])}
            if any(d[1] is None for d in m["defs"]) or m["main"] is None: mm = None
            k_ok = (mm == case["real"]); case["model"] = mm
        case["k_ok"] = k_ok
        if why: case.update(kind="P", why=why); failures.append(case)
        elif k_ok is False: kbad += 1; case.update(kind="K", why="model and implementation disagree"); failures.append(case)
    # part 2: meta-schema validity of every dialect on the general type grammar, and name clashes
    rnd2 = random.Random(seed + 1); pool = Pool(); g = Gen(rnd2, pool, None)
    types = [g.ty(3) for _ in range(150 * budget)]
    mod2 = build_module(pool.source(), f"refsg{seed}"); ns2 = dict(vars(mod2))
    from apischema.json_schema import serialization_schema
    for t in types:
        tp = eval(t.py, ns2)
        for ver in ("DRAFT_2020_12", "DRAFT_2019_09", "DRAFT_7"):
            for fn in (deserialization_schema, serialization_schema):
                evaluations += 1; hist["meta:" + ver] += 1
                try: s = fn(tp, version=getattr(JsonSchemaVersion, ver), additional_properties=rnd2.random() < 0.3)
                except Exception as e: hist["schema-exc:" + type(e).__name__] += 1; continue
                if t.kind not in Gen.LEAVES: distinct.add(case_hash(t.lean, ver, fn.__name__))
                ok, msg = meta_valid(s)
                if ok is not True:
                    failures.append({"kind": "P", "why": ["invalid-against-declared-meta-schema:" + msg], "py": t.py, "tsrc": t.decls(),
                                     "version": ver, "fn": fn.__name__, "schema": s, "k_ok": None, "features": sorted(t.features())})
    # part 3: conversions changing the referenced type (field-level, dynamic, definitions_schema entries with a conversion)
    from apischema.json_schema import serialization_schema as sschema
    fam_src = ["from dataclasses import dataclass, field", "from typing import *", "from apischema.metadata import conversion", ""]
    nfam = 25 * budget
    for i in range(nfam):
        fam_src += ["@dataclass", f"class Foo{i}:", "    a: int", "", "@dataclass", f"class Bar{i}:", "    b: str", "",
                    f"def foo_to_bar{i}(f: Foo{i}) -> Bar{i}:", f"    return Bar{i}(str(f.a))", "",
                    "@dataclass", f"class Holder{i}:", f"    x: Foo{i} = field(metadata=conversion(serialization=foo_to_bar{i}))",
                    f"    y: Foo{i} = field(metadata=conversion(serialization=foo_to_bar{i}))", "    z: int = 0", "",
                    "@dataclass", f"class NodeRef{i}:", "    id: int", "",
                    "@dataclass", f"class Node{i}:", "    value: int", f"    parent: Optional[NodeRef{i}] = None", ""]
    fam_src += [f"def resolve{i}(r: NodeRef{i}) -> Node{i}:\n    return Node{i}(r.id)\n" for i in range(nfam)]
    fam_src += [f"Node{i}.__dataclass_fields__['parent'].metadata = conversion(serialization=resolve{i})" for i in range(0)]   # (kept simple: see RNode below)
    for i in range(nfam):
        fam_src += ["@dataclass", f"class RRef{i}:", "    id: int", "", f"def rresolve{i}(r: RRef{i}) -> 'RNode{i}':", f"    return RNode{i}(r.id)", "",
                    "@dataclass", f"class RNode{i}:", "    value: int", f"    parent: Optional[RRef{i}] = field(default=None, metadata=conversion(serialization=rresolve{i}))", ""]
    m4 = build_module(fam_src, f"refsconv{seed}"); ns4 = dict(vars(m4))
    def closed_and_no_orphans(s, what, ctxinfo):
        defs = s.get("$defs", {})
        used = refs_in(s) + [y for v in defs.values() for y in refs_in(v)]
        dangling = sorted(set(x for x in used if x not in defs)); orphans = sorted(set(defs) - set(used))
        if dangling: failures.append(dict(ctxinfo, kind="P", k_ok=None, why=["dangling-$ref:" + ",".join(dangling)], schema=s, what=what))
        if orphans: failures.append(dict(ctxinfo, kind="P", k_ok=None, why=["definition-nobody-references:" + ",".join(orphans)], schema=s, what=what))
        ok, msg = meta_valid(s) if "$schema" in s else (True, "")
        if ok is not True: failures.append(dict(ctxinfo, kind="P", k_ok=None, why=["invalid-against-declared-meta-schema:" + msg], schema=s, what=what))
        return defs
    for i in range(nfam):
        Foo, Bar, Holder, RNode, conv = ns4[f"Foo{i}"], ns4[f"Bar{i}"], ns4[f"Holder{i}"], ns4[f"RNode{i}"], ns4[f"foo_to_bar{i}"]
        info = {"family": i, "src_hint": "Foo -> Bar by foo_to_bar; Holder.x, Holder.y: Foo with a field-level serialization conversion; RNode.parent: Optional[RRef] resolved to RNode"}
        for all_refs in (False, True):
            evaluations += 1; distinct.add(("conv", i, all_refs))
            lim = sys.getrecursionlimit(); sys.setrecursionlimit(1500)
            try:
                try: s = sschema(Holder, all_refs=all_refs)
                except RecursionError: failures.append(dict(info, kind="P", k_ok=None, why=["schema-generation-does-not-terminate"], what="Holder")); continue
                defs = closed_and_no_orphans(s, "serialization_schema(Holder)", dict(info, all_refs=all_refs))
                # Bar is used twice behind the field conversions: it is what must be extracted, Foo is converted away
                if f"Bar{i}" not in defs or f"Foo{i}" in defs:
                    failures.append(dict(info, kind="P", k_ok=None, all_refs=all_refs, why=["extracted-definitions-differ-from-the-rule"], got=sorted(defs), expected=[f"Bar{i}"] + ([f"Holder{i}"] if all_refs else []), schema=s))
                try: s = sschema(RNode, all_refs=all_refs)
                except RecursionError: failures.append(dict(info, kind="P", k_ok=None, all_refs=all_refs, why=["schema-generation-does-not-terminate"], what="RNode (recursive through a field conversion)")); continue
                closed_and_no_orphans(s, "serialization_schema(RNode)", dict(info, all_refs=all_refs))
                # definitions_schema with a (type, conversion) entry followed by plain types = the union of the inline definitions
                entries = [(Foo, conv), List[Foo], Bar] if i % 2 == 0 else [List[Foo], (Foo, conv)]
                ds = dict(definitions_schema(serialization=entries, all_refs=all_refs))
                inline = {}
                for e in entries:
                    s1 = sschema(e[0], conversion=e[1], all_refs=all_refs, with_schema=False) if isinstance(e, tuple) else sschema(e, all_refs=all_refs, with_schema=False)
                    inline.update(s1.get("$defs", {}))
                    for r in refs_in(s1):
                        if r not in ds: failures.append(dict(info, kind="P", k_ok=None, all_refs=all_refs, why=["definitions_schema-misses-a-referenced-definition:" + r], entries=repr(entries), got=sorted(ds)))
                # (with all_refs=False the extraction counts references across all the entries, so more may be extracted)
                if (ds != inline) if all_refs else any(k not in ds or ds[k] != v for k, v in inline.items()):
                    failures.append(dict(info, kind="P", k_ok=None, all_refs=all_refs, why=["definitions_schema-differs-from-inline-$defs"], entries=repr(entries), got=sorted(ds), inline=sorted(inline)))
            finally:
                sys.setrecursionlimit(lim)
    # part 4: named types behind serialized methods, members of an inherited discriminated hierarchy used on their own,
    # unions of alternatives of one JSON type, a class recursive through an aggregate (properties) field
    from apischema.json_schema import serialization_schema as sschema4
    nf4 = 6 * budget; rnd4 = random.Random(seed * 5 + 3)
    f4 = ["from dataclasses import dataclass, field", "from typing import *", "from apischema import serialized, discriminator", "from apischema.metadata import properties", "TG = TypeVar('TG')", ""]
    shapes = []
    for i in range(nf4):
        ret = rnd4.choice(["Other{i}", "List[Other{i}]", "Optional[Other{i}]"]).format(i=i); twice = rnd4.random() < 0.5
        f4 += ["@dataclass", f"class Other{i}:", "    o: int = 0", "", "@dataclass", f"class SH{i}:", "    a: int = 0", "    @serialized",
               f"    def other(self) -> {ret}: ...", ] + (["    @serialized", f"    def again(self) -> Other{i}: ..."] if twice else []) + [""]
        f4 += ["@dataclass", f"class SNode{i}:", "    v: int = 0", "    @serialized", f"    def twin(self) -> Optional['SNode{i}']: ...", ""]
        k = rnd4.randint(2, 3)
        f4 += [f"@discriminator({rnd4.choice(['type', 'kind'])!r})", f"class Pet{i}:", "    pass", ""]
        for j in range(k): f4 += ["@dataclass", f"class Pet{i}_{j}(Pet{i}):", f"    f{j}: int = 0", ""]
        f4 += ["@dataclass", f"class Owner{i}:", f"    pet: Pet{i}_0", ""]
        f4 += [f"NT{i} = NewType('NT{i}', {rnd4.choice(['int', 'str', 'bool'])})", ""]
        # serialized methods with a conversion: the named types of the conversion's target are reached through it (a class recursive that way too)
        f4 += [f"def ids_to_emps{i}(ids: List[int]) -> List['CEmp{i}']:", "    return []", f"def int_to_other{i}(x: int) -> Other{i}:", f"    return Other{i}(x)", "",
               "@dataclass", f"class CEmp{i}:", "    name: str = ''", f"    @serialized(conversion=ids_to_emps{i})", "    def reports(self) -> List[int]: ...", "",
               "@dataclass", f"class CHold{i}:", "    a: int = 0", f"    @serialized(conversion=int_to_other{i})", "    def other_id(self) -> int: ...",
               f"    @serialized(conversion=int_to_other{i})", "    def other_again(self) -> int: ...", ""]
        # a generic class whose serialized method mentions its type variable, used specialised: the named argument is reached through the method
        f4 += ["@dataclass", f"class GAuthor{i}:", "    name: str = ''", "", "@dataclass", f"class GRef{i}(Generic[TG]):", "    id: int = 0", "    @serialized",
               "    def resolved(self) -> Optional[TG]: ...", "", "@dataclass", f"class GHold{i}:", f"    a: GRef{i}[GAuthor{i}]", f"    b: Optional[GAuthor{i}] = None", "",
               "@dataclass", f"class GOnly{i}:", f"    a: GRef{i}[GAuthor{i}]", ""]
        # a class the library knows nothing about: as a union alternative it is dropped, and so is its name
        f4 += [f"class Token{i}:", "    pass", "", "@dataclass", f"class THolder{i}:", f"    x: Union[int, Token{i}]", f"    y: Optional[Union[Token{i}, Other{i}]] = None", f"    z: List[Union[Other{i}, Token{i}]] = field(default_factory=list)", ""]
        f4 += ["@dataclass", f"class PNode{i}:", "    v: int = 0", f"    kids: Dict[str, 'PNode{i}'] = field(default_factory=dict, metadata=properties)", ""]
        shapes.append({"i": i, "twice": twice, "ret": ret, "k": k})
    ns5 = dict(vars(build_module(f4, f"fam4_{seed}")))
    def gen4(fn, tp, info, **kw):
        lim = sys.getrecursionlimit(); sys.setrecursionlimit(1500)
        try: return fn(tp, **kw)
        except RecursionError: failures.append(dict(info, kind="P", k_ok=None, why=["schema-generation-does-not-terminate"])); return None
        except Exception as e: failures.append(dict(info, kind="P", k_ok=None, why=["schema-generation-raises:" + type(e).__name__])); return None
        finally: sys.setrecursionlimit(lim)
    for sh in shapes:
        i = sh["i"]
        for all_refs in (False, True):
            info = {"family4": "serialized-method", "src": [l for l in f4 if True][:0], "root": f"SH{i}", "all_refs": all_refs, "returns": sh["ret"], "twice": sh["twice"]}
            evaluations += 1; distinct.add(("fam4", "ser", i, all_refs))
            s = gen4(sschema4, ns5[f"SH{i}"], info, all_refs=all_refs)
            if s is not None:
                defs = closed_and_no_orphans(s, f"serialization_schema(SH{i})", info)
                want = ([f"Other{i}"] if (all_refs or sh["twice"]) else []) + ([f"SH{i}"] if all_refs else [])
                if sorted(defs) != sorted(want): failures.append(dict(info, kind="P", k_ok=None, why=["extracted-definitions-differ-from-the-rule"], got=sorted(defs), expected=sorted(want), schema=s))
            for root, want in ((f"GHold{i}", [f"GAuthor{i}"] + ([f"GHold{i}"] if all_refs else [])), (f"GOnly{i}", ([f"GAuthor{i}", f"GOnly{i}"] if all_refs else []))):
                info = {"family4": "serialized-method-of-a-specialised-generic", "root": root, "all_refs": all_refs}
                evaluations += 1; distinct.add(("fam4", "generic-ser", i, root[:5], all_refs))
                s = gen4(sschema4, ns5[root], info, all_refs=all_refs)
                if s is not None:
                    defs = closed_and_no_orphans(s, f"serialization_schema({root})", info)
                    if sorted(defs) != sorted(want): failures.append(dict(info, kind="P", k_ok=None, why=["extracted-definitions-differ-from-the-rule"], got=sorted(defs), expected=sorted(want), schema=s))
                    elif "GAuthor" not in json.dumps(s) and "name" not in json.dumps(s): failures.append(dict(info, kind="P", k_ok=None, why=["serialized-method-type-lost"], schema=s))
            for root, want in ((f"CEmp{i}", [f"CEmp{i}"]), (f"CHold{i}", [f"Other{i}"] + ([f"CHold{i}"] if all_refs else []))):
                info = {"family4": "serialized-method-with-a-conversion", "root": root, "all_refs": all_refs}
                evaluations += 1; distinct.add(("fam4", "ser-conv", i, root[:5], all_refs))
                s = gen4(sschema4, ns5[root], info, all_refs=all_refs)
                if s is not None:
                    defs = closed_and_no_orphans(s, f"serialization_schema({root})", info)
                    if sorted(defs) != sorted(want): failures.append(dict(info, kind="P", k_ok=None, why=["extracted-definitions-differ-from-the-rule"], got=sorted(defs), expected=sorted(want), schema=s))
            info = {"family4": "recursive-through-a-serialized-method", "root": f"SNode{i}", "all_refs": all_refs}
            evaluations += 1
            s = gen4(sschema4, ns5[f"SNode{i}"], info, all_refs=all_refs)
            if s is not None:
                defs = closed_and_no_orphans(s, f"serialization_schema(SNode{i})", info)
                if sorted(defs) != [f"SNode{i}"]: failures.append(dict(info, kind="P", k_ok=None, why=["extracted-definitions-differ-from-the-rule"], got=sorted(defs), expected=[f"SNode{i}"], schema=s))
            for fn in (deserialization_schema, sschema4):
                for root in (f"Pet{i}_0", f"List[Pet{i}_0]", f"Owner{i}", f"Pet{i}", f"Union[Pet{i}_0, Pet{i}_1]", f"Optional[Pet{i}_1]"):
                    info = {"family4": "inherited-discriminator", "root": root, "all_refs": all_refs, "fn": fn.__name__, "subclasses": sh["k"]}
                    evaluations += 1; distinct.add(("fam4", "disc", i, root.replace(str(i), ""), all_refs, fn.__name__))
                    s = gen4(fn, eval(root, ns5), info, all_refs=all_refs)
                    if s is not None:
                        defs = s.get("$defs", {}); used = refs_in(s) + [y for v in defs.values() for y in refs_in(v)]
                        dangling = sorted(set(x for x in used if x not in defs))
                        if dangling: failures.append(dict(info, kind="P", k_ok=None, why=["dangling-$ref:" + ",".join(dangling)], schema=s))
                        ok, msg = meta_valid(s)
                        if ok is not True: failures.append(dict(info, kind="P", k_ok=None, why=["invalid-against-declared-meta-schema:" + msg], schema=s))
                for root in (f"Union[int, Token{i}]", f"Union[Token{i}, Other{i}]", f"List[Optional[Union[Token{i}, Other{i}, int]]]", f"THolder{i}", f"Tuple[THolder{i}, Union[Token{i}, str]]"):
                    for ver in ("DRAFT_2020_12", "OPEN_API_3_0"):
                        info = {"family4": "unsupported-union-alternative", "root": root, "all_refs": all_refs, "fn": fn.__name__, "version": ver}
                        evaluations += 1; distinct.add(("fam4", "unsupported", i, root.replace(str(i), ""), all_refs, fn.__name__, ver))
                        s = gen4(fn, eval(root, ns5), info, all_refs=all_refs, version=getattr(JsonSchemaVersion, ver))
                        if s is None: continue
                        used = refs_in(s, prefix_keys=("$defs", "definitions", "schemas")) + [y for v in s.get("$defs", {}).values() for y in refs_in(v)]
                        if any(x == f"Token{i}" or str(x).endswith(f"/Token{i}") for x in used) or f"Token{i}" in json.dumps(s):
                            failures.append(dict(info, kind="P", k_ok=None, why=["dropped-alternative-still-referenced:Token"], schema=s)); continue
                        if ver == "DRAFT_2020_12": closed_and_no_orphans(s, f"{fn.__name__}({root})", info)
                        try:
                            ds = dict(definitions_schema(**{("deserialization" if fn is deserialization_schema else "serialization"): [eval(root, ns5)]}, all_refs=all_refs))
                            if f"Token{i}" in ds: failures.append(dict(info, kind="P", k_ok=None, why=["definition-of-an-unsupported-type"], got=sorted(ds)))
                        except Exception as e: failures.append(dict(info, kind="P", k_ok=None, why=["definitions_schema-raises:" + type(e).__name__]))
                for root in (f"Union[int, NT{i}, str]", f"Union[NT{i}, bool, NT{i}]", f"List[Union[str, NT{i}, int, bool]]"):
                    for ver in ("DRAFT_2020_12", "DRAFT_7", "OPEN_API_3_0"):
                        info = {"family4": "alternatives-of-one-json-type", "root": root, "version": ver, "fn": fn.__name__}
                        evaluations += 1
                        s = gen4(fn, eval(root, ns5), info, version=getattr(JsonSchemaVersion, ver))
                        if s is not None:
                            ok, msg = meta_valid(s) if "$schema" in s else (None, "")
                            if ok is False: failures.append(dict(info, kind="P", k_ok=None, why=["invalid-against-declared-meta-schema:" + msg], schema=s))
                            def dup_types(j):
                                if isinstance(j, dict):
                                    t = j.get("type")
                                    return (isinstance(t, list) and len(set(map(str, t))) != len(t)) or any(dup_types(v) for v in j.values())
                                return isinstance(j, list) and any(dup_types(v) for v in j)
                            if dup_types(s): failures.append(dict(info, kind="P", k_ok=None, why=["type-array-repeats-a-type"], schema=s))
        info = {"family4": "recursive-through-a-properties-field", "root": f"PNode{i}"}
        evaluations += 1
        s = gen4(deserialization_schema, ns5[f"PNode{i}"], info)
        if s is not None: closed_and_no_orphans(s, f"deserialization_schema(PNode{i})", info)
    for f in failures:
        if f.get("family4") and "src4" not in f: f["src4"] = f4
    # name clash: two distinct classes with one type_name must be refused
    clash_src = ["from dataclasses import dataclass", "from typing import *", "from apischema import type_name", "",
                 "@type_name('Same')", "@dataclass", "class A1:", "    a: int", "", "@type_name('Same')", "@dataclass", "class A2:", "    b: str", ""]
    m3 = build_module(clash_src, f"clash{seed}")
    evaluations += 1
    try:
        s = deserialization_schema(Tuple[m3.A1, m3.A2, m3.A1, m3.A2])
        failures.append({"kind": "P", "why": ["two-distinct-types-sharing-a-name-are-merged"], "schema": s, "clash_src": clash_src, "k_ok": None})
    except (TypeError, ValueError): hist["clash-refused"] += 1
    except Exception as e:
        failures.append({"kind": "P", "why": ["name-clash-raises-" + type(e).__name__], "clash_src": clash_src, "k_ok": None})
    import corners7
    cf_, cn_, cd_, ch_ = corners7.run_part("C17", seed, budget)
    failures += cf_; distinct |= cd_; evaluations += cn_
    for k_, v_ in ch_.items(): hist[k_] += v_
    for f in failures: hist[("P:" + f["why"][0].split(":")[0]) if f["kind"] == "P" else "K"] += 1
    return {"evaluations": evaluations, "distinct_nontrivial": len(distinct),
            "rule": "generated graphs of 1-5 dataclasses referring to each other through fields, lists, Optional and tuples (shared, nested, recursive) x all_refs x "
                    "both builders; plus the general type grammar x three dialects for meta-schema validity; non-trivial = more than one class / non-leaf type",
            "samples": samples, "histograms": dict(hist), "correspondence": {"compared_with_model": len(reqs), "disagreements": kbad},
            "failures": failures}


from typing import Tuple, List

KF = {
    # a class recursive through an aggregate field: `_object_schema` sets `_ignore_first_ref`, the first named type met is the
    # class itself, which is therefore expanded in place again and again
    "KF47": lambda c: c.get("family4") == "recursive-through-a-properties-field" and c["why"] == ["schema-generation-does-not-terminate"],
    # DRAFT_2019_09 declares the 2020-12 meta-schema URL while emitting array-form `items`
    "KF25": lambda c: c.get("version") == "DRAFT_2019_09" and c["why"][0].startswith("invalid-against-declared-meta-schema"),
}


def is_known(kid, case):
    p = KF.get(kid)
    return bool(p and case.get("kind") == "P" and p(case))


def replay(prop, case, ctx):
    from apischema.json_schema import deserialization_schema, serialization_schema, JsonSchemaVersion
    if case.get("family4"):
        ns = dict(vars(build_module(case["src4"], "fam4replay")))
        fn = serialization_schema if (case.get("fn") == "serialization_schema" or case["family4"] in ("serialized-method", "recursive-through-a-serialized-method")) else deserialization_schema
        kw = {}
        if "all_refs" in case: kw["all_refs"] = case["all_refs"]
        if case.get("version"): kw["version"] = getattr(JsonSchemaVersion, case["version"])
        lim = sys.getrecursionlimit(); sys.setrecursionlimit(1500)
        try: s = fn(eval(case["root"], ns), **kw)
        except RecursionError: return {"fails": True, "real": "RecursionError"}
        except Exception as e: return {"fails": True, "real": type(e).__name__ + ": " + str(e)[:200]}
        finally: sys.setrecursionlimit(lim)
        defs = s.get("$defs", s.get("definitions", {}))
        dangling = [x for x in refs_in(s) + [y for v in defs.values() for y in refs_in(v)] if x not in defs and "$schema" in s]
        return {"schema": s, "dangling": dangling, "expected": case.get("expected"), "got_defs": sorted(defs),
                "fails": bool(dangling) or ("expected" in case and sorted(defs) != case["expected"]) or meta_valid(s)[0] is False}
    if "graph" in case and case.get("version"):
        from apischema.json_schema import definitions_schema
        mod = build_module(HEADER + case["src"], "refsreplay"); tp = eval(case["root"], dict(vars(mod)))
        V = getattr(JsonSchemaVersion, case["version"])
        s = observe(tp, case["all_refs"], "deser", version=V); ds = dict(definitions_schema(deserialization=[tp], version=V, all_refs=case["all_refs"]))
        dangling = [x for x in refs_in(s) + [y for v in ds.values() for y in refs_in(v)] if x not in ds]
        return {"schema": s, "definitions": sorted(ds), "dangling": dangling, "expected_defs": case.get("expected_defs"),
                "fails": bool(dangling) or ("expected_defs" in case and sorted(ds) != case["expected_defs"])}
    if "graph" in case:
        mod = build_module(HEADER + case["src"], "refsreplay"); tp = eval(case["root"], dict(vars(mod)))
        try: s = observe(tp, case["all_refs"], case["view"])
        except RecursionError: return {"fails": True, "real": "RecursionError"}
        defs = s.get("$defs", {})
        dangling = [x for x in refs_in(s) + [y for v in defs.values() for y in refs_in(v)] if x not in defs]
        ok, msg = meta_valid(s)
        return {"schema": s, "dangling": dangling, "meta_valid": ok, "expected_defs": case.get("expected_defs"),
                "fails": bool(dangling) or ok is not True or ("expected_defs" in case and sorted(defs) != case["expected_defs"])}
    if "tsrc" in case:
        mod = build_module("\n".join(Pool.HEADER + case["tsrc"]), "refsreplay2"); tp = eval(case["py"], dict(vars(mod)))
        fn = deserialization_schema if case["fn"] == "deserialization_schema" else serialization_schema
        s = fn(tp, version=getattr(JsonSchemaVersion, case["version"]))
        ok, msg = meta_valid(s)
        return {"schema": s, "meta_valid": ok, "msg": msg, "fails": ok is not True}
    return {"fails": True}
