"""C14 on literals / enums whose values have several JSON types, under coercion: the datum is accepted iff it is a value, or the default coercion to the
type of *some* value gives a value - whatever the order in which the types are tried (the method keeps them in a tuple made from a set of classes) - and
then the result is such a value; a datum accepted in strict mode gives the same value."""
import collections, random
from common import build_module, case_hash

LITS = ["Literal[5, None]", "Literal[None, 5]", "Literal[True, 5]", "Literal['a', 1, None]", "Literal['5', 7]", "Literal[2, 'true']",
        "Optional[Literal[5]]", "List[Literal[None, 1, 2]]", "Literal[0, 'no']", "E1", "E2"]
DATA = ["5", 5, "1", 1, "true", "True", "no", "", "x", None, 0, "0", 1.0, 2.0, "2", True, False, "a", "7", 7, float("nan"), [], {}]
SRC = ["from typing import *", "from enum import Enum", "class E1(Enum):", "    A = 1", "    B = 'b'", "    N = None", "class E2(Enum):", "    T = True", "    S = '3'", ""]


def run_part(seed, budget):
    from apischema import deserialize, ValidationError
    from apischema.deserialization.coercion import coerce as default_coerce
    r = random.Random(seed * 61 + 13)
    failures, hist, distinct, n = [], collections.Counter(), set(), 0
    ns = vars(build_module(SRC, f"litcoerce{seed}"))
    import typing, enum
    def values_of(tp):
        if isinstance(tp, type) and issubclass(tp, enum.Enum): return [m.value for m in tp], {m.value: m for m in tp}
        return list(typing.get_args(tp)), None
    for lit in LITS:
        tp = eval(lit, ns)
        inner = tp
        wrap = "plain"
        if lit.startswith("Optional["): inner = [a for a in typing.get_args(tp) if a is not type(None)][0]; wrap = "optional"
        if lit.startswith("List["): inner = typing.get_args(tp)[0]; wrap = "list"
        vals, members = values_of(inner)
        for d0 in DATA:
            d = [d0] if wrap == "list" else d0
            n += 1; distinct.add(case_hash("litcoerce", lit, repr(d0))); hist["literal-coercion:" + wrap] += 1
            def out(coerce):
                try: return ("ok", deserialize(tp, d, coerce=coerce))
                except ValidationError as e: return ("invalid", e.errors)
                except Exception as e: return ("crash", type(e).__name__ + ":" + str(e)[:60])
            strict, co = out(False), out(True)
            # the reference: the set of values reachable by coercing to the type of some value (the result has to be a value of exactly that class)
            def same(a, b): return type(a) is type(b) and (a == b or (a != a and b != b))
            reach = []
            if isinstance(d0, (str, int, float, bool, type(None))) and d0 == d0:
                if any(same(d0, v) for v in vals): reach.append(d0)
                for cls in {type(v) for v in vals}:
                    try: c = default_coerce(cls, d0)
                    except Exception: continue
                    for v in vals:
                        if same(c, v) and not any(same(v, x) for x in reach): reach.append(v)
            if wrap == "optional" and d0 in (None, ""): reach.append(None)
            why = []
            if co[0] == "crash": why.append("crash:" + co[1].split(":")[0])
            elif strict[0] == "ok" and co != strict and not (strict[1] != strict[1]): why.append("strictly-accepted-but-different-under-coercion")
            elif strict[0] != "ok" and d0 == d0 and isinstance(d0, (str, int, float, bool, type(None))):
                got = co[1][0] if (wrap == "list" and co[0] == "ok") else (co[1] if co[0] == "ok" else None)
                if members is not None and co[0] == "ok": got = got.value if got is not None or None in vals else got
                # (Python equality conflates True / 1 / 1.0 among dictionary keys: finding KF34 of C06, not this property; only acceptance is compared when the
                # reachable set is ambiguous in that way)
                if co[0] == "ok" and not reach and not any(v == d0 for v in vals if not isinstance(v, str) and not isinstance(d0, str)): why.append("coercion-accepts-a-datum-no-documented-conversion-reaches")
                elif co[0] != "ok" and len(reach) == 1: why.append("coercible-to-a-value-but-rejected")
                elif co[0] == "ok" and len(reach) == 1 and not (got == reach[0]): why.append("coerced-to-another-value")
            hist["literal-coercion-outcome:" + co[0]] += 1
            if why:
                failures.append({"kind": "P", "k_ok": None, "part": "literal-coercion", "features": ["literal", "coerce"], "py": lit, "datum": repr(d), "strict": repr(strict)[:200], "coerced": repr(co)[:200],
                                 "reachable": repr(reach), "why": why})
    return failures, n, distinct, hist
