"""deser engine: real `deserialize` vs the Lean model (K) and the property checks P of C01, C02, C03, C08,
C13, C14 on the real code.  One generator, different option sweeps / observables / oracles per property."""
import sys, os, json, random, collections, copy, math, itertools
HERE = os.path.dirname(os.path.abspath(__file__)); sys.path.insert(0, HERE)
from gen import Gen, Pool, py_proto, lit_proto, flt_proto
from canon import val_proto, errors_proto, canon_model_val, canon_errors
from common import model, build_module, fresh, proto_py, is_json, snapshot, containers, value_containers, case_hash, OTHERS
from apischema.cache import reset as _cache_reset

HEADER = Pool.HEADER

CATOMS = ["1", " 12 ", "1_0", "-3", "+4", "1.5", "1e3", "abc", "", " ", "nan", "inf", "-inf", "1e999", "0x10", "_1", "1__0",
          "ON", "Yes", "t", "F", "0", "maybe", "ko", "Ok", "true", "FALSE", "n", 0, 1, 2, -1, 1.9, -1.9, 2.0, float("nan"), float("inf"),
          True, False, None, 10**400, 1e22, 0.1, "0.1", "1.", ".5", "1e-400", "infinity", "NaN", "+inf", "١٢"]
MALFORMED = ["tuple", "bytes", "complex", "frozenset", "range"]
SUBCLASSED = ["_StrSub", "_IntSub", "_ListSub", "_DictSub"]


def cmutate(rnd, d, depth=0):
    if isinstance(d, list): return [cmutate(rnd, x, depth + 1) for x in d]
    if isinstance(d, dict): return {k: cmutate(rnd, v, depth + 1) for k, v in d.items()}
    if rnd.random() < (0.5 if depth else 0.8): return rnd.choice(CATOMS)
    return d


class Other:
    """placeholder of a non-JSON object inside a generated datum (instantiated per run)"""
    def __init__(self, kind): self.kind = kind
    def __repr__(self): return f"<{self.kind}>"


def malform(rnd, d, depth=0, pool=MALFORMED):
    """replace a random sub-datum by a non-JSON object, a huge / special number, or make keys non-string"""
    r = rnd.random()
    if depth > 3 or r < 0.25 or not isinstance(d, (list, dict)) or not d:
        x = rnd.random()
        if x < 0.5: return Other(rnd.choice(pool))
        if x < 0.7: return rnd.choice([10**400, -10**400, float("nan"), float("inf"), float("-inf"), 2**63, True, 1e308])
        if x < 0.85 and isinstance(d, dict): return {**{1: v for v in list(d.values())[:1]}, **d}
        return rnd.choice([{1: 2}, {None: 1, "a": 2}, [[]], {"a": {"b": [{}]}}, [[[[[[1]]]]]]])
    if isinstance(d, list):
        d = list(d); i = rnd.randrange(len(d)); d[i] = malform(rnd, d[i], depth + 1, pool); return d
    d = dict(d); k = rnd.choice(list(d)); d[k] = malform(rnd, d[k], depth + 1, pool); return d


def instantiate(d):
    if isinstance(d, Other): return OTHERS[d.kind]()
    if isinstance(d, list): return [instantiate(x) for x in d]
    if isinstance(d, dict): return {k: instantiate(v) for k, v in d.items()}
    if isinstance(d, float): return float(repr(d))
    return d


def dproto(d):
    if isinstance(d, Other): return ["o", d.kind]
    if isinstance(d, list): return ["l", [dproto(x) for x in d]]
    if isinstance(d, dict):
        if all(type(k) is str for k in d): return ["d", [[k, dproto(v)] for k, v in d.items()]]
        return ["dn", [[dproto(k), dproto(v)] for k, v in d.items()]]
    return py_proto(d)


def has_other(d, kinds=None):
    if isinstance(d, Other): return kinds is None or d.kind in kinds
    if isinstance(d, list): return any(has_other(x, kinds) for x in d)
    if isinstance(d, dict): return any(has_other(x, kinds) for x in d.values())
    return False


def leaves(d):
    if isinstance(d, list):
        for x in d: yield from leaves(x)
    elif isinstance(d, dict):
        for k, v in d.items():
            yield k; yield from leaves(v)
    else: yield d


JCLS = {type(None): "null", bool: "boolean", int: "integer", float: "number", str: "string"}


def real_literal_methods(tp, o):
    """the `LiteralMethod` objects of the real compiled method tree (their `types` tuple comes out of a set)"""
    import dataclasses
    from apischema import deserialization_method
    from apischema.deserialization.methods import LiteralMethod
    try:
        root = deserialization_method(tp, additional_properties=o["ap"], fall_back_on_default=o["fbod"], no_copy=o["nc"],
                                      coerce=o["coerce"]).__self__
    except Exception:
        return []
    out, seen, todo = [], set(), [root]
    while todo:
        m = todo.pop()
        if id(m) in seen: continue
        seen.add(id(m))
        if isinstance(m, LiteralMethod): out.append(m)
        if dataclasses.is_dataclass(m) and not isinstance(m, type):
            todo += [getattr(m, f.name, None) for f in dataclasses.fields(m)]
        elif isinstance(m, (tuple, list)): todo += list(m)
        elif isinstance(m, dict): todo += list(m.values())
    return out


def lit_first(t, ns, acc, real=None):
    """`LiteralMethod.types` for every literal / enum node: read off the real method when it can be identified
    (`typing` treats literals that differ in order as one cache key), else recomputed as the visitor does"""
    from apischema.utils import literal_values
    if t.kind in ("literal", "enum"):
        values = list(eval(t.py, ns)) if t.kind == "enum" else list(t.vals)
        value_map = dict(zip(literal_values(values), values))
        types = tuple(set(map(type, value_map)))
        for m in real or []:
            if len(m.value_map) == len(value_map) and all(k in m.value_map and type(k) in m.types for k in value_map):
                types = m.types; break
        if types: acc.append([[lit_proto(v) for v in t.vals], [JCLS[c] for c in types]])
    for k in t.kids: lit_first(k, ns, acc, real)
    return acc


def coerce_env(d):
    """oracle tables: CPython's int(str) / float(str) / str(float) on the leaves of this datum"""
    from apischema.deserialization.coercion import STR_TO_BOOL
    ints, floats, reprs = [], [], []
    for x in leaves(d):
        if isinstance(x, str):
            try: ints.append([x, str(int(x))])
            except ValueError: pass
            try: floats.append([x, flt_proto(float(x))])
            except ValueError: pass
        elif isinstance(x, float):
            reprs.append([flt_proto(x), str(x)])
    return {"int": ints, "float": floats, "repr": reprs, "words": [[k, v] for k, v in STR_TO_BOOL.items()]}


def run_impl(tp, d, o, method=False, keep=None):
    """outcome of the real code as a canonical term; `keep` receives the raw value / exception"""
    from apischema import deserialize, deserialization_method, ValidationError
    data = instantiate(d)
    if keep is not None: keep["data"] = data
    kw = dict(additional_properties=o["ap"], fall_back_on_default=o["fbod"], no_copy=o["nc"], coerce=o["coerce"])
    if o.get("aliaser"): kw["aliaser"] = o["aliaser"]
    if o.get("schema"):
        from apischema import schema as _schema
        kw["schema"] = _schema(**{o["schema"][0]: eval(o["schema"][1]) if isinstance(o["schema"][1], str) and o["schema"][0] == "pattern" else o["schema"][1]})
    try:
        v = deserialization_method(tp, **kw)(data) if method else deserialize(tp, data, **kw)
        if keep is not None: keep["value"] = v
        return {"ok": val_proto(v)}
    except ValidationError as e:
        try:
            errs = e.errors
            json.dumps(errs)
            return {"invalid": errors_proto(errs)}
        except Exception as e2: return {"invalid": None, "errors_crash": type(e2).__name__}
    except RecursionError: return {"crash": "RecursionError", "msg": ""}
    except Exception as e: return {"crash": type(e).__name__, "msg": str(e)[:80]}


def _others(v):
    if isinstance(v, list):
        if len(v) == 2 and v[0] == "o" and v[1] in OTHERS: return val_proto(OTHERS[v[1]]())
        return [_others(x) for x in v]
    return v


def canon_model(m):
    if "ok" in m: return {"ok": canon_model_val(_others(m["ok"]))}
    if "invalid" in m:
        if m.get("mixed"): return {"invalid": None, "errors_crash": "TypeError"}
        return {"invalid": canon_errors(m["invalid"])}
    return m


def same(im, m):
    """implementation outcome = model outcome (exception messages are not compared)"""
    a = {k: v for k, v in im.items() if k != "msg"}
    return a == m


def kind_of(o): return next(iter(o))


def loc_sound(d, errors):
    """every `loc` resolves inside the datum, except the last step of a `missing property`"""
    for loc, rule in errors:
        cur = d
        for i, step in enumerate(loc):
            last = i == len(loc) - 1
            if isinstance(cur, list) and isinstance(step, int) and 0 <= step < len(cur): cur = cur[step]
            elif isinstance(cur, dict) and step in cur: cur = cur[step]
            elif last and isinstance(cur, dict) and rule[0] in ("missing", "missing_required_by"): break
            else: return False
    return True


def loc_typed(t, d, loc, rule):
    """type-directed reading of a location: below an object type every step is an external name (alias) of a declared
    field or a key of the datum; a `missing property` names a declared alias"""
    k = t.kind
    if k in ("newtype", "optional", "cint", "cfloat", "cstr", "clist", "cdict") and t.kids and k not in ("clist", "cdict"):
        return loc_typed(t.kids[-1] if k != "optional" else t.kids[0], d, loc, rule) if k in ("newtype", "optional") or getattr(t, "merged", False) else True
    if k == "union": return any(loc_typed(a, d, loc, rule) for a in t.kids)
    if not loc: return True
    step, rest = loc[0], loc[1:]
    if k in ("list", "set", "frozenset", "vtuple", "clist"):
        return isinstance(step, int) and isinstance(d, list) and step < len(d) and loc_typed(t.kids[0], d[step], rest, rule)
    if k == "tuple":
        return isinstance(step, int) and isinstance(d, list) and step < min(len(d), len(t.kids)) and loc_typed(t.kids[step], d[step], rest, rule)
    if k in ("mapping", "cdict"):
        return isinstance(d, dict) and step in d and loc_typed(t.kids[-1], d[step], rest, rule)
    if k in ("dataclass", "namedtuple", "typeddict"):
        if not isinstance(d, dict): return False
        for f in t.fields:
            if f["alias"] == step:
                if step not in d: return not rest and rule[0] in ("missing", "missing_required_by")
                return loc_typed(f["ty"], d[step], rest, rule)
        return step in d and not rest          # an unexpected property
    return True


# ------------------------------------------------------------------------------------------------------
KINDS_BY_PROP = {
    "C13": ["union", "union", "union", "optional", "list", "tuple", "dataclass", "mapping", "none", "bool", "int", "float", "str",
            "literal", "enum", "newtype", "cint", "cfloat", "cstr", "clist", "namedtuple", "typeddict", "any"],
}


def cons_names(t):
    if getattr(t, "cons", None): yield t.cons[0]
    for k in t.kids: yield from cons_names(k)


def gen_cases(prop, seed, n_types, per):
    rnd = random.Random(seed * 1000003 + hash(prop) % 997 if False else seed * 1000003 + sum(map(ord, prop)))
    pool = Pool(); g = Gen(rnd, pool, KINDS_BY_PROP.get(prop))
    if prop in ("C01", "C02", "C03", "C08", "C14") and not KINDS_BY_PROP.get(prop): g.kinds = g.kinds + ["depreq", "aggregate"]
    if prop in ("C01", "C02", "C03", "C13"): g.kinds = g.kinds + ["cunion"]          # constraints attached to a union reach its alternatives
    if prop == "C08": g.kinds = g.kinds + ["postinit", "postinit", "plain", "plain", "plainskip", "plainskip"]
    if prop == "C03": g.kinds = g.kinds + ["plain", "plain"]
    types = []
    for _ in range(n_types):
        t = g.ty(3)
        if prop == "C13" and rnd.random() < 0.7:
            t = g.g_union(3)
        types.append(t)
    if prop in ("C01", "C02", "C03", "C08"):
        # the empty tuple `Tuple[()]` (its `get_args` is empty, like the bare `Tuple`'s): alone, in a list, optional, next to a one-element tuple
        from gen import Node
        et = Node("tuple", ["tuple", []], "Tuple[()]", [])
        one = Node("tuple", ["tuple", [["int"]]], "Tuple[int]", [g.g_int(0)])
        flat = [[], [1], [[]], [1, 2], None, ["a"], {}]
        types += [Node("tuple", ["tuple", []], "Tuple[()]", [], fixed_data=flat), Node("list", ["list", et.lean], "List[Tuple[()]]", [et], fixed_data=[[x] for x in flat] + [[], [[], []]]),
                  Node("optional", ["union", [et.lean, ["none"]]], "Optional[Tuple[()]]", [et], fixed_data=flat),
                  Node("union", ["union", [et.lean, one.lean]], "Union[Tuple[()], Tuple[int]]", [et, one], fixed_data=flat)]
    mod = build_module(pool.source(), f"{prop}_{seed}"); ns = dict(vars(mod))
    cases = []
    for t in types:
        _cache_reset()      # typing-equal types (Literal[1, True] / Literal[True, 1]) share one cache entry: finding KF13, not this property
        tp = eval(t.py, ns)
        for _ in range(per):
            d = g.valid(t)
            mutate_p = {"C02": 0.9, "C03": 0.6}.get(prop, 0.5)
            if rnd.random() < mutate_p:
                d = g.mutate(d)
                if prop == "C02":                     # k >= 1 simultaneous violations at distinct paths
                    for _ in range(rnd.randint(0, 2)): d = g.mutate(d)
            if getattr(t, "fixed_data", None): d = copy.deepcopy(rnd.choice(t.fixed_data))
            coerce = (prop == "C14") or (prop == "C03" and rnd.random() < 0.4) or (prop == "C02" and t.kind == "optional" and rnd.random() < 0.5)
            if coerce and rnd.random() < 0.8: d = cmutate(rnd, d)
            if prop == "C03" and rnd.random() < 0.5:
                d = malform(rnd, d, pool=MALFORMED + (SUBCLASSED if rnd.random() < 0.3 else []))
            o = {"ap": rnd.random() < 0.3, "fbod": rnd.random() < 0.2, "nc": rnd.random() < 0.5, "octor": False,
                 "coerce": coerce, "repaired": True}
            if prop == "C08" and t.kind == "typeddict" and isinstance(d, dict) and rnd.random() < 0.5:
                # additional keys of a TypedDict holding containers: returned, and copied unless no_copy
                o["ap"] = True; d = dict(d); d[rnd.choice(["zz_extra", "other_extra"])] = rnd.choice([[1, [2]], {"k": [1]}, [], {}])
            if prop in ("C01", "C05", "C08") and t.kind == "typeddict" and isinstance(d, dict) and rnd.random() < 0.5:
                # an additional key spelled like the *name* of a field that is read under another alias: kept out of the result (the field's place is the field's)
                renamed = [f for f in getattr(t, "fields", []) if f["alias"] != f["name"]]
                if renamed:
                    o["ap"] = True; d = dict(d); d[rnd.choice(renamed)["name"]] = rnd.choice([[1, [2]], {"k": [1]}, 3, "s"])
            base = {"int": "int", "cint": "int", "float": "float", "cfloat": "float", "str": "str", "cstr": "str"}.get(t.kind)
            if base and prop in ("C01", "C02", "C06") and rnd.random() < 0.3:
                # per-call `schema=` argument: a second constraint set merged with the type's own
                used = set(cons_names(t))
                free = [c for c in Gen.CONS[base][2] if c[0] not in used]    # (merging one keyword with itself: min / max / lcm / TypeError, not modelled)
                if free:
                    name, val, proto = rnd.choice(free)
                    o["schema"] = [name, val, proto]
            cases.append((t, tp, d, o, ns))
    return cases


def request(i, t, d, o, ns):
    req = {"id": i, "op": "deser", "opts": o, "ty": t.lean, "d": dproto(d)}
    if o.get("schema"): req["schema"] = {o["schema"][0]: o["schema"][2]}
    if o["coerce"]: req["cenv"] = dict(coerce_env(instantiate(d)), lits=lit_first(t, ns, [], real_literal_methods(eval(t.py, ns), o)))
    return req


def pack(t, d, o, **extra):
    """self-contained, JSON-able description of a case (replayable)"""
    return dict({"py": t.py, "src": t.decls(), "ty": t.lean, "d": dproto(d), "d_repr": repr(d), "opts": o,
                 "features": sorted(t.features())}, **extra)


def evaluate(prop, t, tp, d, o, ns, mo):
    """returns (impl outcome, k_ok, list of P failures (strings), extra info)"""
    keep = {}
    im = run_impl(tp, d, o, keep=keep)
    # outside the model's datum type: instances of subclasses of the JSON classes; dicts with non-string keys under a
    # uniqueness test (`to_hashable` sorts the items: whether that works depends on the keys' classes)
    modelled = not ({"postinit", "aggregate"} & t.features()) and not has_other(d, SUBCLASSED) and not ('"dn"' in json.dumps(dproto(d)) and ({"clist", "set", "frozenset"} & t.features()))
    m = canon_model(mo["model"]) if "model" in mo else None
    oos = isinstance(m, dict) and str(m.get("crash", "")).startswith("ModelScope")
    k_ok = None if (m is None or oos or not modelled) else same(im, m)
    fails, info = [], {}
    sc = mo.get("scope", {})
    jsonish = is_json(instantiate(d)) if not has_other(d) else False
    ik = kind_of(im)
    if prop == "C01":
        if jsonish and modelled and "conforms" in mo and ik in ("ok", "invalid"):
            if (ik == "ok") != mo["conforms"]:
                fails.append("accepted-but-not-conforming" if ik == "ok" else "rejected-but-conforming")
        if jsonish and ik == "ok" and mo.get("image") is not None and sc.get("json"):
            if canon_model_val(mo["image"]) != im["ok"]: fails.append("value-is-not-the-typed-image")
        info["in_scope"] = bool((sc.get("acc") and sc.get("wf") or sc.get("accu") and sc.get("nouq") and sc.get("good")) and jsonish)
        if jsonish and not o["coerce"] and ik in ("ok", "invalid"): aliaser_check(t, tp, d, o, im, fails, info)
    elif prop == "C02":
        if ik == "invalid" and im["invalid"] is not None and o["coerce"]:
            # Optional[X] under coercion: the datum is not coercible to None and X rejects it - the errors of X are reported (as without coercion),
            # a violation inside the value does not disappear behind "expected type null"
            if t.kind == "optional" and instantiate(d) is not None:
                inner = run_impl(eval(t.kids[0].py, ns), d, o)
                if kind_of(inner) == "invalid" and inner["invalid"] is not None:
                    missing = [e for e in inner["invalid"] if e not in im["invalid"]]
                    if missing: fails.append("error-of-the-value-hidden-by-the-null-alternative"); info["value_alone"] = inner["invalid"][:5]
        elif ik == "invalid" and im["invalid"] is not None:
            if mo.get("violations") is not None and modelled:
                info["in_scope"] = True
                if canon_errors(mo["violations"]) != im["invalid"]: fails.append("errors-differ-from-declared-violations")
            if jsonish and not loc_sound(instantiate(d), im["invalid"]): fails.append("loc-outside-the-datum")
            if jsonish:
                bad = [e for e in im["invalid"] if not loc_typed(t, instantiate(d), e[0], e[1])]
                if bad: fails.append("loc-is-not-a-path-of-external-names"); info["bad_loc"] = bad[:3]
            if "depreq" in getattr(t, "tags", ()) or any(f.get("required_by") for f in getattr(t, "fields", [])):
                # the dependent_required rules of the class at the root, read off its declaration: every absent field that a present field requires is
                # reported, with the names of the present fields that require it, and nothing else is
                dd = instantiate(d)
                if isinstance(dd, dict):
                    want = sorted([[f["alias"]], ["missing_required_by", sorted(a for a in f["required_by"] if a in dd)]] for f in t.fields
                                  if f.get("required_by") and f["alias"] not in dd and not f["required"] and any(a in dd for a in f["required_by"]))
                    got = sorted(e for e in im["invalid"] if isinstance(e[1], list) and e[1] and e[1][0] == "missing_required_by" and len(e[0]) == 1)
                    if got != want: fails.append("dependent-required-violations-differ-from-the-declared-rules"); info["declared_rules_give"] = want
            im2 = run_impl(tp, d, o)
            if im2 != im: fails.append("errors-not-deterministic")
            if jsonish and not o["coerce"] and im["invalid"] is not None: aliaser_check(t, tp, d, o, im, fails, info)
            locs = [json.dumps(e) for e in im["invalid"]]
            # (alternatives of a union may each report the same message at the same place)
            if not ({"union", "optional"} & t.features()) and len(set(locs)) != len(locs): fails.append("violation-reported-twice")
    elif prop == "C03":
        info["in_scope"] = bool(sc.get("accu", sc.get("acc")) and sc.get("nouq") and sc.get("jsonx", sc.get("json")) and not o["coerce"])
        if ik == "crash": fails.append("crash:" + im["crash"])
        elif ik == "invalid" and im["invalid"] is None: fails.append("errors-not-computable:" + im.get("errors_crash", ""))
        before = snapshot(keep["data"]) if False else None
        data = instantiate(d); snap = snapshot(data)
        from apischema import deserialize
        try: deserialize(tp, data, additional_properties=o["ap"], fall_back_on_default=o["fbod"], no_copy=o["nc"], coerce=o["coerce"])
        except Exception: pass
        if snapshot(data) != snap: fails.append("input-modified")
        if "dataclass" in t.features():
            # ... and under the other way of building dataclass instances (settings.deserialization.override_dataclass_constructors)
            from apischema import settings
            prev = settings.deserialization.override_dataclass_constructors
            try:
                settings.deserialization.override_dataclass_constructors = not prev
                k5 = {}; alt5 = run_impl(tp, d, o, keep=k5)
            finally: settings.deserialization.override_dataclass_constructors = prev
            if kind_of(alt5) == "crash" and ik != "crash": fails.append("crash:" + alt5["crash"] + "(override_dataclass_constructors)")
            if snapshot(k5["data"]) != snapshot(instantiate(d)): fails.append("input-modified"); info["input_after(override_dataclass_constructors)"] = repr(k5["data"])[:200]
    elif prop == "C08":
        info["in_scope"] = bool(sc.get("scope"))
        outs = {}
        for nc in (False, True):
            for meth in (False, True):
                k2 = {}
                outs[(nc, meth)] = (run_impl(tp, d, dict(o, nc=nc), method=meth, keep=k2), k2)
        base = outs[(False, False)][0]
        strip = lambda x: {k: v for k, v in x.items() if k != "msg"}
        for key, (out, k2) in outs.items():
            if strip(out) != strip(base):
                fails.append(f"result-depends-on-{'no_copy' if key[0] else 'precomputed-method'}")
                info["differs"] = {"no_copy=False,function": strip(base), f"no_copy={key[0]},method={key[1]}": strip(out)}; break
        from apischema import settings
        prev = settings.deserialization.override_dataclass_constructors
        try:
            settings.deserialization.override_dataclass_constructors = not prev
            k3 = {}
            alt = run_impl(tp, d, o, keep=k3)
            # the same datum a second time: a default (factory) value must not be shared between two results, nor end up in the input
            k4 = {}
            alt2 = run_impl(tp, d, o, keep=k4)
        finally:
            settings.deserialization.override_dataclass_constructors = prev
        if strip(alt) != strip(im): fails.append("result-depends-on-override_dataclass_constructors")
        elif strip(alt2) != strip(alt): fails.append("result-depends-on-override_dataclass_constructors"); info["second_run"] = strip(alt2)
        if snapshot(k3["data"]) != snapshot(instantiate(d)):
            fails.append("input-modified-with-override_dataclass_constructors"); info["input_after"] = repr(k3["data"])[:200]
        if "value" in k3 and "value" in k4:
            # two results never share a mutable default (a default_factory list written once and reused)
            both = (set(value_containers(k3["value"])) & set(value_containers(k4["value"]))) - set(containers(k3["data"])) - set(containers(k4["data"]))
            if both: fails.append("two-results-share-a-mutable-container-with-override_dataclass_constructors")
        out, k2 = outs[(False, False)]
        if "value" in k2:
            shared = set(containers(k2["data"])) & set(value_containers(k2["value"]))
            if shared:
                fails.append("no_copy=False-shares-a-container-with-the-input")
                paths = [p for p, c in container_paths(k2["data"]) if id(c) in shared]
                # outermost shared containers only (what is inside a shared container is shared with it)
                outer = [p for p in paths if not any(q != p and p[:len(q)] == q for q in paths)]
                info["shared_at_any"] = all(at_any(t, k2["data"], p) for p in outer)
        for key, (out, k2) in outs.items():
            if snapshot(k2["data"]) != snapshot(instantiate(d)): fails.append("input-modified"); break
    elif prop == "C13":
        if t.kind in ("union", "optional") and ik in ("ok", "invalid"):
            alts = []
            for a in t.kids:
                alts.append(run_impl(eval(a.py, ns), d, o))
            if t.kind == "optional": alts.append(run_impl(type(None), d, o))
            info["in_scope"] = True
            if all(kind_of(a) in ("ok", "invalid") for a in alts):
                first = next((a for a in alts if "ok" in a), None)
                if (first is not None) != (ik == "ok"):
                    fails.append("accepts-but-no-alternative-does" if ik == "ok" else "rejects-but-an-alternative-accepts")
                elif first is not None and not py_equal(first["ok"], im["ok"]):
                    fails.append("value-differs-from-first-accepting-alternative")
    elif prop == "C14":
        st = run_impl(tp, d, dict(o, coerce=False))
        info["strict"] = kind_of(st)
        if "ok" in st:
            info["in_scope"] = bool(sc.get("cfrag")) if sc else None
            if ik != "ok": fails.append("strictly-accepted-but-rejected-under-coercion:" + ik + ":" + im.get("crash", ""))
            elif "union" not in t.features() and "optional" not in t.features() and not o["fbod"] \
                    and not any(f["fbod"] for f in all_fields(t)) and st["ok"] != im["ok"]:
                # (fall-back on default is a union in disguise: a field that fell back strictly may be coerced)
                fails.append("coercion-changes-an-accepted-value")
        elif ik == "ok" and jsonish and not o["fbod"]:
            # rejected strictly, accepted under coercion: every leaf where the class of the datum is not the expected one
            # must be a conversion of the documented table (model-free; union-free types only)
            bad = outside_table(t, instantiate(d))
            if bad: fails.append("coercion-outside-the-documented-table"); info["outside_table"] = bad[:3]
        # custom coercers: one that never converts leaves strict behaviour unchanged; the result of one that returns
        # wrong-typed values is still type-checked (ValidationError, or a value of the declared type; never anything else)
        if rnd_pick(d, 3) == 0:
            keep2 = {}
            idr = run_impl(tp, d, dict(o, coerce=_identity_coercer), keep=keep2)
            if kind_of(idr) != kind_of(st): fails.append("identity-coercer-changes-acceptance:" + kind_of(st) + "->" + kind_of(idr))
            elif "ok" in idr and not ({"union", "optional"} & t.features()) and idr["ok"] != st["ok"]: fails.append("identity-coercer-changes-the-value")
            if "ok" in idr and jsonish and not value_fits(t, keep2.get("value"), ns): fails.append("custom-coercer-result-not-type-checked"); info["got"] = repr(keep2.get("value"))[:80]
            keep3 = {}
            wr = run_impl(tp, d, dict(o, coerce=_wrong_coercer), keep=keep3)
            if kind_of(wr) == "crash": fails.append("wrong-typed-coercer-result-crashes:" + wr["crash"])
            elif "ok" in wr and jsonish and not value_fits(t, keep3.get("value"), ns): fails.append("custom-coercer-result-not-type-checked"); info["got"] = repr(keep3.get("value"))[:80]
        if "strict" in mo and modelled:
            ms = canon_model(mo["strict"])
            if not str(ms.get("crash", "")).startswith("ModelScope") and not same(st, ms): k_ok = False
    return im, m, k_ok, fails, info


def _prefix_aliaser(s): return "al_" + s
OBJ_KINDS = {"dataclass", "namedtuple", "typeddict"}


class Ambiguous(Exception): pass


def rename_keys(t, d, f):
    """the datum `d`, with `f` applied to every key that is the external name of a field of the object type at that
    position (type-directed; the keys of mappings, additional / pattern properties and unexpected keys are left alone).
    Raises Ambiguous where a union does not determine which keys are field names."""
    k = t.kind
    if k in ("list", "set", "frozenset", "vtuple", "clist", "sequence"):
        return [rename_keys(t.kids[0], x, f) for x in d] if isinstance(d, list) and t.kids and t.kids[0].kind != "cut" else d
    if k == "tuple":
        return [rename_keys(a, x, f) for a, x in zip(t.kids, d)] + list(d[len(t.kids):]) if isinstance(d, list) else d
    if k in ("mapping", "cdict"):
        return {kk: rename_keys(t.kids[-1], x, f) for kk, x in d.items()} if isinstance(d, dict) else d
    if k == "optional": return d if d is None else rename_keys(t.kids[0], d, f)
    if k == "newtype": return rename_keys(t.kids[0], d, f)
    if k in ("union", "tuple_union"):
        if not any(OBJ_KINDS & a.features() for a in t.kids): return d
        if not has_dict(d): return d
        # (an alternative that holds a mapping or Any at any depth can read the dicts of the datum as well: their keys are then data, not field names)
        cands = [a for a in t.kids if (OBJ_KINDS & a.features()) or ({"mapping", "cdict", "any"} & a.features())]
        if len(cands) != 1 or not (OBJ_KINDS & cands[0].features()): raise Ambiguous()
        return rename_keys(cands[0], d, f)
    if hasattr(t, "fields"):
        if not isinstance(d, dict): return d
        by_alias = {fl["alias"]: fl for fl in t.fields}
        agg = getattr(t, "aggregate", None)
        out = {}
        for kk, x in d.items():
            if kk in by_alias: out[f(kk)] = rename_keys(by_alias[kk]["ty"], x, f)
            elif agg and agg["kind"] == "flatten" and kk in ("x", "y"): out[f(kk)] = x
            else: out[kk] = x
        return out
    return d


def has_dict(d):
    if isinstance(d, dict): return True
    return isinstance(d, list) and any(has_dict(x) for x in d)


def strip_prefix(x, p="al_"):
    if isinstance(x, str): return x.replace(p, "")
    if isinstance(x, list): return [strip_prefix(y, p) for y in x]
    if isinstance(x, dict): return {strip_prefix(k, p): strip_prefix(v, p) for k, v in x.items()}
    return x


def aliaser_check(t, tp, d, o, im, fails, info):
    """deserialize(T, d) and deserialize(T, d with every field name renamed by f, aliaser=f) have the same outcome (the
    errors up to the renaming of their locations)"""
    if not isinstance(d, (dict, list)) or has_other(d) or not (OBJ_KINDS & t.features()) or "recursive" in t.features(): return
    try: d2 = rename_keys(t, instantiate(d), _prefix_aliaser)
    except Ambiguous: return
    al = run_impl(tp, d2, dict(o, aliaser=_prefix_aliaser))
    info["aliaser_run"] = True
    a, b = {k: v for k, v in im.items() if k != "msg"}, {k: v for k, v in al.items() if k != "msg"}
    if "invalid" in a and "invalid" in b and a["invalid"] is not None and b["invalid"] is not None:
        key = lambda e: json.dumps(e, sort_keys=True, default=str)
        if sorted(map(key, a["invalid"])) != sorted(map(key, strip_prefix(b["invalid"]))):
            fails.append("errors-differ-under-an-aliaser"); info["with_aliaser"] = b["invalid"][:4]; info["renamed_datum"] = repr(d2)[:200]
    elif a != b:
        fails.append("outcome-differs-under-an-aliaser:" + kind_of(im) + "->" + kind_of(al)); info["renamed_datum"] = repr(d2)[:200]
        info["with_aliaser"] = repr(b)[:300]


def _identity_coercer(cls, data): return data
_WRONG = {int: "x", float: "x", str: 0, bool: "x", type(None): 0, list: {}, dict: []}
def _wrong_coercer(cls, data): return _WRONG.get(cls, data)
def rnd_pick(d, n): return hash(json.dumps(dproto(d), sort_keys=True, default=str)) % n


def value_fits(t, v, ns):
    """is the runtime value `v` a value of the generated type `t` (classes looked up in the generated module)"""
    k = t.kind
    if k in ("any", "cut", "merged", "tuple_union"): return True
    if k == "none": return v is None
    if k == "bool": return type(v) is bool
    if k in ("int", "cint"): return type(v) is int
    if k in ("float", "cfloat"): return type(v) is float
    if k in ("str", "cstr"): return type(v) is str
    if k in ("literal", "enum"):
        if k == "enum": return type(v).__name__ == t.py
        return any(v == x and type(v) is type(x) for x in t.vals) or any(v == x for x in t.vals)
    if k in ("list", "clist", "sequence"): return isinstance(v, (list, tuple)) and all(value_fits(t.kids[0], x, ns) for x in v)
    if k == "set": return type(v) is set and all(value_fits(t.kids[0], x, ns) for x in v)
    if k == "frozenset": return type(v) is frozenset and all(value_fits(t.kids[0], x, ns) for x in v)
    if k == "vtuple": return type(v) is tuple and all(value_fits(t.kids[0], x, ns) for x in v)
    if k == "tuple": return type(v) is tuple and len(v) == len(t.kids) and all(value_fits(a, x, ns) for a, x in zip(t.kids, v))
    if k in ("mapping", "cdict"): return isinstance(v, dict) and all(value_fits(t.kids[-1], x, ns) for x in v.values())
    if k == "optional": return v is None or value_fits(t.kids[0], v, ns)
    if k == "union": return any(value_fits(a, v, ns) for a in t.kids)
    if k == "newtype": return value_fits(t.kids[0], v, ns)
    if hasattr(t, "fields"):
        cls = ns.get(t.py)
        if k == "typeddict" or cls is None: return isinstance(v, dict) if k == "typeddict" else True
        if not isinstance(v, cls): return False
        return all(value_fits(f["ty"], getattr(v, f["name"]), ns) for f in t.fields if hasattr(v, f["name"]) and not f["fbod"])
    return True


BOOL_WORDS = {"0", "1", "f", "t", "n", "y", "no", "yes", "false", "true", "off", "on", "ko", "ok"}     # the documented table


def outside_table(t, d):
    """leaves of (type, datum) whose conversion is not in the documented table; None-free best effort: positions under a
    union, Any, Literal or Enum are not judged"""
    k = t.kind; out = []
    if k in ("union", "optional", "any", "literal", "enum", "tuple_union", "cut"): return out
    if k in ("newtype",): return outside_table(t.kids[0], d)
    if k == "merged": return out
    if k in ("none",):
        if d is not None and d != "": out.append(["none", repr(d)])
    elif k == "bool":
        if type(d) is not bool and not (type(d) is int) and not (isinstance(d, str) and d.lower() in BOOL_WORDS): out.append(["bool", repr(d)])
    elif k in ("int", "cint"):
        if type(d) not in (int, float, str): out.append(["int", repr(d)])
    elif k in ("float", "cfloat"):
        if type(d) not in (int, float, str): out.append(["float", repr(d)])
    elif k in ("str", "cstr"):
        if type(d) not in (int, float, str): out.append(["str", repr(d)])
    elif k in ("list", "set", "frozenset", "vtuple", "clist", "sequence"):
        if isinstance(d, list):
            for x in d: out += outside_table(t.kids[0], x)
        else: out.append([k, repr(d)[:40]])
    elif k == "tuple":
        if isinstance(d, list) and len(d) == len(t.kids):
            for a, x in zip(t.kids, d): out += outside_table(a, x)
        else: out.append([k, repr(d)[:40]])
    elif k in ("mapping", "cdict"):
        if isinstance(d, dict):
            for x in d.values(): out += outside_table(t.kids[-1], x)
        else: out.append([k, repr(d)[:40]])
    elif hasattr(t, "fields"):
        if isinstance(d, dict):
            for f in t.fields:
                if f["alias"] in d and not f["fbod"]: out += outside_table(f["ty"], d[f["alias"]])
        else: out.append([k, repr(d)[:40]])
    return out


def all_fields(t):
    for f in getattr(t, "fields", []): yield f
    for k in t.kids: yield from all_fields(k)


def container_paths(d, path=()):
    if isinstance(d, list):
        yield path, d
        for i, x in enumerate(d): yield from container_paths(x, path + (i,))
    elif isinstance(d, dict):
        yield path, d
        for k, x in d.items(): yield from container_paths(x, path + (k,))


def at_any(t, d, path):
    """does the position `path` of datum `d` lie at (or below) an `Any`-typed position of type `t`"""
    k = t.kind
    if k == "any": return True
    if k in ("newtype", "optional"): return at_any(t.kids[0], d, path)
    if k == "union": return any(at_any(a, d, path) for a in t.kids)
    if not path: return False
    step, rest = path[0], path[1:]
    if k in ("list", "set", "frozenset", "vtuple", "clist") and isinstance(d, list) and isinstance(step, int) and step < len(d):
        return at_any(t.kids[0], d[step], rest)
    if k == "tuple" and isinstance(d, list) and isinstance(step, int) and step < min(len(d), len(t.kids)):
        return at_any(t.kids[step], d[step], rest)
    if k in ("mapping", "cdict") and isinstance(d, dict) and step in d:
        return at_any(t.kids[-1], d[step], rest)
    if k in ("dataclass", "namedtuple", "typeddict") and isinstance(d, dict) and step in d:
        for f in t.fields:
            if f["alias"] == step: return at_any(f["ty"], d[step], rest)
        agg = getattr(t, "aggregate", None)
        if agg and agg.get("value", (None,))[0] == "Any": return True      # values of a `properties` mapping typed Dict[str, Any]
        return k == "typeddict"       # extra keys of a TypedDict are returned as they are
    return False


def py_equal(a, b):
    """Python `==` on canonical value terms: 1 == 1.0 == True"""
    def norm(v):
        t = v[0]
        if t == "b": return ["num", "1/1" if v[1] else "0/1"]
        if t == "i": return ["num", f"{int(v[1])}/1"]
        if t == "f":
            if "/" in v[1]:
                p, q = v[1].split("/"); import fractions; f = fractions.Fraction(int(p), int(q)); return ["num", f"{f.numerator}/{f.denominator}"]
            return v
        if t in ("l", "t", "set", "fset"): return [t, [norm(x) for x in v[1]]]
        if t == "d": return [t, sorted(([norm(k), norm(x)] for k, x in v[1]), key=json.dumps)]
        if t == "obj": return [t, v[1], [[n, norm(x)] for n, x in v[2]]]
        return v
    return norm(a) == norm(b)


RULES = {
    "C01": "generated (type, options, datum): types of depth <= 3 over every constructor of the grammar; data valid-by-construction "
           "with boundary mutations in half of the cases; every case over an object type is run a second time under a renaming aliaser with the field names of the datum renamed "
           "(histogram aliaser-runs); non-trivial = the type has a non-leaf constructor; distinct by (type term, datum, options)",
    "C02": "as C01 with 90% mutated data; non-trivial = rejected with a non-empty error list on a type with a non-leaf constructor",
    "C03": "as C01 plus the malformed stream (non-JSON objects, JSON-class subclasses, huge ints, NaN/inf, non-string keys) and coercion in 40%; "
           "non-trivial = datum not JSON-shaped, or coercion on, on a type with a non-leaf constructor",
    "C08": "as C01, each case run with no_copy in {False, True} x {function, precomputed method} x override_dataclass_constructors; "
           "non-trivial = container or object type",
    "C13": "union-rooted types (2-3 alternatives, including alternatives sharing a JSON class) and unions nested in containers; each alternative "
           "is run separately on the real code; non-trivial = union-rooted",
    "C14": "as C01 with coercible / nearly coercible leaves substituted in 80% of the data; every case run strict and coerced, a third also with a coercer that never converts and one "
           "that returns wrong-typed values; "
           "non-trivial = strictly accepted or accepted only under coercion",
}


def nontrivial(prop, t, d, o, im, info):
    leafish = t.kind in Gen.LEAVES
    if prop == "C02": return not leafish and kind_of(im) == "invalid"
    if prop == "C03": return not leafish and (has_other(d) or o["coerce"] or not is_json(instantiate(d)))
    if prop == "C13": return t.kind in ("union", "optional")
    if prop == "C14": return info.get("strict") == "ok" or kind_of(im) == "ok"
    return not leafish


def canon_py(x):
    """structure with runtime classes (a tuple is not a list; set order ignored; NaN-safe)"""
    if isinstance(x, float): return ("f", repr(x))
    if isinstance(x, (list, tuple)): return (type(x).__name__, [canon_py(y) for y in x])
    if isinstance(x, (set, frozenset)): return (type(x).__name__, sorted((canon_py(y) for y in x), key=repr))
    if isinstance(x, dict): return ("dict", [(canon_py(k), canon_py(v)) for k, v in x.items()])
    return (type(x).__name__, repr(x))


def tuple_family_clash(t):
    if t.kind in ("union", "optional"):
        kinds = [a.kind for a in t.kids]
        if "namedtuple" in kinds and ({"tuple", "vtuple"} & set(kinds)): return True
    return any(tuple_family_clash(k) for k in t.kids)


def revalue(t, v, rnd):
    """the same value with other runtime classes where the annotation is an abstract collection (Sequence / Collection /
    MutableSequence): a tuple or a deque instead of the list that deserialization builds"""
    import dataclasses, collections as _c
    k = t.kind
    if k in ("list", "clist", "sequence") and isinstance(v, list):
        xs = [revalue(t.kids[0], x, rnd) for x in v]
        if "abstract-collection" in getattr(t, "tags", ()):
            return tuple(xs) if ("Mutable" not in t.py.split("[")[0] and rnd.random() < 0.6) else _c.deque(xs)
        return xs
    if k == "vtuple" and isinstance(v, tuple): return tuple(revalue(t.kids[0], x, rnd) for x in v)
    if k == "tuple" and isinstance(v, tuple) and len(v) == len(t.kids): return tuple(revalue(a, x, rnd) for a, x in zip(t.kids, v))
    if k in ("mapping", "cdict") and isinstance(v, dict): return {kk: revalue(t.kids[-1], x, rnd) for kk, x in v.items()}
    if k == "optional": return None if v is None else revalue(t.kids[0], v, rnd)
    if k == "newtype": return revalue(t.kids[0], v, rnd)
    if hasattr(t, "fields") and dataclasses.is_dataclass(v) and not isinstance(v, type):
        new = copy.copy(v)
        for f in t.fields:
            if hasattr(v, f["name"]): object.__setattr__(new, f["name"], revalue(f["ty"], getattr(v, f["name"]), rnd))
        return new
    return v


def ser_part(seed, budget):
    """serialization side of C08: results do not depend on no_copy, check_type (well-typed values), function vs precomputed
    method, nor - up to what serialization_default completes - on PassThroughOptions"""
    import json as _json
    from apischema import deserialize, serialize, serialization_method, serialization_default, PassThroughOptions
    from engine_ser import ambiguous_union, has_unique
    rnd = random.Random(seed * 77 + 5); pool = Pool(); g = Gen(rnd, pool, None)
    g.kinds = g.kinds + ["sequence", "tuple", "tuple"]
    types = [g.ty(3) for _ in range(120 * budget)]
    mod = build_module(pool.source(), f"C08ser_{seed}"); ns = dict(vars(mod))
    failures, n, distinct = [], 0, set()
    for t in types:
        _cache_reset()      # typing-equal types (Literal[1, True] / Literal[True, 1]) share one cache entry: finding KF13, not this property
        if ambiguous_union(t) or has_unique(t): continue
        tp = eval(t.py, ns)
        for _ in range(4):
            d = g.valid(t)
            try: v0 = deserialize(tp, fresh(d), no_copy=False)
            except Exception: continue
            so = {"exclude_none": rnd.random() < 0.3, "exclude_defaults": rnd.random() < 0.3, "additional_properties": rnd.random() < 0.3}
            def out(fn):
                try: return ("ok", canon_py(fn()))
                except Exception as e: return ("exc", type(e).__name__)
            base = out(lambda: serialize(tp, v0, no_copy=False, check_type=False, **so))
            if base[0] != "ok": continue
            v = v0
            # (under exclude_defaults a tuple is not the list default it stands for: `() == []` is False, the comparison would be between two values)
            if "abstract-collection" in t.features() and not ({"union", "optional"} & t.features()) and not so["exclude_defaults"]:
                # a tuple / deque where the annotation is Sequence / Collection: same output as the list, whatever the options
                v = revalue(t, v0, rnd)
            n += 1
            if t.kind not in Gen.LEAVES: distinct.add(case_hash(t.lean, dproto(d), so))
            variants = {
                "no_copy=True": lambda: serialize(tp, v, no_copy=True, check_type=False, **so),
                "check_type=True": lambda: serialize(tp, v, no_copy=False, check_type=True, **so),
                "no_copy=True,check_type=True": lambda: serialize(tp, v, no_copy=True, check_type=True, **so),
                "precomputed-method": lambda: serialization_method(tp, no_copy=False, check_type=False, **so)(v),
                "precomputed-method,no_copy=True": lambda: serialization_method(tp, no_copy=True, **so)(v),
            }
            for name, fn in variants.items():
                o = out(fn)
                if o != base:
                    failures.append(pack(t, d, {"ser_options": so}, kind="P", k_ok=True, why=["serialization-result-depends-on-" + name],
                                         info={"baseline": repr(base)[:300], name: repr(o)[:300]}))
                    break
            # pass-through: what is left untouched is completed by serialization_default
            # (a NamedTuple next to a tuple alternative of a union is a tuple for the first-match rule once tuples pass through:
            #  the ambiguity of finding KF29, outside this comparison)
            if tuple_family_clash(t): continue
            flags = {k: rnd.random() < 0.5 for k in ("any", "collections", "dataclasses", "enums", "tuple")}
            if flags["collections"]: pass
            try:
                pt = serialize(tp, v, no_copy=True, pass_through=PassThroughOptions(**flags), **so)
                plain = serialize(tp, v, no_copy=True, **so)
                a = _json.dumps(pt, default=serialization_default(**so), sort_keys=True)
                b = _json.dumps(plain, sort_keys=True)
                if a != b:
                    failures.append(pack(t, d, {"ser_options": so, "pass_through": flags}, kind="P", k_ok=True,
                                         why=["pass-through-result-not-completed-to-the-plain-result"], info={"pass_through": a[:300], "plain": b[:300]}))
                # ... and with every option left to its default (serialization_default() reads the same settings as serialize)
                pt0 = serialize(tp, v, no_copy=True, pass_through=PassThroughOptions(**flags))
                a0 = _json.dumps(pt0, default=serialization_default(), sort_keys=True); b0 = _json.dumps(serialize(tp, v, no_copy=True), sort_keys=True)
                if a0 != b0:
                    failures.append(pack(t, d, {"ser_options": {}, "pass_through": flags}, kind="P", k_ok=True,
                                         why=["pass-through-result-not-completed-to-the-plain-result"], info={"pass_through": a0[:300], "plain": b0[:300], "options": "defaults"}))
            except (TypeError, ValueError) as e:
                # json.dumps cannot order / encode what pass-through legitimately leaves (sets, non-string keys): not comparable
                pass
    return failures, n, distinct


def run(prop, seed, budget, ctx):
    n_types, per = {"C01": (300, 10), "C02": (300, 10), "C03": (300, 10), "C08": (150, 8), "C13": (250, 10), "C14": (250, 10)}[prop]
    cases = gen_cases(prop, seed, n_types * budget, per)
    replies = model([request(i, t, d, o, ns) for i, (t, tp, d, o, ns) in enumerate(cases)]) if ctx["driver_ok"] else [{} for _ in cases]
    failures, hist, distinct, samples = [], collections.Counter(), set(), []
    k_checked = k_bad = in_scope = 0
    for (t, tp, d, o, ns), mo in zip(cases, replies):
        if "error" in mo:
            hist["driver-error"] += 1
            failures.append(pack(t, d, o, kind="K", why="driver error: " + str(mo["error"])[:200], k_ok=False)); continue
        im, m, k_ok, fails, info = evaluate(prop, t, tp, d, o, ns, mo)
        hist["impl:" + kind_of(im)] += 1
        for f in t.features(): hist["ty:" + f] += 1
        if info.get("in_scope"): in_scope += 1
        if info.pop("aliaser_run", None): hist["aliaser-runs"] += 1
        if k_ok is not None:
            k_checked += 1
            if not k_ok: k_bad += 1
        if nontrivial(prop, t, d, o, im, info): distinct.add(case_hash(t.lean, dproto(d), o))
        if len(samples) < 6 and t.kind not in Gen.LEAVES and len(repr(d)) < 120:
            samples.append({"type": t.py, "datum": repr(d), "options": o, "outcome": kind_of(im)})
        if fails:
            hist["P:" + fails[0].split(":")[0]] += 1
            failures.append(pack(t, d, o, kind="P", why=fails, impl=im, model=m, k_ok=k_ok, scope=mo.get("scope"),
                                 info={k: v for k, v in info.items() if k != "in_scope"}))
        elif k_ok is False:
            failures.append(pack(t, d, o, kind="K", why="model and implementation disagree", impl=im, model=m, k_ok=False))
    if prop in ("C13", "C03", "C14"):
        from discr import run_discr
        df, dn, dd, dh = run_discr(seed, budget, want={"C13": ("dispatch", "roundtrip", "tagged"), "C03": ("purity",), "C14": ("coerce",)}[prop])
        failures += df; distinct |= dd
        for k, v in dh.items(): hist["discriminated:" + k] += v
        if prop == "C14":
            # literals / enums whose values have several JSON types: accepted iff the coercion to the type of some value gives a value, whatever the order of the types
            import lit_coerce
            lf, ln, ld, lh = lit_coerce.run_part(seed, budget)
            failures += lf; distinct |= ld; dn += ln
            for k_, v_ in lh.items(): hist[k_] += v_
            for f in lf: hist["P:" + f["why"][0].split(":")[0]] += 1
        if prop == "C13":
            # what the selected alternative *raises* (exceptions of the user's converters / validators) is what the union raises
            import exc_masking
            ef, en, ed, eh = exc_masking.run_part(seed, budget)
            failures += ef; distinct |= ed; dn += en
            for k_, v_ in eh.items(): hist[k_] += v_
            for f in ef: hist["P:" + f["why"][0]] += 1
            import corners7
            ef, en, ed, eh = corners7.run_part("C13", seed, budget)
            failures += ef; distinct |= ed; dn += en
            for k_, v_ in eh.items(): hist[k_] += v_
            for f in ef: hist["P:" + f["why"][0]] += 1
            import objmodel
            ef, en, ed, eh = objmodel.run_part("C13", seed, budget)
            failures += ef; distinct |= ed; dn += en
            for k_, v_ in eh.items(): hist[k_] += v_
            for f in ef: hist["P:" + f["why"][0]] += 1
        if prop == "C03":
            # classes with validators (the error path runs the validators that can still run, on a mock of the object): whatever the data, a value or a ValidationError
            import engine_validate
            vf, vn, vd = engine_validate.e2e_nocrash(seed, budget)
            for f in vf: hist["P:" + f["why"][0]] += 1
            failures += vf; distinct |= vd; hist["validator-classes(no-crash)"] = vn; dn += vn
            import agg_validators
            af_, an_, ad_, ah_ = agg_validators.run_part(seed, budget)
            af_ = [f for f in af_ if f["why"][0].startswith("crash")]           # (what C03 is about; the other clauses are C10's)
            failures += af_; distinct |= ad_; dn += an_
            for f in af_: hist["P:" + f["why"][0].split(":")[0]] += 1
            import std_nocrash
            sf_, sn_, sd_, sh_ = std_nocrash.run_part(seed, budget)
            failures += sf_; distinct |= sd_; dn += sn_
            for k_, v_ in sh_.items(): hist[k_] += v_
            for f in sf_: hist["P:" + f["why"][0].split(":")[0]] += 1
            import corners7
            hf_, hn_, hd_, hh_ = corners7.run_part("C03", seed, budget)
            failures += hf_; distinct |= hd_; dn += hn_
            for k_, v_ in hh_.items(): hist[k_] += v_
            for f in hf_: hist["P:" + f["why"][0].split(":")[0]] += 1
            import defconv_hist
            hf_, hn_, hd_, hh_ = defconv_hist.run_part(seed, budget)
            failures += hf_; distinct |= hd_; dn += hn_
            for k_, v_ in hh_.items(): hist[k_] += v_
            for f in hf_: hist["P:" + f["why"][0].split(":")[0]] += 1
            import rec_graph
            hf_, hn_, hd_, hh_ = rec_graph.run_part(seed + 1000, budget)
            failures += hf_; distinct |= hd_; dn += hn_
            for k_, v_ in hh_.items(): hist[k_] += v_
            for f in hf_: hist["P:" + f["why"][0].split(":")[0]] += 1
        extra_rule = "; discriminated unions (annotated discriminator with default / explicit / partial mapping, or inherited from a parent class; Literal discriminator fields, aliased or absent; alternatives with a flattened or pattern-properties field) and a TaggedUnion: " + \
                     {"C13": "dispatch = the mapped alternative alone, unknown / missing tag rejected, serialization adds the key and round-trips",
                      "C03": "input not modified, repeated deserialization stable, no crash",
                      "C14": "the coerced run accepts what the strict run accepts, with the same value; a numeric string is converted inside the alternative"}[prop]
        return {"evaluations": len(cases) + dn, "distinct_nontrivial": len(distinct), "rule": RULES[prop] + extra_rule, "samples": samples,
                "histograms": dict(hist), "in_scope": in_scope, "correspondence": {"compared_with_model": k_checked, "disagreements": k_bad}, "failures": failures}
    if prop == "C02":
        import engine_validate
        vf, vn, vd = engine_validate.e2e_locations(seed, budget)
        for f in vf: hist["P:" + f["why"][0]] += 1
        failures += vf; distinct |= vd; hist["validator-classes-under-an-aliaser"] = vn
        import corners8
        c8f_, c8n_, c8d_, c8h_ = corners8.run_part("C02", seed, budget)
        failures += c8f_; distinct |= c8d_; vn += c8n_
        for k_, v_ in c8h_.items(): hist[k_] += v_
        for f in c8f_: hist["P:" + f["why"][0].split(":")[0]] += 1
        import corners7
        gf, gn, gd, gh = corners7.run_part("C02", seed, budget)
        failures += gf; distinct |= gd; vn += gn
        for k_, v_ in gh.items(): hist[k_] += v_
        for f in gf: hist["P:" + f["why"][0].split(":")[0]] += 1
        import objmodel
        gf, gn, gd, gh = objmodel.run_part("C02", seed, budget)
        failures += gf; distinct |= gd; vn += gn
        for k_, v_ in gh.items(): hist[k_] += v_
        for f in gf: hist["P:" + f["why"][0].split(":")[0]] += 1
        return {"evaluations": len(cases) + vn, "distinct_nontrivial": len(distinct), "rule": RULES[prop] + "; plus dataclasses with validators (raise / yield, field, discard) "
                "deserialized under a dynamic aliaser: every location is the aliased path", "samples": samples,
                "histograms": dict(hist), "in_scope": in_scope, "correspondence": {"compared_with_model": k_checked, "disagreements": k_bad}, "failures": failures}
    if prop == "C01":
        import agg_oracle
        af, an, ad, ah = agg_oracle.run_part(seed, budget)
        failures += af; distinct |= ad
        for k_, v_ in ah.items(): hist[k_] += v_
        for f in af: hist["P:" + f["why"][0].split(":")[0]] += 1
        import generics
        gf, gn, gd, gh = generics.run_part("C01", seed, budget)
        failures += gf; distinct |= gd; an += gn
        for k_, v_ in gh.items(): hist[k_] += v_
        for f in gf: hist[("P:" + f["why"][0].split(":")[0]) if f["kind"] == "P" else "K"] += 1
        import corners7
        gf, gn, gd, gh = corners7.run_part("C01", seed, budget)
        failures += gf; distinct |= gd; an += gn
        for k_, v_ in gh.items(): hist[k_] += v_
        for f in gf: hist["P:" + f["why"][0].split(":")[0]] += 1
        import corners8
        c8f_, c8n_, c8d_, c8h_ = corners8.run_part("C01", seed, budget)
        failures += c8f_; distinct |= c8d_; an += c8n_
        for k_, v_ in c8h_.items(): hist[k_] += v_
        for f in c8f_: hist["P:" + f["why"][0].split(":")[0]] += 1
        import objmodel
        gf, gn, gd, gh = objmodel.run_part("C01", seed, budget)
        failures += gf; distinct |= gd; an += gn
        for k_, v_ in gh.items(): hist[k_] += v_
        for f in gf: hist["P:" + f["why"][0].split(":")[0]] += 1
        return {"evaluations": len(cases) + an, "distinct_nontrivial": len(distinct), "rule": RULES[prop] + "; plus classes with pattern / additional-properties / flattened fields "
                "(overlapping patterns, declared fields matching a pattern, flattened keys matching a pattern) against a reference attribution of the keys; specialised generic dataclasses "
                "(hierarchies with reordered / repeated / wrapped parameters) against the model's substitution (K) and against plain twin classes (P)", "samples": samples,
                "histograms": dict(hist), "in_scope": in_scope, "correspondence": {"compared_with_model": k_checked, "disagreements": k_bad}, "failures": failures}
    if prop == "C08":
        sf, sn, sd = ser_part(seed, budget)
        failures += sf; hist["serialization-cases"] = sn
        for f in sf: hist["P:" + f["why"][0]] += 1
        distinct |= sd
        import corners8
        c8f_, c8n_, c8d_, c8h_ = corners8.run_part("C08", seed, budget)
        failures += c8f_; distinct |= c8d_; sn += c8n_
        for k_, v_ in c8h_.items(): hist[k_] += v_
        for f in c8f_: hist["P:" + f["why"][0].split(":")[0]] += 1
        import corners7
        pf, pn, pd, ph = corners7.run_part("C08", seed, budget)
        failures += pf; distinct |= pd; sn += pn
        for k_, v_ in ph.items(): hist[k_] += v_
        for f in pf: hist["P:" + f["why"][0].split(":")[0]] += 1
        import passthrough
        pf, pn, pd, ph = passthrough.run_part(seed, budget)
        failures += pf; distinct |= pd; sn += pn
        for k_, v_ in ph.items(): hist[k_] += v_
        for f in pf: hist["P:" + f["why"][0].split(":")[0]] += 1
        return {"evaluations": len(cases) + sn, "distinct_nontrivial": len(distinct), "rule": RULES[prop] + "; serialization side: values x no_copy x check_type x "
                "{function, precomputed method} x random PassThroughOptions completed by serialization_default; deserialization pass_through: named classes x plain JSON data "
                "(valid / broken) and data with instances at named positions x {function, precomputed method} x coerce", "samples": samples,
                "histograms": dict(hist), "in_scope": in_scope, "correspondence": {"compared_with_model": k_checked, "disagreements": k_bad}, "failures": failures}
    return {"evaluations": len(cases), "distinct_nontrivial": len(distinct), "rule": RULES[prop], "samples": samples,
            "histograms": dict(hist), "in_scope": in_scope,
            "correspondence": {"compared_with_model": k_checked, "disagreements": k_bad},
            "failures": failures}


def replay(prop, case, ctx):
    if case.get("part") == "deserialize" and "validators" in case:
        import engine_validate
        return engine_validate.replay(prop, case, ctx)
    if case.get("part") == "aggregate-validators":
        return {k: case[k] for k in ("src", "datum", "outcome", "validators_run", "why")}
    if case.get("part") == "std-types":
        return {k: case[k] for k in ("py", "datum", "coerce", "first", "second", "why")}
    if case.get("part") == "aggregate-oracle":
        return {k: case[k] for k in ("src", "py", "datum", "additional_properties", "why", "info")}
    if case.get("part") == "deser-pass-through":
        return {k: case[k] for k in ("py", "named", "coerce", "plain_datum", "datum_with_instances", "why", "info")}
    mod = build_module("\n".join(HEADER + case["src"]), "replay"); ns = dict(vars(mod))
    tp = eval(case["py"], ns)
    class T: pass
    t = T(); t.py, t.lean, t.kind = case["py"], case["ty"], case["features"] and None
    # rebuild a light node: features/kids are only needed by C13, where alternatives are re-derived from typing
    d = unproto(case["d"]); o = case["opts"]
    im = run_impl(tp, d, o)
    req = {"id": 0, "op": "deser", "opts": o, "ty": case["ty"], "d": case["d"]}
    if o["coerce"]: req["cenv"] = dict(coerce_env(instantiate(d)), lits=[])
    mo = model([req])[0]
    m = canon_model(mo["model"]) if "model" in mo else None
    return {"type": case["py"], "datum": repr(d), "options": o, "impl": im, "model": m, "spec_conforms": mo.get("conforms"),
            "recorded_why": case.get("why"), "recorded_impl": case.get("impl"),
            "fails": (case.get("kind") == "K" and not same(im, m)) or (case.get("kind") == "P" and {k: v for k, v in im.items() if k != "msg"} == {k: v for k, v in (case.get("impl") or {}).items() if k != "msg"})}


def unproto(p):
    t = p[0]
    if t == "o": return Other(p[1])
    if t == "l": return [unproto(x) for x in p[1]]
    if t == "d": return {k: unproto(v) for k, v in p[1]}
    if t == "dn":
        def hk(k):
            k = unproto(k); return tuple(k) if isinstance(k, list) else k
        return {hk(k): unproto(v) for k, v in p[1]}
    return proto_py(p)


# ---------------------------------------------------------------------------------------------- known findings
def _feat(case, *names): return any(n in case["features"] for n in names)


def is_known(kid, case):
    """a failure is known only if the real code still behaves exactly like the faithful model on the case
    (`k_ok`), or - for inputs outside the model's datum type - the exception is the recorded one"""
    why = case.get("why") if isinstance(case.get("why"), list) else []
    im = case.get("impl") or {}
    k_ok = case.get("k_ok")
    pred = KF.get(kid)
    return bool(pred and case.get("kind") == "P" and pred(case, why, im, k_ok))


def _same_locs(differs):
    outs = list(differs.values())
    if len(outs) != 2 or not all(isinstance(o.get("invalid"), list) for o in outs): return False
    # the entries the two runs do not share: each side's are a key error at a mapping item, or errors inside the value of that
    # same item (at or below the item's location)
    a = [e for e in outs[0]["invalid"] if e not in outs[1]["invalid"]]; b = [e for e in outs[1]["invalid"] if e not in outs[0]["invalid"]]
    if not a or not b: return False
    related = lambda x, y: x[:len(y)] == y or y[:len(x)] == x
    return all(any(related(e[0], f[0]) for f in b) for e in a) and all(any(related(e[0], f[0]) for f in a) for e in b)


def _crash(why, cls): return any(w == "crash:" + cls for w in why)


KF = {
    # `@discriminator` on a class with exactly one subclass: `Union[(A,)]` is `A`, the union - and with it the discriminator - disappears
    "KF50": lambda c, why, im, k_ok: c.get("mode") == "inherited-single" and bool(why) and why[0] in (
        "discriminator-dispatch-differs-from-the-alternative-alone", "missing-discriminator-not-rejected",
        "serialized-union-value-is-not-the-alternative-plus-the-discriminator"),
    # ValidationError.errors sorts the children keys: a dict datum with keys of several classes cannot be sorted
    "KF07": lambda c, why, im, k_ok: any(w.startswith("errors-not-computable:TypeError") for w in why) and k_ok is not False
                                     and '"dn"' in json.dumps(c["d"]),
    # float(int) overflows for |int| >= 2**1024 in FloatMethod (strict mode)
    # (a union next to a class outside the model - aggregate fields - is not compared with the model: there the model's own verdict on the float alternative, the same crash, stands in for k_ok)
    "KF08a": lambda c, why, im, k_ok: (_crash(why, "OverflowError") and (k_ok is True or (k_ok is None and (c.get("model") or {}).get("crash") == "OverflowError"))
                                       and "float" in " ".join(c["features"]) and ("int too large" in im.get("msg", ""))) or
                                       (c.get("part") == "std-types" and why == ["crash:OverflowError"] and bool({"float", "Decimal"} & set(c["features"]))
                                        and "int too large to convert to float" in c["first"][1]),
    # unhashable elements where a set is built or uniqueness is tested: Set[List[int]], schema(unique=True) over lists / dicts
    "KF08b": lambda c, why, im, k_ok: _crash(why, "TypeError") and k_ok is not False and im.get("msg", "").startswith("unhashable type")
                                      and ({"set", "frozenset", "clist"} & set(c["features"])),
    # to_hashable() sorts the items of a dict datum (uniqueItems / sets over Any): keys of several classes cannot be ordered
    # a `properties(pattern=...)` field matches its pattern against every remaining key: a non-string key raises TypeError
    "KF45": lambda c, why, im, k_ok: _crash(why, "TypeError") and k_ok is not False and "aggregate-pattern" in c["features"]
                                     and "expected string or bytes-like object" in im.get("msg", "") and '"dn"' in json.dumps(c["d"]),
    # a non-string key reaches a key method whose bad_type / pattern / literal lookup raises
}
