"""C13 (dispatch shortcuts = try-each-alternative) on what the alternatives *raise*: an exception of the user's own code (a converter or a validator
raising KeyError, IndexError, TypeError, ...) inside the alternative selected by the JSON type of the datum leaves `deserialize` exactly as it leaves
the alternative alone - the shortcut neither swallows it nor turns it into a type error."""
import collections, random
from common import build_module, case_hash

EXCS = ["KeyError", "IndexError", "TypeError", "AttributeError", "LookupError", "RuntimeError", "ZeroDivisionError", "ValueError"]
SRC = '''
from dataclasses import dataclass, field
from typing import *
from apischema import deserializer, validator, ValidationError
from apischema.conversions import Conversion

class Foo{i}:
    def __init__(self, v): self.v = v
    def __eq__(self, o): return type(o) is type(self) and o.v == self.v
    def __repr__(self): return "Foo(%r)" % (self.v,)

def foo_from_str{i}(s: str) -> Foo{i}:
    if s.startswith("raise:"): raise eval(s[6:])("user")
    return Foo{i}(s)
deserializer(Conversion(foo_from_str{i}, source=str, target=Foo{i}))

@dataclass
class Holder{i}:
    f: Foo{i}
    n: int = 0

@dataclass
class Checked{i}:
    s: str
    @validator
    def check(self):
        if self.s.startswith("raise:"): raise eval(self.s[6:])("user")
'''
# (union source, the alternative the JSON type of the datum selects, datum builder)
SHAPES = [
    ("Union[int, Holder{i}]", "Holder{i}", lambda s: {"f": s}),
    ("Union[int, List[Foo{i}]]", "List[Foo{i}]", lambda s: [s]),
    ("Union[bool, Dict[str, Foo{i}]]", "Dict[str, Foo{i}]", lambda s: {"k": s}),
    ("Union[int, Foo{i}]", "Foo{i}", lambda s: s),
    ("Union[List[int], Holder{i}, str]", "Holder{i}", lambda s: {"f": s, "n": 1}),
    ("Union[int, Checked{i}]", "Checked{i}", lambda s: {"s": s}),
    ("Optional[Holder{i}]", "Holder{i}", lambda s: {"f": s}),
    ("List[Union[int, Holder{i}]]", "List[Holder{i}]", lambda s: [{"f": s}]),
    ("Union[int, Tuple[Foo{i}, int]]", "Tuple[Foo{i}, int]", lambda s: [s, 1]),
]


def run_part(seed, budget):
    from apischema import deserialize, ValidationError
    r = random.Random(seed * 389 + 7)
    failures, hist, distinct, n = [], collections.Counter(), set(), 0
    for fam in range(4 * budget):
        ns = vars(build_module(SRC.replace("{i}", str(fam)).splitlines(), f"excm{seed}_{fam}"))
        for usrc, asrc, mk in SHAPES:
            U = eval(usrc.replace("{i}", str(fam)), ns); A = eval(asrc.replace("{i}", str(fam)), ns)
            for s in ["ok", "raise:KeyError"] + ["raise:" + e for e in r.sample(EXCS[1:], 2)]:
                d = mk(s); n += 1; distinct.add(case_hash("excm", usrc, s))
                def out(tp, coerce):
                    try: return ("ok", repr(deserialize(tp, d, coerce=coerce)))
                    except ValidationError as e: return ("invalid", repr(e.errors))
                    except Exception as e: return ("raises", type(e).__name__)
                for coerce in (False, True):
                    u, a = out(U, coerce), out(A, coerce)
                    hist["user-exception:" + a[0]] += 1
                    if a[0] in ("ok", "raises") and u != a:
                        failures.append({"kind": "P", "k_ok": None, "part": "user-exceptions-under-dispatch", "features": ["union", "conversion"], "union": usrc, "alternative": asrc, "datum": repr(d),
                                         "coerce": coerce, "through_the_union": list(u), "alternative_alone": list(a),
                                         "why": ["dispatch-shortcut-changes-what-the-selected-alternative-raises" if a[0] == "raises" else "discriminator-dispatch-differs-from-the-alternative-alone"]})
    return failures, n, distinct, hist
