"""C09, histories of *calls*: whatever calls were made before - other per-call options (aliaser, additional_properties, coercion, fall_back_on_default,
no_copy, exclude_*, check_type, all_refs, version, dynamic conversions), other types sharing classes with this one - a call answers what the same call
answers in a state that has seen nothing.  Every memo of the package is keyed by its arguments; a memo keyed by too little (or a compiled method that
keeps something of the call that built it) makes the answer depend on the order of the calls.  Oracle: pass 1 runs each call after
`apischema.cache.reset()`; pass 2 runs the whole sequence without a reset in between; the two lists of outcomes are equal."""
import collections, copy, random
from common import build_module, case_hash
from gen import Gen, Pool


def upper(s): return s.upper()
def pre(s): return "p_" + s
ALIASERS = {"none": None, "upper": upper, "pre": pre}


def run_part(seed, budget):
    import apischema
    from apischema import deserialize, serialize, ValidationError
    from apischema.json_schema import deserialization_schema, serialization_schema, JsonSchemaVersion
    r = random.Random(seed * 1231 + 17)
    failures, hist, distinct, n = [], collections.Counter(), set(), 0
    pool = Pool(); g = Gen(r, pool, None)
    g.kinds = g.kinds + ["depreq", "aggregate"]
    groups = []
    for _ in range(40 * budget):
        base = g.ty(3)
        # types that share the classes of `base`: the memo of a class is reached from several roots
        groups.append([base, g.ty(2)])
    ns = dict(vars(build_module(pool.source(), f"opthist{seed}")))
    ns_t = dict(ns); exec("from typing import *", ns_t)
    versions = [JsonSchemaVersion.DRAFT_2020_12, JsonSchemaVersion.DRAFT_7, JsonSchemaVersion.OPEN_API_3_0]
    for gi, group in enumerate(groups):
        roots = []
        for t in group:
            roots += [(t, t.py), (t, f"List[{t.py}]"), (t, f"Optional[{t.py}]")]
        calls = []
        for _ in range(r.randint(8, 16)):
            t, py = r.choice(roots)
            d = g.valid(t)
            if r.random() < 0.3: d = g.mutate(d)
            if py.startswith("List["): d = [d]
            op = r.choice(["deser", "deser", "deser", "ser", "ser", "dschema", "sschema"])
            c = {"op": op, "py": py, "d": d, "al": r.choice(sorted(ALIASERS)), "ap": r.random() < 0.4}
            if op in ("deser", "ser"): c.update(coerce=r.random() < 0.3, fbod=r.random() < 0.3, nc=r.random() < 0.5)
            if op == "ser": c.update(en=r.random() < 0.4, ed=r.random() < 0.4, ct=r.random() < 0.3, fba=r.random() < 0.3)
            if op in ("dschema", "sschema"): c.update(all_refs=r.choice([None, True, False]), version=r.randrange(len(versions)))
            calls.append(c)

        def run(c):
            try: tp = eval(c["py"], ns_t)
            except Exception as e: return ("skip", "type:" + type(e).__name__)
            al = ALIASERS[c["al"]]; kw = {} if al is None else {"aliaser": al}
            try:
                if c["op"] in ("deser", "ser"):
                    d = copy.deepcopy(c["d"])
                    try: v = deserialize(tp, d, additional_properties=c["ap"], coerce=c["coerce"], fall_back_on_default=c["fbod"], no_copy=c["nc"], **kw)
                    except ValidationError as e:
                        try: return ("invalid", repr(e.errors))
                        except Exception as e2: return ("errors-raise", type(e2).__name__)
                    if c["op"] == "deser": return ("ok", repr(v))
                    return ("ok", repr(serialize(tp, v, additional_properties=c["ap"], exclude_none=c["en"], exclude_defaults=c["ed"], check_type=c["ct"], fall_back_on_any=c["fba"], **kw)))
                fn = deserialization_schema if c["op"] == "dschema" else serialization_schema
                kw2 = dict(kw, additional_properties=c["ap"], version=versions[c["version"]])
                if c["all_refs"] is not None: kw2["all_refs"] = c["all_refs"]
                return ("ok", repr(fn(tp, **kw2)))
            except ValidationError as e: return ("invalid", repr(e.errors))
            except Exception as e: return ("raises", type(e).__name__ + ":" + str(e)[:60])

        fresh = []
        for c in calls:
            apischema.cache.reset(); fresh.append(run(c))
        apischema.cache.reset()
        got = [run(c) for c in calls]
        apischema.cache.reset()
        n += len(calls); distinct.add(case_hash("opthist", [(c["op"], c["py"], c["al"], c["ap"]) for c in calls]))
        for c, f_ in zip(calls, fresh): hist["call-history:" + c["op"]] += 1; hist["call-history-outcome:" + f_[0]] += 1
        bad = [i for i, (f_, g_) in enumerate(zip(fresh, got)) if f_ != g_]
        if bad:
            i = bad[0]
            failures.append({"kind": "P", "mode": "call-history", "k_ok": None, "features": ["call-history"], "classes": [l for t in group for l in (t.decl or [])][:40],
                             "calls": [{k: (repr(v)[:120] if k == "d" else v) for k, v in c.items()} for c in calls[: i + 1]],
                             "after_the_history": list(got[i]), "cold": list(fresh[i]), "why": ["answer-depends-on-the-calls-made-before"]})
    return failures, n, distinct, hist
