"""C03 (termination, no crash, same answer the second time) over histories of calls that differ by their per-call `default_conversion` /
`conversion`: what a type reaches depends on them (a class converted from `int` under one default conversion and from the class that holds it
under another is recursive only under the second), and the analyses the package memoises - recursion, methods, schemas - must not leak from one to
the other.  Oracle: every call of a history answers what the same call answers in a state that has seen nothing (`apischema.cache.reset()`
before it) - a value, a ValidationError with the same errors, never another exception."""
import collections, random
from common import build_module, case_hash

SRC = '''
from dataclasses import dataclass, field
from typing import Optional, List, Dict, Union
from apischema import settings
from apischema.conversions import Conversion

class Foo{i}:
    def __init__(self, p): self.p = p
    def __eq__(self, o): return type(o) is type(self) and o.p == self.p
    def __repr__(self): return "Foo(%r)" % (self.p,)

@dataclass
class Node{i}:
    v: int
    child: Optional[Foo{i}] = None

@dataclass
class Tree{i}:
    kids: List[Foo{i}] = field(default_factory=list)
    tag: str = "t"

@dataclass
class Pair{i}:
    a: Foo{i}
    b: Dict[str, Foo{i}] = field(default_factory=dict)

def _mk(src):
    def conv(x): return Foo{i}(x)
    return Conversion(conv, source=src, target=Foo{i})
def _un(tgt):
    def conv(f): return f.p
    return Conversion(conv, source=Foo{i}, target=tgt)
SOURCES = {"int": int, "str": str, "node": Node{i}, "tree": Tree{i}, "list": List[int], "optnode": Optional[Node{i}]}
D_CONVS = {k: _mk(v) for k, v in SOURCES.items()}
S_CONVS = {k: _un(v) for k, v in SOURCES.items()}
def d_default(k):
    c = D_CONVS[k]
    def dc(tp): return c if tp is Foo{i} else settings.deserialization.default_conversion(tp)
    return dc
def s_default(k):
    c = S_CONVS[k]
    def dc(tp): return c if tp is Foo{i} else settings.serialization.default_conversion(tp)
    return dc
D_DEFAULTS = {k: d_default(k) for k in SOURCES}
S_DEFAULTS = {k: s_default(k) for k in SOURCES}
'''

HOLDERS = ["Node", "Tree", "Pair", "ListFoo", "OptFoo"]


def datum(r, ctx, depth=0):
    """a datum for `Foo` under the context: mostly valid"""
    bad = r.random() < 0.15
    if ctx == "int": return "x" if bad else r.randrange(5)
    if ctx == "str": return 3 if bad else r.choice("ab")
    if ctx == "list": return [1, "x"] if bad else [r.randrange(3) for _ in range(r.randrange(3))]
    if ctx in ("node", "optnode"):
        if ctx == "optnode" and r.random() < 0.3: return None
        d = {"v": "x" if bad else r.randrange(5)}
        if depth < 3 and r.random() < 0.6: d["child"] = datum(r, ctx, depth + 1)
        elif r.random() < 0.3: d["child"] = None
        return d
    if ctx == "tree":
        d = {}
        if depth < 2 and r.random() < 0.7: d["kids"] = [datum(r, ctx, depth + 1) for _ in range(r.randrange(3))]
        if bad: d["tag"] = 1
        return d
    raise AssertionError(ctx)


def holder_datum(r, holder, ctx):
    if holder == "Node": return {"v": r.randrange(5), **({"child": datum(r, ctx)} if r.random() < 0.8 else {})}
    if holder == "Tree": return {"kids": [datum(r, ctx) for _ in range(r.randrange(3))]}
    if holder == "Pair": return {"a": datum(r, ctx), "b": {k: datum(r, ctx) for k in r.sample("xyz", r.randrange(3))}}
    if holder == "ListFoo": return [datum(r, ctx) for _ in range(r.randrange(3))]
    if holder == "OptFoo": return None if r.random() < 0.2 else datum(r, ctx)


def run_part(seed, budget):
    import apischema
    from apischema import deserialize, serialize, ValidationError
    from apischema.json_schema import deserialization_schema, serialization_schema
    from typing import List, Optional
    r = random.Random(seed * 977 + 11)
    failures, hist, distinct, n = [], collections.Counter(), set(), 0
    for fam in range(25 * budget):
        mod = build_module(SRC.replace("{i}", str(fam)).splitlines(), f"dch{seed}_{fam}"); ns = vars(mod)
        Foo = ns[f"Foo{fam}"]
        types = {"Node": ns[f"Node{fam}"], "Tree": ns[f"Tree{fam}"], "Pair": ns[f"Pair{fam}"], "ListFoo": List[Foo], "OptFoo": Optional[Foo]}
        calls = []
        for _ in range(r.randrange(5, 14)):
            holder = r.choice(HOLDERS); ctx = r.choice(sorted(ns["SOURCES"])); how = r.choice(["default", "default", "dynamic"])
            op = r.choice(["deser", "deser", "deser", "dschema", "ser", "sschema"])
            calls.append({"op": op, "holder": holder, "ctx": ctx, "how": how, "datum": holder_datum(r, holder, ctx)})
        def run(c):
            tp = types[c["holder"]]; k = c["ctx"]
            kw_d = {"default_conversion": ns["D_DEFAULTS"][k]} if c["how"] == "default" else {"conversion": ns["D_CONVS"][k]}
            kw_s = {"default_conversion": ns["S_DEFAULTS"][k]} if c["how"] == "default" else {"conversion": ns["S_CONVS"][k]}
            try:
                if c["op"] == "deser": return ("ok", repr(deserialize(tp, c["datum"], **kw_d)))
                if c["op"] == "dschema": return ("ok", repr(deserialization_schema(tp, **kw_d)))
                if c["op"] == "sschema": return ("ok", repr(serialization_schema(tp, **kw_s)))
                try: v = deserialize(tp, c["datum"], **kw_d)
                except ValidationError: return ("skip", "")
                return ("ok", repr(serialize(tp, v, **kw_s)))
            except ValidationError as e:
                try: return ("invalid", repr(e.errors))
                except Exception as e2: return ("crash", "errors:" + type(e2).__name__)
            except RecursionError: return ("crash", "RecursionError")
            except Exception as e: return ("exc", type(e).__name__ + ":" + str(e)[:80])
        fresh = []
        for c in calls:
            apischema.cache.reset(); fresh.append(run(c))
        apischema.cache.reset()
        got = [run(c) for c in calls]
        apischema.cache.reset()
        n += len(calls); distinct.add(case_hash("dch", repr([(c["op"], c["holder"], c["ctx"], c["how"]) for c in calls])))
        for c, f_, g_ in zip(calls, fresh, got):
            hist["defconv:" + c["op"]] += 1; hist["defconv-ctx:" + c["ctx"]] += 1; hist["defconv-outcome:" + f_[0]] += 1
        # dynamic conversions do not reach into the fields of objects: there `Foo` is unsupported (a TypeError of the package's own, in a cold start as well)
        bad = [i for i, (f_, g_) in enumerate(zip(fresh, got)) if g_[0] == "crash" or f_[0] == "crash" or f_ != g_]
        if bad:
            i = bad[0]
            why = "crash:" + got[i][1] if got[i][0] == "crash" else ("crash:" + fresh[i][1] if fresh[i][0] == "crash" else "answer-depends-on-the-calls-made-before")
            failures.append({"kind": "P", "part": "default-conversion-histories", "features": ["default_conversion", "history"], "family": fam,
                             "calls": [{k: (repr(v)[:100] if k == "datum" else v) for k, v in c.items()} for c in calls[: i + 1]],
                             "after_history": list(got[i]), "cold": list(fresh[i]), "why": [why], "k_ok": None})
    return failures, n, distinct, hist
