"""deser-diff: real apischema vs the Lean model on generated (type, options, datum) cases."""
import sys, os, json, random, importlib, subprocess, time, collections, itertools, copy
HERE = os.path.dirname(os.path.abspath(__file__)); sys.path.insert(0, HERE)
from gen import Gen, Pool, py_proto
from canon import val_proto, errors_proto, canon_model_val, canon_errors
from apischema import deserialize, ValidationError, settings

DRIVER = os.path.join(HERE, "..", "lean", ".lake", "build", "bin", "driver")

def fresh(d):
    """rebuild the datum the way `json.loads` would: every float (NaN included) is its own object"""
    if isinstance(d, float): return float(repr(d))
    if isinstance(d, list): return [fresh(x) for x in d]
    if isinstance(d, dict): return {k: fresh(v) for k, v in d.items()}
    return d

def run_impl(tp, d, o):
    try:
        v = deserialize(tp, fresh(d), additional_properties=o["ap"], fall_back_on_default=o["fbod"],
                        no_copy=o["nc"], coerce=o["coerce"])
        return {"ok": val_proto(v)}
    except ValidationError as e:
        try: return {"invalid": errors_proto(e.errors)}
        except Exception as e2: return {"invalid": None, "errors_crash": type(e2).__name__}
    except RecursionError: return {"crash": "RecursionError"}
    except Exception as e: return {"crash": type(e).__name__}

COERCE = bool(os.environ.get("COERCE"))
CATOMS = ["1", " 12 ", "1_0", "-3", "+4", "1.5", "1e3", "abc", "", " ", "nan", "inf", "-inf", "1e999", "0x10", "_1", "1__0",
          "ON", "Yes", "t", "F", "0", "maybe", "ko", "Ok", "true", "FALSE", "n", 0, 1, 2, -1, 1.9, -1.9, 2.0, float("nan"), float("inf"),
          True, False, None, 10**400, 1e22, 0.1, "0.1", "1.", ".5", "1e-400", "infinity", "NaN", "+inf", "١٢"]

def cmutate(rnd, d, depth=0):
    """replace some leaves by coercible / nearly coercible primitives"""
    if isinstance(d, list):
        return [cmutate(rnd, x, depth + 1) for x in d]
    if isinstance(d, dict):
        return {k: cmutate(rnd, v, depth + 1) for k, v in d.items()}
    if rnd.random() < (0.5 if depth else 0.8):
        return rnd.choice(CATOMS)
    return d

def leaves(d):
    if isinstance(d, list):
        for x in d: yield from leaves(x)
    elif isinstance(d, dict):
        for k, v in d.items():
            yield k; yield from leaves(v)
    else: yield d

JCLS = {type(None): "null", bool: "boolean", int: "integer", float: "number", str: "string"}
def lit_first(t, ns, acc):
    """first element of `LiteralMethod.types` for every literal / enum node, computed as the visitor does"""
    from apischema.utils import literal_values
    from gen import lit_proto
    if t.kind in ("literal", "enum"):
        values = list(eval(t.py, ns)) if t.kind == "enum" else list(t.vals)
        value_map = dict(zip(literal_values(values), values))
        types = tuple(set(map(type, value_map)))
        if types: acc.append([[lit_proto(v) for v in t.vals], JCLS[types[0]]])
    for k in t.kids: lit_first(k, ns, acc)
    return acc

def coerce_env(d):
    """oracle tables: CPython's int(str) / float(str) / str(float) on the leaves of this datum"""
    from apischema.deserialization.coercion import STR_TO_BOOL
    from gen import flt_proto
    ints, floats, reprs = [], [], []
    for x in leaves(d):
        if isinstance(x, str):
            try: ints.append([x, str(int(x))])
            except ValueError: pass
            try: floats.append([x, flt_proto(float(x))])
            except ValueError: pass
        elif isinstance(x, float):
            reprs.append([flt_proto(x), str(x)])
    return {"int": ints, "float": floats, "repr": reprs, "words": [[k, v] for k, v in STR_TO_BOOL.items()]}

def canon_model(m):
    if "ok" in m: return {"ok": canon_model_val(m["ok"])}
    if "invalid" in m:
        if m.get("mixed"): return {"invalid": None, "errors_crash": "TypeError"}
        return {"invalid": canon_errors(m["invalid"])}
    return m

def main():
    seed = int(os.environ.get("VERIF_SEED", "0")); n_types = int(sys.argv[1]); per = int(sys.argv[2])
    kinds = sys.argv[3].split(",") if len(sys.argv) > 3 else None
    rnd = random.Random(seed); pool = Pool(); g = Gen(rnd, pool, kinds)
    types = [g.ty(3) for _ in range(n_types)]
    modname = f"vpool_{seed}"
    with open(os.path.join(HERE, modname + ".py"), "w") as f: f.write(pool.source())
    mod = importlib.import_module(modname); ns = dict(vars(mod))
    cases = []
    for t in types:
        tp = eval(t.py, ns)
        for _ in range(per):
            d = g.valid(t)
            if rnd.random() < 0.5: d = g.mutate(d)
            if COERCE and rnd.random() < 0.8: d = cmutate(rnd, d)
            o = {"ap": rnd.random() < 0.3, "fbod": rnd.random() < 0.2, "nc": rnd.random() < 0.5, "octor": False, "coerce": COERCE,
                 "repaired": bool(os.environ.get("REPAIRED"))}
            cases.append((t, tp, d, o))
    t0 = time.time()
    lines = [json.dumps(dict({"id": i, "op": "deser", "opts": o, "ty": t.lean, "d": py_proto(d)},
                             **({"cenv": dict(coerce_env(d), lits=lit_first(t, ns, []))} if COERCE else {}))) for i, (t, tp, d, o) in enumerate(cases)]
    impl = [run_impl(tp, d, o) for (t, tp, d, o) in cases]
    t1 = time.time()
    out = subprocess.run([DRIVER], input="\n".join(lines) + "\n", capture_output=True, text=True).stdout.splitlines()
    t2 = time.time()
    stats = collections.Counter(); shown = collections.Counter()
    for (t, tp, d, o), im, line in zip(cases, impl, out):
        mo = json.loads(line)
        if "error" in mo: stats["driver-error"] += 1; print("DRIVER ERROR", mo, t.lean); continue
        m = canon_model(mo["model"])
        stats["cases"] += 1; stats["impl:" + next(iter(im))] += 1
        # P-check of C01 (acceptance): the real code accepts iff the specification says the datum conforms
        if "conforms" in mo and next(iter(im)) in ("ok", "invalid"):
            if ("ok" in im) != mo["conforms"]:
                kind = "P-accepted-but-not-conforming" if "ok" in im else "P-rejected-but-conforming"
                stats[kind] += 1
                if shown[kind] < 4:
                    shown[kind] += 1; print(kind, json.dumps({"py": t.py, "d": repr(d), "opts": o})[:400])
        if COERCE and "strict" in mo:
            # P-check of C14 on the real code: strict acceptance survives coercion
            st = run_impl(tp, d, dict(o, coerce=False))
            if "ok" in st:
                stats["strict-ok"] += 1
                if "ok" not in im:
                    stats["P-C14-not-monotone"] += 1
                    if shown["mono"] < 4: shown["mono"] += 1; print("NOT MONOTONE", t.py, repr(d), o, im)
            if canon_model(mo["strict"]) != st: stats["strict-disagree"] += 1
        if m != im:
            key = (next(iter(im)), next(iter(m)))
            stats["disagree"] += 1; stats[f"disagree:{key}"] += 1
            if shown[key] < 3:
                shown[key] += 1
                print("DISAGREE", json.dumps({"py": t.py, "d": repr(d), "opts": o, "impl": im, "model": m})[:900])
    print(dict(stats), f"impl={t1-t0:.2f}s model={t2-t1:.2f}s")
if __name__ == '__main__':
    if os.environ.get('REPAIRED'):
        import patches; patches.apply()
    main()
