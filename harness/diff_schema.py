"""schema-diff: real deserialization_schema vs the model's builder; Lean validator vs jsonschema;
P-check: deserialize accepts <=> jsonschema validates the real schema."""
import sys, os, json, random, importlib, subprocess, collections, math
HERE = os.path.dirname(os.path.abspath(__file__)); sys.path.insert(0, HERE)
from gen import Gen, Pool, py_proto
from diff_deser import fresh, DRIVER
from apischema import deserialize, ValidationError
from apischema.json_schema import deserialization_schema, serialization_schema
from apischema import serialize, settings
SER = bool(os.environ.get('SER'))
import jsonschema

def canon_schema(p):
    """protocol term of a JSON value with object keys sorted (dict equality ignores order), except
    `properties`, whose order is observable"""
    tag = p[0]
    if tag == "l": return ["l", [canon_schema(x) for x in p[1]]]
    if tag == "d":
        items = []
        for k, v in p[1]:
            v = canon_schema(v)
            # `type` lists come out of a Python `set`: order unspecified
            if k in ("type", "enum") and v[0] == "l": v = ["l", sorted(v[1], key=json.dumps)]
            items.append([k, v])
        return ["d", sorted(items, key=lambda kv: kv[0])]
    return p

def first_diff(a, b, path=""):
    if a == b: return None
    if a[0] == "d" and b[0] == "d":
        ka, kb = dict(map(tuple, [(k, json.dumps(v)) for k, v in a[1]])), dict(map(tuple, [(k, json.dumps(v)) for k, v in b[1]]))
        for k in sorted(set(ka) | set(kb)):
            if k not in ka: return f"{path}/{k}: missing in real, model={kb[k][:200]}"
            if k not in kb: return f"{path}/{k}: missing in model, real={ka[k][:200]}"
            if ka[k] != kb[k]: return first_diff(json.loads(ka[k]), json.loads(kb[k]), path + "/" + k)
    if a[0] == "l" and b[0] == "l" and len(a[1]) == len(b[1]):
        for i, (x, y) in enumerate(zip(a[1], b[1])):
            if x != y: return first_diff(x, y, f"{path}[{i}]")
    return f"{path}: real={json.dumps(a)[:200]} model={json.dumps(b)[:200]}"

def common_domain(d):
    """exclude integer-valued floats, NaN/inf (not JSON) and huge ints"""
    if isinstance(d, float): return not (d.is_integer() or math.isnan(d) or math.isinf(d))
    if isinstance(d, bool) or d is None or isinstance(d, str): return True
    if isinstance(d, int): return abs(d) < 2**53
    if isinstance(d, list): return all(map(common_domain, d))
    if isinstance(d, dict): return all(map(common_domain, d.values()))
    return False

def main():
    seed = int(os.environ.get("VERIF_SEED", "0")); n_types = int(sys.argv[1]); per = int(sys.argv[2])
    kinds = sys.argv[3].split(",") if len(sys.argv) > 3 else None
    rnd = random.Random(seed); pool = Pool(); g = Gen(rnd, pool, kinds)
    types = [g.ty(3) for _ in range(n_types)]
    modname = f"vpool_j{seed}"
    open(os.path.join(HERE, modname + ".py"), "w").write(pool.source())
    mod = importlib.import_module(modname); ns = dict(vars(mod))
    cases, lines = [], []
    stats = collections.Counter(); shown = collections.Counter()
    def note(kind, **kw):
        stats[kind] += 1
        if shown[kind] < int(os.environ.get("SHOW", "3")): shown[kind] += 1; print(kind, json.dumps(kw, default=repr)[:700])
    for t in types:
        tp = eval(t.py, ns); ap = rnd.random() < 0.3
        so = {"exclude_none": rnd.random() < 0.4, "exclude_defaults": rnd.random() < 0.4, "ap": ap} if SER else None
        try:
            if SER:
                settings.serialization.exclude_none, settings.serialization.exclude_defaults = so["exclude_none"], so["exclude_defaults"]
                real = serialization_schema(tp, additional_properties=ap, with_schema=False)
            else: real = deserialization_schema(tp, additional_properties=ap, with_schema=False)
        except Exception as e: stats["schema-exc:" + type(e).__name__] += 1; continue
        if SER:
            # P-C07 on the real code: serialize(deserialize(valid datum)) validates against the schema built under the same settings
            for _ in range(per):
                try:
                    v = deserialize(tp, fresh(g.valid(t)), additional_properties=ap)
                    j = serialize(tp, v, additional_properties=ap)
                except Exception as e: stats["roundtrip-exc:" + type(e).__name__] += 1; continue
                stats["p-c07"] += 1
                try:
                    if not jsonschema.Draft202012Validator(real).is_valid(j): note("P-C07-serialized-does-not-validate", py=t.py, j=j, so=so, schema=real)
                except Exception as e: stats["jsonschema-exc"] += 1
            settings.serialization.exclude_none = settings.serialization.exclude_defaults = False
        data = []
        for _ in range(per):
            d = g.valid(t)
            if rnd.random() < 0.5: d = g.mutate(d)
            if common_domain(d): data.append(d)
        cases.append((t, tp, ap, real, data))
        req = {"id": len(cases), "op": "schema", "ap": ap, "ty": t.lean, "data": [py_proto(d) for d in data]}
        if SER: req["so"] = so; req["data"] = []
        lines.append(json.dumps(req))
    out = subprocess.run([DRIVER], input="\n".join(lines) + "\n", capture_output=True, text=True).stdout.splitlines()
    for (t, tp, ap, real, data), line in zip(cases, out):
        mo = json.loads(line)
        if "error" in mo: note("driver-error", err=mo, ty=t.py); continue
        stats["types"] += 1
        if "$defs" in real: stats["skipped-refs"] += 1; continue
        if canon_schema(py_proto(real)) != canon_schema(mo["schema"]):
            note("K-schema-differs", py=t.py, diff=first_diff(canon_schema(py_proto(real)), canon_schema(mo["schema"]))); continue
        v = jsonschema.Draft202012Validator(real)
        for d, mv in zip([] if SER else data, mo["valid"]):
            stats["data"] += 1
            try: jv = v.is_valid(d)
            except Exception as e: note("jsonschema-exc", py=t.py, d=d, e=repr(e)); continue
            if jv != mv: note("K-validator-differs", py=t.py, d=d, jsonschema=jv, lean=mv, schema=real)
            try: deserialize(tp, fresh(d), additional_properties=ap); acc = True
            except ValidationError: acc = False
            except Exception as e: note("deser-crash", py=t.py, d=d, e=type(e).__name__); continue
            if acc != jv: note("P-C06-" + ("accepted-but-schema-rejects" if acc else "rejected-but-schema-accepts"), py=t.py, d=d)
    print(dict(stats))
if __name__ == "__main__":
    if os.environ.get("REPAIRED"):
        import patches; patches.apply()
    main()
