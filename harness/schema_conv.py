"""C07 on converted positions: the image of a value under a (dynamic, field-level or registered) conversion validates against the
serialization schema generated with the same conversion - through every collection type, the ones serialized by a default
conversion of their own (deque, user collection classes) included."""
import collections, dataclasses, random, json
from common import case_hash

SRC = '''
from dataclasses import dataclass, field
from typing import *
from collections import deque
import collections.abc
from apischema import serializer, serialize, UndefinedType
from apischema.conversions import Conversion

class Opaque:
    pass
from apischema.json_schema import serialization_schema

@dataclass(frozen=True)
class Item:
    v: int
    w: Optional[str] = None

@dataclass(frozen=True)
class Other:
    name: str

def item_to_str(i: Item) -> str: return f"{i.v}"
def item_to_int(i: Item) -> int: return i.v
def item_to_other(i: Item) -> Other: return Other(str(i.v))
def item_to_ints(i: Item) -> List[int]: return [i.v, i.v]
def item_to_optstr(i: Item) -> Optional[str]: return i.w

class Bag(collections.abc.Collection, Generic[TypeVar("T")]):
    """user collection class with a serializer of its own (as a list)"""
    def __init__(self, items): self.items = list(items)
    def __iter__(self): return iter(self.items)
    def __len__(self): return len(self.items)
    def __contains__(self, x): return x in self.items

T = TypeVar("T")
class Bag2(Generic[T]):
    def __init__(self, items): self.items = list(items)

@serializer
def bag2_items(b: Bag2[T]) -> List[T]: return b.items

def int_to_item(i: int) -> Item: return Item(i)

CONVS = {"str": item_to_str, "int": item_to_int, "other": item_to_other, "ints": item_to_ints, "optstr": item_to_optstr}
'''

CONTAINERS = [
    ("Item", lambda mk, r: mk()),
    ("List[Item]", lambda mk, r: [mk() for _ in range(r.randint(0, 3))]),
    ("Deque[Item]", lambda mk, r: collections.deque(mk() for _ in range(r.randint(0, 3)))),
    ("Tuple[Item, ...]", lambda mk, r: tuple(mk() for _ in range(r.randint(0, 3)))),
    ("Tuple[Item, int]", lambda mk, r: (mk(), 3)),
    ("FrozenSet[Item]", lambda mk, r: frozenset(mk() for _ in range(r.randint(0, 3)))),
    ("Dict[str, Item]", lambda mk, r: {k: mk() for k in r.sample(["a", "b", "c"], r.randint(0, 3))}),
    ("Optional[Item]", lambda mk, r: mk() if r.random() < 0.6 else None),
    ("List[Deque[Item]]", lambda mk, r: [collections.deque(mk() for _ in range(r.randint(0, 2))) for _ in range(r.randint(0, 2))]),
    ("Deque[List[Item]]", lambda mk, r: collections.deque([mk() for _ in range(r.randint(0, 2))] for _ in range(r.randint(0, 2)))),
    ("Dict[str, Deque[Item]]", lambda mk, r: {k: collections.deque(mk() for _ in range(r.randint(0, 2))) for k in r.sample(["a", "b"], r.randint(0, 2))}),
    # an alternative the schema builder skips (Undefined has no schema; Opaque has none at all) before / after the converted one
    ("Union[UndefinedType, Item]", lambda mk, r: mk()), ("Union[Item, UndefinedType]", lambda mk, r: mk()), ("Union[Opaque, Item]", lambda mk, r: mk()),
    ("List[Union[Opaque, Item]]", lambda mk, r: [mk() for _ in range(r.randint(0, 2))]),
    ("Bag2[Item]", None), ("List[Bag2[Item]]", None), ("Deque[Optional[Item]]", lambda mk, r: collections.deque((mk() if r.random() < 0.7 else None) for _ in range(r.randint(0, 3)))),
]


def run_conv_schema(rnd, seed, budget, hist, distinct, build_module):
    import jsonschema
    mod = build_module(SRC, f"c07conv_{seed}"); ns = dict(vars(mod))
    from apischema import serialize
    from apischema.conversions import Conversion
    from apischema.json_schema import serialization_schema
    Item, Bag2 = ns["Item"], ns["Bag2"]
    def mk(): return Item(rnd.choice([0, 1, 7, -2]), rnd.choice([None, "s", ""]))
    failures, n = [], 0
    for _ in range(120 * budget):
        cname = rnd.choice(sorted(ns["CONVS"])); fn = ns["CONVS"][cname]
        tpy, build = rnd.choice(CONTAINERS)
        if tpy == "Bag2[Item]": v = Bag2([mk() for _ in range(rnd.randint(0, 3))])
        elif tpy == "List[Bag2[Item]]": v = [Bag2([mk() for _ in range(rnd.randint(0, 2))]) for _ in range(rnd.randint(0, 2))]
        else: v = build(mk, rnd)
        tp = eval(tpy, ns)
        mode = rnd.choice(["dynamic", "dynamic", "field", "explicit"])
        so = {"exclude_none": rnd.random() < 0.3}
        n += 1; hist["converted:" + mode] += 1; hist["converted-through:" + tpy] += 1; hist["converted-to:" + cname] += 1
        distinct.add(case_hash("conv", tpy, cname, mode, repr(v)))
        why, out, sch = [], None, None
        from apischema import settings
        try:
            # (serialization_schema reads the omission options from the settings)
            settings.serialization.exclude_none = so["exclude_none"]
            if mode == "field":
                from apischema.metadata import conversion as conv_md
                H = dataclasses.make_dataclass("H", [("x", tp, dataclasses.field(metadata=conv_md(serialization=fn))), ("y", int, dataclasses.field(default=1))])
                out = serialize(H, H(v)); sch = serialization_schema(H, with_schema=False)
            else:
                c = fn if mode == "dynamic" else Conversion(fn, source=Item, target=fn.__annotations__["return"])
                out = serialize(tp, v, conversion=c); sch = serialization_schema(tp, conversion=c, with_schema=False)
        except Exception as e: why.append("raises:" + type(e).__name__ + ":" + str(e)[:80])
        finally: settings.serialization.exclude_none = False
        if not why:
            try:
                if not jsonschema.Draft202012Validator(sch).is_valid(out): why.append("serialized-value-does-not-validate-against-serialization_schema")
            except Exception as e: hist["jsonschema-exc"] += 1
        only_unique = None
        if why and sch is not None and not why[0].startswith("raises"):
            from engine_schema import strip_keys
            try: only_unique = jsonschema.Draft202012Validator(strip_keys(sch, {"uniqueItems"})).is_valid(out)
            except Exception: pass
        if why:
            failures.append({"kind": "P", "part": "converted", "only_unique_items": only_unique, "features": ["converted", mode, cname], "py": tpy, "conversion": cname, "mode": mode, "so": so,
                             "value": repr(v)[:300], "serialized": out, "real": sch, "why": why, "k_ok": None})
    return failures, n


# ---------------------------------------------------------------------------------------------- serialized methods
METH_HEADER = '''
from dataclasses import dataclass, field
from typing import *
from apischema import serialized, Undefined, UndefinedType, alias

TM = TypeVar("TM")
def h_str(error: Exception, obj: Any, alias: str) -> str: return "error:" + alias
def h_undef(error: Exception, obj: Any, alias: str) -> UndefinedType: return Undefined
def h_raise(error: Exception, obj: Any, alias: str) -> NoReturn: raise error
def h_optint(error: Exception, obj: Any, alias: str) -> Optional[int]: return None
'''
RETURNS = [("int", "self.x"), ("Optional[int]", "self.x if self.x % 2 else None"), ("str", "str(self.x)"), ("List[int]", "[self.x] * (self.x % 3)"),
           ("Union[int, UndefinedType]", "self.x if self.x % 2 else Undefined"), ("Optional[str]", "None"), ("bool", "self.x > 1")]
HANDLERS = [None, None, "None", "None", "h_str", "h_undef", "h_raise", "h_optint"]        # None = no error_handler argument


def gen_method_class(rnd, i):
    # (some owners are generic and used through a parametrized alias M[int]: the types of the methods are those of the specialised class)
    generic = rnd.random() < 0.3
    lines = ["@dataclass", f"class M{i}" + ("(Generic[TM]):" if generic else ":"), "    x: int"] + (["    extra: Optional[TM] = None"] if generic else [])
    for j in range(rnd.randint(1, 3)):
        rt, body = rnd.choice(RETURNS); h = rnd.choice(HANDLERS); raises = rnd.random() < 0.6; prop = rnd.random() < 0.3
        args = []
        if rnd.random() < 0.3: args.append(f"'al{j}'")
        if h is not None: args.append(f"error_handler={h}")
        lines.append(f"    @serialized" + (f"({', '.join(args)})" if args else ""))
        if prop: lines.append("    @property")
        lines += [f"    def m{j}(self) -> {rt}:"] + ([f"        if self.x < 0: raise RuntimeError('negative')"] if raises else []) + [f"        return {body}"]
    return f"M{i}" + ("[int]" if generic else ""), lines


def run_method_schema(rnd, seed, budget, hist, distinct, build_module):
    """C07 on serialized methods: what `serialize` emits for them - the value, the value of the error handler (`None` for
    error_handler=None), or nothing for Undefined - validates against the serialization schema"""
    import jsonschema
    from apischema import serialize, settings
    from apischema.json_schema import serialization_schema
    classes = [gen_method_class(rnd, i) for i in range(60 * budget)]
    mod = build_module(METH_HEADER + "\n" + "\n".join(l for _, ls in classes for l in ls + [""]), f"c07meth_{seed}")
    failures, n = [], 0
    for cname, lines in classes:
        cls = eval(cname, vars(mod))
        for x in (-3, -2, 0, 1, 2, 3, 4):
            en = rnd.random() < 0.3; n += 1
            distinct.add(case_hash("meth", lines, x, en))
            why = []; out = sch = None
            try:
                settings.serialization.exclude_none = en
                sch = serialization_schema(cls, with_schema=False)
                try: out = serialize(cls, cls(x))
                except RuntimeError: hist["methods:error-propagated"] += 1; continue      # no handler / a handler that re-raises
                if not jsonschema.Draft202012Validator(sch).is_valid(out): why.append("serialized-value-does-not-validate-against-serialization_schema")
            except Exception as e: why.append("raises:" + type(e).__name__ + ":" + str(e)[:80])
            finally: settings.serialization.exclude_none = False
            hist["methods:" + ("error-path" if x < 0 else "normal-path")] += 1
            if why:
                failures.append({"kind": "P", "part": "converted", "features": ["serialized-method"], "py": cname, "conversion": None, "mode": "serialized-method",
                                 "class_src": lines, "value": f"{cname}({x})", "so": {"exclude_none": en}, "serialized": out, "real": sch, "why": why, "k_ok": None})
    return failures, n



def run_conv_roundtrip(rnd, seed, budget, hist, distinct, build_module):
    """C05 on converted positions: with a two-way conversion Item <-> int (dynamic, or at field level) in force, deserialize(serialize(v)) == v through every
    collection type - the ones that have a default conversion of their own (deque, user collection classes) included"""
    import dataclasses
    from apischema import serialize, deserialize
    from apischema.metadata import conversion as conv_md
    mod = build_module(SRC, f"c05conv_{seed}"); ns = dict(vars(mod))
    Item, Bag2 = ns["Item"], ns["Bag2"]
    to_int, from_int = ns["item_to_int"], ns["int_to_item"]
    failures, n = [], 0
    usable = [c for c in CONTAINERS if c[1] is not None and "Undefined" not in c[0] and "Opaque" not in c[0]]
    for _ in range(60 * budget):
        tpy, build = rnd.choice(usable); tp = eval(tpy, ns)
        k = iter(range(1, 50))
        v = build(lambda: Item(next(k)), rnd)
        mode = rnd.choice(["dynamic", "field"])
        n += 1; hist["converted-roundtrip:" + mode] += 1; distinct.add(case_hash("convrt", tpy, mode, repr(v)))
        why, out = [], None
        try:
            if mode == "field":
                H = dataclasses.make_dataclass("H", [("x", tp, dataclasses.field(metadata=conv_md(from_int, to_int)))])
                out = serialize(H, H(v)); back = deserialize(H, out)
                if back != H(v): why.append("deserialize(serialize(v))-differs-from-v")
            else:
                out = serialize(tp, v, conversion=to_int); back = deserialize(tp, out, conversion=from_int)
                if back != v and not (isinstance(v, tuple) and tuple(back) == v): why.append("deserialize(serialize(v))-differs-from-v")
        except Exception as e: why.append("round-trip-raises:" + type(e).__name__ + ":" + str(e)[:80])
        if why:
            failures.append({"kind": "P", "part": "ordered", "features": ["converted-roundtrip", mode], "class_src": [f"{tpy} with Item <-> int ({mode} conversion)"], "value": repr(v)[:300],
                             "serialized": repr(out)[:300], "why": why, "k_ok": None})
    return failures, n
