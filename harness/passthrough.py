"""C08, deserialization `pass_through`: naming classes whose instances are left untouched changes nothing else.
 (1) on plain JSON data (valid or not) the outcome - value or errors - is the one without the option;
 (2) a datum in which some sub-data at positions of a named class are already instances gives the value of the plain datum, with
     those very instances in it;
 for the function and the precomputed method, with and without coercion."""
import random, collections, dataclasses, json
from common import build_module, case_hash

SRC = '''
from dataclasses import dataclass, field
from typing import *
from enum import Enum
from uuid import UUID
from apischema import schema

@dataclass
class Point:
    x: int
    y: int = 0

class Color(Enum):
    R = "r"
    G = "g"

# constraints given from outside the named type (an annotation, a field): they hold on JSON data whatever passes through
CUUID = Annotated[UUID, schema(pattern="^0000")]

@dataclass
class CHolder:
    u: UUID = field(metadata=schema(pattern="^0000"))
    n: int = 0

@dataclass
class Holder:
    p: Point
    q: Optional[Point] = None
    c: Color = Color.R
    n: int = 0
'''
U1, U2 = "58c88e87-8d7b-4f4e-9c53-6b4a1b2c3d4e", "00000000-0000-0000-0000-000000000001"
UNIONS = [["int", "Point"], ["Point", "str"], ["UUID", "int"], ["Point", "none"], ["Point", "ints"], ["Color", "int"], ["Point", "Color"], ["Holder", "int", "none"]]
NAMED = ["Point", "Color", "UUID", "Holder"]


def gen_spec(r, depth):
    k = r.random()
    if depth <= 0 or k < 0.3: return (r.choice(["Point", "Point", "Color", "UUID", "Holder", "int", "str", "CUUID", "CHolder"]),)
    if k < 0.45: return ("opt", gen_spec(r, depth - 1))
    if k < 0.7: return ("union", r.choice(UNIONS))
    if k < 0.8: return ("list", gen_spec(r, depth - 1))
    if k < 0.9: return ("dict", gen_spec(r, depth - 1))
    return ("tuple", [gen_spec(r, depth - 1), gen_spec(r, depth - 1)])


def spec_py(s):
    k = s[0]
    if k == "opt":
        inner = spec_py(s[1]); return f"Optional[{inner}]"
    if k == "union": return "Union[" + ", ".join({"none": "None", "ints": "List[int]"}.get(a, a) for a in s[1]) + "]"
    if k == "list": return f"List[{spec_py(s[1])}]"
    if k == "dict": return f"Dict[str, {spec_py(s[1])}]"
    if k == "tuple": return "Tuple[" + ", ".join(spec_py(x) for x in s[1]) + "]"
    return k


class Maker:
    """(plain JSON datum, datum with instances at some named-class positions, expected value); `placed` = the instances put in"""
    def __init__(self, r, ns, named): self.r, self.ns, self.named, self.placed = r, ns, named, []
    def leaf(self, k):
        r, ns = self.r, self.ns
        if k == "int": v = r.choice([0, 1, -4]); return v, v, v
        if k == "str": v = r.choice(["", "a", "r"]); return v, v, v
        if k == "none": return None, None, None
        if k == "ints": v = [1, 2][: r.randint(0, 2)]; return v, list(v), list(v)
        if k == "Point":
            x, y = r.choice([0, 3]), r.choice([0, 5]); j = {"x": x, "y": y} if r.random() < 0.7 else {"x": x}
            inst = ns["Point"](x, y if "y" in j else 0)
        elif k == "Color":
            j = r.choice(["r", "g"]); inst = ns["Color"](j)
        elif k == "UUID":
            import uuid
            j = r.choice([U1, U2]); inst = uuid.UUID(j)
        elif k == "CUUID":
            import uuid
            j = r.choice([U1, U2, U2]); return j, j, uuid.UUID(j)          # (U1 violates the pattern: rejected with and without the option)
        elif k == "CHolder":
            import uuid
            j = {"u": r.choice([U1, U2, U2]), "n": 1}; return j, dict(j), ns["CHolder"](uuid.UUID(j["u"]), 1)
        elif k == "Holder":
            pj, pm, pv = self.leaf("Point"); n = r.choice([0, 2])
            j = {"p": pj, "n": n}; m = {"p": pm, "n": n}; inst = ns["Holder"](pv, None, ns["Color"].R, n)
            if k in self.named and r.random() < 0.4: self.placed.append(inst); return j, inst, inst
            return j, m, inst
        if k in self.named and r.random() < 0.5: self.placed.append(inst); return j, inst, inst
        return j, j, inst
    def make(self, s):
        k = s[0]; r = self.r
        if k == "opt": return (None, None, None) if r.random() < 0.3 else self.make(s[1])
        if k == "union": return self.leaf(r.choice(s[1]))
        if k == "list":
            xs = [self.make(s[1]) for _ in range(r.randint(0, 3))]; return [x[0] for x in xs], [x[1] for x in xs], [x[2] for x in xs]
        if k == "dict":
            ks = r.sample(["a", "b", "c"], r.randint(0, 3)); xs = {key: self.make(s[1]) for key in ks}
            return {a: x[0] for a, x in xs.items()}, {a: x[1] for a, x in xs.items()}, {a: x[2] for a, x in xs.items()}
        if k == "tuple":
            xs = [self.make(x) for x in s[1]]; return [x[0] for x in xs], [x[1] for x in xs], tuple(x[2] for x in xs)
        return self.leaf(k)


def reachable_ids(v, acc=None):
    acc = set() if acc is None else acc
    acc.add(id(v))
    if isinstance(v, (list, tuple)):
        for x in v: reachable_ids(x, acc)
    elif isinstance(v, dict):
        for x in v.values(): reachable_ids(x, acc)
    elif dataclasses.is_dataclass(v) and not isinstance(v, type):
        for f in dataclasses.fields(v): reachable_ids(getattr(v, f.name), acc)
    return acc


def mutate_json(r, d):
    """break a plain JSON datum somewhere"""
    if isinstance(d, dict) and d and r.random() < 0.7:
        k = r.choice(sorted(d)); d = dict(d)
        if r.random() < 0.4: del d[k]
        else: d[k] = mutate_json(r, d[k])
        return d
    if isinstance(d, list) and d and r.random() < 0.7:
        i = r.randrange(len(d)); d = list(d); d[i] = mutate_json(r, d[i]); return d
    return r.choice(["zz", 1.5, None, [], {"x": "s"}, True])


def run_part(seed, budget):
    from apischema import deserialize, deserialization_method, ValidationError
    r = random.Random(seed * 613 + 8); mod = build_module(SRC, f"c08pt_{seed}"); ns = dict(vars(mod))
    failures, hist, distinct, n = [], collections.Counter(), set(), 0
    def outcome(fn):
        try: return ("ok", fn())
        except ValidationError as e: return ("err", json.dumps(e.errors, sort_keys=True, default=repr))
        except Exception as e: return ("crash", type(e).__name__ + ":" + str(e)[:80])
    for _ in range(150 * budget):
        spec = gen_spec(r, 2); py = spec_py(spec); tp = eval(py, ns)
        named = r.sample(NAMED, r.randint(1, 3))
        classes = [ns[c] for c in named]
        pt = r.choice([tuple(classes), list(classes), (lambda cs: (lambda cls: cls in cs))(set(classes))])
        coerce = r.random() < 0.3
        for _ in range(4):
            mk = Maker(r, ns, named); j, m, want = mk.make(spec); n += 1
            if r.random() < 0.3: j = mutate_json(r, j); m = None
            hist["pass-through:" + ("plain-json" if m is None or not mk.placed else "with-instances")] += 1
            for c in named: hist["pass-through-names:" + c] += 1
            distinct.add(case_hash("pt", py, named, repr(j), repr(m), coerce))
            why, info = [], {}
            base = outcome(lambda: deserialize(tp, j, coerce=coerce))
            with_opt = outcome(lambda: deserialize(tp, j, coerce=coerce, pass_through=pt))
            meth = outcome(lambda: deserialization_method(tp, coerce=coerce, pass_through=pt)(j))
            if with_opt != base: why.append("outcome-on-plain-JSON-data-depends-on-pass_through"); info.update(without=repr(base)[:300], with_pass_through=repr(with_opt)[:300])
            elif meth != base: why.append("precomputed-method-differs-from-deserialize"); info.update(without=repr(base)[:300], method=repr(meth)[:300])
            if m is not None and mk.placed and not why:
                if base != ("ok", want): hist["pass-through:expected-value-mismatch(harness)"] += 1; continue
                for name, fn in (("deserialize", lambda: deserialize(tp, m, coerce=coerce, pass_through=pt)),
                                 ("precomputed-method", lambda: deserialization_method(tp, coerce=coerce, pass_through=pt)(m))):
                    got = outcome(fn)
                    if got != ("ok", want): why.append("datum-with-instances-of-named-classes-does-not-give-the-plain-value:" + name); info.update(expected=repr(want)[:300], got=repr(got)[:300]); break
                    ids = reachable_ids(got[1])
                    if not all(id(x) in ids for x in mk.placed): why.append("named-instance-not-left-untouched:" + name); break
            if why:
                failures.append({"kind": "P", "part": "deser-pass-through", "features": ["pass_through"] + named, "py": py, "named": named, "coerce": coerce,
                                 "plain_datum": repr(j), "datum_with_instances": repr(m), "why": why, "info": info, "k_ok": None})
    return failures, n, distinct, hist
