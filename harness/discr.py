"""discriminated unions and tagged unions on the real code (used by the C13 and C03 checks).
Generated: 2-3 dataclass alternatives (some with the discriminator as a Literal field, possibly aliased; some without),
annotated discriminator (default / explicit / partial mapping) or inherited discriminator; TaggedUnion classes.
dispatch : on data carrying the discriminator, the result is what the mapped alternative gives on the same data
           (try-each semantics), an unknown or missing tag is a ValidationError;
roundtrip: serialize(U, v) = serialize(type(v), v) + the discriminator key, and deserializes back to v;
tagged   : a TaggedUnion accepts exactly one tag;
purity   : the input is not modified, a second deserialization of the same payload gives the same result."""
import sys, os, json, random, collections, copy
HERE = os.path.dirname(os.path.abspath(__file__)); sys.path.insert(0, HERE)
from common import build_module, case_hash

HEADER = ["from dataclasses import dataclass, field", "from typing import *", "from apischema import discriminator, alias, schema",
          "from apischema.metadata import flatten, properties",
          "from apischema.tagged_unions import Tagged, TaggedUnion", ""]


def gen_union(rnd, i):
    n = rnd.randint(2, 3); key = rnd.choice(["type", "kind"])
    alts, lines = [], []
    for k in range(n):
        cname = f"D{i}_{k}"; tag = cname
        has_field = rnd.random() < 0.5
        aliased = has_field and rnd.random() < 0.4
        simple = rnd.random() < 0.5                   # only check-only field types -> SimpleObjectMethod
        fl = ["@dataclass", f"class {cname}:"]
        fields = [("x", "int", 1)] if simple else [("x", "int", 1), ("y", "float", 1.5)]
        if rnd.random() < 0.4: fields.append(("z", "List[int]", [1, 2]))
        al = {}
        for fn, ft, _ in fields:
            if rnd.random() < 0.3: al[fn] = fn.upper() + "_al"; fl.append(f"    {fn}: {ft} = field(metadata=alias({al[fn]!r}))")
            else: fl.append(f"    {fn}: {ft}")
        if has_field:
            tag = rnd.choice([cname.lower(), f"t{k}"])
            # (the Literal may sit behind an annotation: a description, an inert marker)
            lit = rnd.choice([f"Literal[{tag!r}]", f"Literal[{tag!r}]", f"Annotated[Literal[{tag!r}], schema(description='tag')]", f"Annotated[Literal[{tag!r}], 'marker']"])
            tag2 = None
            if rnd.random() < 0.3:
                # a class reachable through two tags: the value keeps the one it holds
                tag2 = tag + "_b"; lit = f"Literal[{tag!r}, {tag2!r}]"
            if aliased: fl.append(f"    {key}_: {lit} = field(default={tag!r}, metadata=alias({key!r}))")
            else: fl.append(f"    {key}: {lit} = {tag!r}")
        extra_body, extra_ctor = {}, ""
        if not has_field and rnd.random() < 0.35:
            # an alternative that aggregates properties (a flattened class, a pattern-properties mapping): the discriminator is
            # not one of its fields, and must not be reported as an unexpected property
            if rnd.random() < 0.5:
                lines += ["@dataclass", f"class I{i}_{k}:", "    p: int = 0", "    q: str = ''", ""]
                fl.append(f"    inner: I{i}_{k} = field(default_factory=I{i}_{k}, metadata=flatten)")
                extra_body, extra_ctor = {"p": 3}, f"dict(inner=I{i}_{k}(p=3))"
            else:
                fl.append("    pat: Dict[str, int] = field(default_factory=dict, metadata=properties(pattern=r'^p_'))")
                extra_body, extra_ctor = {"p_a": 1}, "dict(pat={'p_a': 1})"
        lines += fl + [""]
        alts.append({"cls": cname, "tag": tag, "tag2": tag2 if has_field else None, "has_field": has_field, "aliased": aliased, "fields": fields, "aliases": al,
                     "extra_body": extra_body, "extra_ctor": extra_ctor})
    mode = rnd.choice(["default", "default", "explicit", "partial"])
    if any(a["tag2"] for a in alts): mode = "default"
    mapping = None
    if mode == "explicit": mapping = {f"m{k}": a["cls"] for k, a in enumerate(alts)}
    elif mode == "partial": mapping = {"m0": alts[0]["cls"]}
    for k, a in enumerate(alts):
        if mapping and a["cls"] in mapping.values() and not a["has_field"]: a["tag"] = next(t for t, c in mapping.items() if c == a["cls"])
        elif mapping and a["cls"] in mapping.values() and a["has_field"]:
            # an explicit mapping must agree with the Literal field: use the literal as the mapping key
            mapping = {(a["tag"] if c == a["cls"] else t): c for t, c in mapping.items()}
    msrc = ("{" + ", ".join(f"{t!r}: {c}" for t, c in mapping.items()) + "}") if mapping else None
    uname = f"U{i}"
    lines.append(f"{uname} = Annotated[Union[{', '.join(a['cls'] for a in alts)}], discriminator({key!r}" + (f", {msrc}" if msrc else "") + ")]")
    return {"name": uname, "key": key, "alts": alts, "mode": mode, "src": lines}


def gen_inherited(rnd, i, single=False):
    """`@discriminator(key)` on a parent dataclass: the subclasses are the alternatives, tagged by their names (or by an
    explicit mapping); `single`: the parent has exactly one subclass"""
    n = 1 if single else rnd.randint(2, 3); key = rnd.choice(["type", "kind"]); pname = f"P{i}"
    explicit = False          # (a mapping would have to name classes defined after the decorated parent)
    alts, sub = [], []
    for k in range(n):
        cname = f"P{i}_{k}"
        fields = [("x", "int", 1)] + ([("y", "float", 1.5)] if rnd.random() < 0.5 else [])
        fl = ["@dataclass", f"class {cname}({pname}):"] + [f"    {fn}: {ft} = {fv!r}" for fn, ft, fv in fields]
        sub += fl + [""]
        alts.append({"cls": cname, "tag": (f"m{k}" if explicit else cname), "has_field": False, "aliased": False, "fields": fields, "aliases": {},
                     "extra_body": {}, "extra_ctor": ""})
    if not single and rnd.random() < 0.4:
        # a subclass of an alternative (a grandchild of the discriminated class), with a field of its own: an alternative like the others
        par = alts[0]; cname = f"P{i}_0g"
        fields = par["fields"] + [("g", "str", "gg")]
        sub += ["@dataclass", f"class {cname}({par['cls']}):", "    g: str = 'gg'", ""]
        alts.append({"cls": cname, "tag": cname, "has_field": False, "aliased": False, "fields": fields, "aliases": {}, "extra_body": {}, "extra_ctor": ""})
    deco = f"@discriminator({key!r}" + (", {" + ", ".join(f"{a['tag']!r}: {a['cls']!r}" for a in alts) + "}" if explicit else "") + ")"
    lines = [deco, "@dataclass", f"class {pname}:", "    base: int = 0", ""] + sub
    return {"name": pname, "key": key, "alts": alts, "mode": "inherited" + ("-explicit" if explicit else "") + ("-single" if single else ""), "src": lines}


def run_discr(seed, budget, want=("dispatch", "roundtrip", "tagged", "purity"), single=True):
    from apischema import deserialize, serialize, ValidationError
    rnd = random.Random(seed * 13 + 1); n = 80 * budget
    unions = [gen_union(rnd, i) if rnd.random() < 0.8 else gen_inherited(rnd, i) for i in range(n)]
    # a discriminated parent with exactly one subclass (its own random stream: the other families stay what they were)
    rnd1 = random.Random(seed * 17 + 5)
    if single: unions += [gen_inherited(rnd1, n + j, single=True) for j in range(2 * budget)]
    src = list(HEADER)
    for u in unions: src += u["src"] + [""]
    src += ["class TU(TaggedUnion):", "    a: Tagged[int]", "    b: Tagged[str]", ""]
    mod = build_module(src, f"discr{seed}"); ns = dict(vars(mod))
    failures, hist, distinct, evaluations = [], collections.Counter(), set(), 0

    def out(fn):
        try: return ("ok", fn())
        except ValidationError as e: return ("invalid", e.errors)
        except Exception as e: return ("crash", type(e).__name__ + ":" + str(e)[:80])

    def fail(kind, u, **kw):
        failures.append(dict({"kind": "P", "k_ok": True, "why": [kind], "union_src": u["src"] if u else None, "mode": u["mode"] if u else None}, **{k: (repr(v)[:300] if not isinstance(v, (str, int, bool, list, dict, type(None))) else v) for k, v in kw.items()}))
        hist["P:" + kind] += 1

    for u in unions:
        U = ns[u["name"]]
        for a in u["alts"]:
            cls = ns[a["cls"]]
            body = {a["aliases"].get(fn, fn): fv for fn, _, fv in a["fields"]}; body.update(a["extra_body"])
            if a["extra_body"]: hist["alternative-aggregates-properties"] += 1
            datum = dict(body); datum[u["key"]] = a["tag"]
            items = list(datum.items()); rnd.shuffle(items); datum = dict(items)
            evaluations += 1; distinct.add(case_hash(u["src"], a["cls"]))
            hist["mode:" + u["mode"]] += 1
            snap = copy.deepcopy(datum)
            got = out(lambda: deserialize(U, datum))
            if "purity" in want:
                if datum != snap: fail("input-modified-by-deserialize", u, datum=snap, after=datum)
                again = out(lambda: deserialize(U, datum))
                if repr(again) != repr(got): fail("second-deserialization-of-the-same-payload-differs", u, datum=snap, first=got, second=again)
                if got[0] == "crash": fail("crash:" + got[1].split(":")[0], u, datum=snap, got=got)
            if "dispatch" in want:
                alone = out(lambda: deserialize(cls, snap if a["has_field"] else body))
                if got != alone: fail("discriminator-dispatch-differs-from-the-alternative-alone", u, datum=snap, got=got, alternative=alone, alt=a["cls"])
                bad = dict(snap); bad[u["key"]] = "no-such-tag"
                r = out(lambda: deserialize(U, bad))
                if r[0] != "invalid": fail("unknown-tag-not-rejected", u, datum=bad, got=r)
                r = out(lambda: deserialize(U, dict(body)))
                if r[0] != "invalid" : fail("missing-discriminator-not-rejected", u, datum=body, got=r)
                # an ill-typed field is rejected with the alternative's errors
                ill = dict(snap); ill[a["aliases"].get("x", "x")] = "nope"
                r1 = out(lambda: deserialize(U, ill)); r2 = out(lambda: deserialize(cls, ill if a["has_field"] else {k: v for k, v in ill.items() if k != u["key"]}))
                if r1 != r2: fail("discriminator-dispatch-differs-from-the-alternative-alone", u, datum=ill, got=r1, alternative=r2, alt=a["cls"])
            if "coerce" in want:
                # coercion only widens: what the strict run accepts is accepted, with the same result; a numeric string
                # where the alternative expects an integer is converted
                hist["coerce-runs"] += 1
                c = out(lambda: deserialize(U, copy.deepcopy(snap), coerce=True))
                if got[0] == "ok" and c != got: fail("strictly-accepted-but-rejected-under-coercion" if c[0] != "ok" else "coercion-changes-an-accepted-value", u, datum=snap, strict=got, coerced=c)
                sx = dict(snap); kx = a["aliases"].get("x", "x"); sx[kx] = "1"
                c2 = out(lambda: deserialize(U, sx, coerce=True))
                if got[0] == "ok" and c2 != got: fail("numeric-string-not-coerced-in-a-discriminated-alternative", u, datum=sx, strict=got, coerced=c2)
            if "roundtrip" in want:
                v = cls(**{fn: fv for fn, _, fv in a["fields"]}, **(eval(a["extra_ctor"], ns) if a["extra_ctor"] else {}))   # the value is built directly: the round trip starts from it
                s = out(lambda: serialize(U, v)); s0 = out(lambda: serialize(cls, v))
                if s[0] != "ok" or s0[0] != "ok": fail("serialization-of-a-discriminated-value-raises", u, value=v, got=s)
                else:
                    exp = dict(s0[1]); exp[u["key"]] = a["tag"]
                    if s[1] != exp: fail("serialized-union-value-is-not-the-alternative-plus-the-discriminator", u, value=v, got=s[1], expected=exp)
                    back = out(lambda: deserialize(U, s[1]))
                    if back != ("ok", v): fail("discriminated-value-does-not-round-trip", u, value=v, serialized=s[1], back=back)
                    if a.get("tag2"):
                        hist["two-tags-for-one-class"] += 1
                        v2 = cls(**{fn: fv for fn, _, fv in a["fields"]}, **{(u["key"] + "_" if a["aliased"] else u["key"]): a["tag2"]})
                        s2 = out(lambda: serialize(U, v2))
                        if s2[0] != "ok" or s2[1].get(u["key"]) != a["tag2"]: fail("serialized-union-value-is-not-the-alternative-plus-the-discriminator", u, value=v2, got=s2, expected_tag=a["tag2"])
                        elif out(lambda: deserialize(U, s2[1])) != ("ok", v2): fail("discriminated-value-does-not-round-trip", u, value=v2, serialized=s2[1])
                    # the same under a renaming aliaser: every key of the output - the discriminator included - is renamed,
                    # and the renamed output deserializes back under the same aliaser
                    al = lambda x: "al_" + x
                    sa = out(lambda: serialize(U, v, aliaser=al))
                    if sa[0] == "ok":
                        hist["aliaser-roundtrips"] += 1
                        if isinstance(sa[1], dict) and any(not k.startswith("al_") for k in sa[1] if not k.startswith("p_")):
                            fail("serialized-union-key-not-aliased", u, value=v, got=sa[1])
                        backa = out(lambda: deserialize(U, sa[1], aliaser=al))
                        if backa != ("ok", v): fail("discriminated-value-does-not-round-trip-under-an-aliaser", u, value=v, serialized=sa[1], back=backa)
                    else: fail("serialization-of-a-discriminated-value-raises", u, value=v, got=sa)
    if "dispatch" in want:
        # one partial mapping (a plain dict of the user) given to two unions with different members: each union completes *its own copy* with the implicit
        # keys of its members; the dict stays as the user wrote it, whichever union is used first
        n_sh = 6; sh_src = list(HEADER)
        for i in range(n_sh):
            sh_src += ["@dataclass", f"class SD{i}:", "    d: int = 0", "", "@dataclass", f"class SL{i}:", "    l: int = 0", "", "@dataclass", f"class SC{i}:", "    c: int = 0", "",
                       f"MAP{i} = {{'dog': SD{i}}}", f"SU1_{i} = Annotated[Union[SD{i}, SL{i}], discriminator('type', MAP{i})]", f"SU2_{i} = Annotated[Union[SD{i}, SC{i}], discriminator('type', MAP{i})]", ""]
        sns = dict(vars(build_module(sh_src, f"discrshared{seed}")))
        for i in range(n_sh):
            first, second = (("SU1", "SL", "SC"), ("SU2", "SC", "SL")) if rnd.random() < 0.5 else (("SU2", "SC", "SL"), ("SU1", "SL", "SC"))
            evaluations += 1; distinct.add(("shared-mapping", i, first[0])); hist["shared-mapping"] += 1
            res = {}
            for (u, own, other) in (first, second):
                U = sns[f"{u}_{i}"]
                res[u + ":own"] = out(lambda: deserialize(U, {"type": f"{own}{i}"}))
                res[u + ":other"] = out(lambda: deserialize(U, {"type": f"{other}{i}"}))
                res[u + ":dog"] = out(lambda: deserialize(U, {"type": "dog", "d": 2}))
                res[u + ":ser"] = out(lambda: serialize(U, sns[f"{other}{i}"](), check_type=True))
            bad = [k for k, v in res.items() if (k.endswith(":own") or k.endswith(":dog")) and v[0] != "ok"] + [k for k, v in res.items() if k.endswith(":other") and v[0] != "invalid"] \
                + [k for k, v in res.items() if k.endswith(":ser") and v[0] == "ok"]
            if sorted(sns[f"MAP{i}"]) != ["dog"]: bad.append("the user's mapping was modified: " + repr(sorted(sns[f"MAP{i}"])))
            if bad: fail("shared-partial-mapping-makes-one-union-depend-on-the-other", None, order=[first[0], second[0]], wrong=bad, results={k: repr(v)[:80] for k, v in res.items()})
    if "tagged" in want:
        TU = ns["TU"]
        for d, ok in (({"a": 1}, True), ({"b": "s"}, True), ({"a": 1, "b": "s"}, False), ({}, False), ({"c": 1}, False)):
            evaluations += 1
            r = out(lambda: deserialize(TU, d))
            if (r[0] == "ok") != ok or r[0] == "crash": fail("tagged-union-does-not-accept-exactly-one-tag", None, datum=d, got=r)
    return failures, evaluations, distinct, dict(hist)
