"""C03 on the standard-library types the package supports (bytes, date / datetime / time, Decimal, IP addresses, paths, patterns, UUID, deque):
whatever the datum - well-formed, malformed text, other JSON classes, huge numbers - deserialize returns or raises ValidationError, does not
modify the input, and says the same the second time."""
import collections, copy, random
from common import case_hash

TYPES = ["float", "bytes", "date", "datetime", "time", "Decimal", "IPv4Address", "IPv6Address", "IPv4Network", "IPv4Interface", "Path", "PurePosixPath", "Pattern", "UUID",
         "Deque[int]", "Deque[date]"]
TEXTS = ["", "a", "abc", "YWJj", "YQ==", "!!!!", "2020-02-30", "2020-02-29", "2020-02-29T12:00:00", "25:61", "12:30", "1.5", "1e400", "nan", "Infinity", "-0", "1.2.3.4", "::1",
         "1.2.3.4/24", "300.1.1.1", "a{99999999999}", "(", "[a-", "a*", "58c88e87-8d7b-4f4e-9c53-6b4a1b2c3d4e", "58c88e87", "/tmp/x", "\x00", "é", " " * 3, "0" * 50]
OTHERS = [None, True, 0, -1, 2**64, 10**400, 1.5, float("nan"), float("inf"), [], [1], ["a"], {}, {"a": 1}, [[1]], [None]]
WRAPS = [("{T}", lambda d: d), ("List[{T}]", lambda d: [d]), ("Optional[{T}]", lambda d: d), ("Dict[str, {T}]", lambda d: {"k": d}), ("Tuple[{T}, int]", lambda d: [d, 1])]


def run_part(seed, budget):
    from apischema import deserialize, ValidationError
    ns = {}
    exec("from typing import *\nfrom datetime import date, datetime, time\nfrom decimal import Decimal\nfrom ipaddress import *\nfrom pathlib import *\nfrom re import Pattern\nfrom uuid import UUID\n", ns)
    r = random.Random(seed * 431 + 3)
    failures, hist, distinct, n = [], collections.Counter(), set(), 0
    for _ in range(400 * budget):
        T = r.choice(TYPES); wsrc, wrap = r.choice(WRAPS); py = wsrc.format(T=T)
        d0 = r.choice(TEXTS) if r.random() < 0.7 else r.choice(OTHERS)
        d = wrap(d0); coerce = r.random() < 0.2
        tp = eval(py, ns); n += 1
        hist["std:" + T.split("[")[0]] += 1; distinct.add(case_hash("std", py, repr(d), coerce))
        snap = copy.deepcopy(d) if d == d else None
        def once():
            try: return ("ok", repr(deserialize(tp, d, coerce=coerce)))
            except ValidationError as e:
                try: return ("invalid", repr(e.errors))
                except Exception as e2: return ("crash", "errors:" + type(e2).__name__)
            except Exception as e: return ("crash", type(e).__name__ + ":" + str(e)[:80])
        a = once(); b = once()
        why = []
        if a[0] == "crash": why.append("crash:" + a[1].split(":")[0])
        elif a != b: why.append("second-deserialization-of-the-same-datum-differs")
        if snap is not None and d != snap: why.append("input-modified")
        hist["std-outcome:" + a[0]] += 1
        if why:
            failures.append({"kind": "P", "part": "std-types", "features": ["std", T], "py": py, "datum": repr(d)[:120], "coerce": coerce, "first": list(a), "second": list(b), "why": why, "k_ok": None})
    return failures, n, distinct, hist
