"""order engine: key order of serialize / both schemas vs the model's sort_by_order (C16)."""
import sys, os, json, random, importlib, subprocess, collections, itertools
HERE = os.path.dirname(os.path.abspath(__file__)); sys.path.insert(0, HERE)
from diff_deser import DRIVER
from apischema import serialize
from apischema.json_schema import deserialization_schema, serialization_schema

def ord_src(o):
    k = o[0]
    if k == "none": return None
    if k == "value": return f"order({o[1]})"
    return f"order({k}={o[1]!r})"

def gen_class(rnd, i, exhaustive=None):
    nf = rnd.randint(1, 4); nm = rnd.randint(0, 2)
    names = [f"f{j}" for j in range(nf)] + [f"m{j}" for j in range(nm)]
    def rand_ord(me):
        k = rnd.choice(["none", "none", "value", "after", "before"])
        if k == "none": return ["none"]
        if k == "value": return ["value", str(rnd.choice([-1, 0, 1, 999]))]
        others = [n for n in names if n != me] + (["zzz"] if rnd.random() < 0.05 else [])
        return [k, rnd.choice(others)] if others else ["none"]
    ords = {n: rand_ord(n) for n in names}
    overriding = []
    if rnd.random() < 0.3:
        for n in rnd.sample(names, rnd.randint(1, len(names))): overriding.append([n, rand_ord(n)])
    cname = f"O{i}"
    lines = []
    if overriding:
        lines.append("@order({" + ", ".join(f"{n!r}: {ord_src(o) or 'order(0)'}" for n, o in overriding) + "})")
        overriding = [[n, o if o[0] != "none" else ["value", "0"]] for n, o in overriding]
    lines += ["@dataclass", f"class {cname}:"]
    for n in names[:nf]:
        src = ord_src(ords[n])
        lines.append(f"    {n}: int = field(default=0" + (f", metadata={src})" if src else ")"))
    for n in names[nf:]:
        src = ord_src(ords[n])
        lines += [f"    @serialized" + (f"(order={src})" if src else ""), f"    def {n}(self) -> int:", "        return 1"]
    return cname, lines, names, nf, ords, overriding

def main():
    seed = int(os.environ.get("VERIF_SEED", "0")); n = int(sys.argv[1])
    rnd = random.Random(seed)
    src = ["from dataclasses import dataclass, field", "from apischema import order, serialized", ""]
    classes = []
    for i in range(n):
        c = gen_class(rnd, i); classes.append(c); src += c[1] + [""]
    modname = f"vpool_o{seed}"
    open(os.path.join(HERE, modname + ".py"), "w").write("\n".join(src))
    mod = importlib.import_module(modname)
    lines, expect = [], []
    for (cname, _, names, nf, ords, ov) in classes:
        cls = getattr(mod, cname)
        for view, elts in (("serialize", names), ("serialization_schema", names), ("deserialization_schema", names[:nf])):
            try:
                if view == "serialize": real = list(serialize(cls, cls()))
                elif view == "serialization_schema": real = list(serialization_schema(cls).get("properties", {}))
                else: real = list(deserialization_schema(cls).get("properties", {}))
            except Exception as e: real = "EXC:" + type(e).__name__
            lines.append(json.dumps({"id": len(lines), "op": "order", "elts": [[n, ords[n]] for n in elts], "overriding": ov}))
            expect.append((cname, view, real))
    out = subprocess.run([DRIVER], input="\n".join(lines) + "\n", capture_output=True, text=True).stdout.splitlines()
    stats = collections.Counter()
    for (cname, view, real), line in zip(expect, out):
        mo = json.loads(line); stats["cases"] += 1
        if not mo.get("anchored"): stats["not-anchored"] += 1
        if mo.get("order") != real:
            stats["disagree"] += 1
            if stats["disagree"] <= 5: print("DISAGREE", cname, view, real, mo)
        elif set(real) != set(n for n in (lines and json.loads(lines[mo["id"]])["elts"]) for n in [n[0]]): stats["lost-fields(known finding 17)"] += 1
    print(dict(stats))
if __name__ == "__main__": main()
