"""ser-diff: deserialize accepted data, serialize the value with options, compare with the model."""
import sys, os, json, random, importlib, subprocess, time, collections
HERE = os.path.dirname(os.path.abspath(__file__)); sys.path.insert(0, HERE)
from gen import Gen, Pool, py_proto
from diff_deser import fresh, DRIVER
from apischema import deserialize, serialize, ValidationError

def canon_out(t, out):
    """sort list outputs at set-typed positions (set iteration order is unspecified)"""
    k = t.kind
    if out is None or not isinstance(out, list): return out
    tag = out[0]
    if k in ("set", "frozenset") and tag == "l":
        return ["l", sorted((canon_out(t.kids[0], x) for x in out[1]), key=json.dumps)]
    if k in ("list", "vtuple", "clist") and tag == "l": return ["l", [canon_out(t.kids[0], x) for x in out[1]]]
    if k == "tuple" and tag == "l" and len(out[1]) == len(t.kids): return ["l", [canon_out(a, x) for a, x in zip(t.kids, out[1])]]
    if k == "mapping" and tag == "d": return ["d", [[kk, canon_out(t.kids[1], v)] for kk, v in out[1]]]
    if k == "cdict" and tag == "d": return ["d", [[kk, canon_out(t.kids[0], v)] for kk, v in out[1]]]
    if k in ("optional", "newtype"): return canon_out(t.kids[0], out)
    if k == "union":
        # cannot know the alternative: sort lists whenever some alternative is a set of the same shape
        for a in t.kids:
            c = canon_out(a, out)
            if c != out: return c
        return out
    if k in ("dataclass", "namedtuple", "typeddict") and tag == "d":
        by_alias = {f["alias"]: f["ty"] for f in t.fields}
        return ["d", [[kk, canon_out(by_alias[kk], v) if kk in by_alias else v] for kk, v in out[1]]]
    return out

def main():
    seed = int(os.environ.get("VERIF_SEED", "0")); n_types = int(sys.argv[1]); per = int(sys.argv[2])
    kinds = sys.argv[3].split(",") if len(sys.argv) > 3 else None
    rnd = random.Random(seed); pool = Pool(); g = Gen(rnd, pool, kinds)
    types = [g.ty(3) for _ in range(n_types)]
    modname = f"vpool_s{seed}"
    with open(os.path.join(HERE, modname + ".py"), "w") as f: f.write(pool.source())
    mod = importlib.import_module(modname); ns = dict(vars(mod))
    cases, lines, impl = [], [], []
    for t in types:
        tp = eval(t.py, ns)
        for _ in range(per):
            d = g.valid(t)
            so = {"exclude_none": rnd.random() < 0.3, "exclude_defaults": rnd.random() < 0.3, "ap": rnd.random() < 0.3}
            o = {"ap": so["ap"], "fbod": False, "nc": rnd.random() < 0.5, "octor": False, "coerce": False, "repaired": bool(os.environ.get("REPAIRED"))}
            try: v = deserialize(tp, fresh(d), additional_properties=o["ap"], no_copy=o["nc"])
            except Exception: continue
            try:
                s = serialize(tp, v, exclude_none=so["exclude_none"], exclude_defaults=so["exclude_defaults"], additional_properties=so["ap"])
                r = {"ok": canon_out(t, py_proto(s))}
            except Exception as e: r = {"crash": type(e).__name__}
            cases.append((t, d, o, so)); impl.append(r)
            lines.append(json.dumps({"id": len(cases), "op": "roundtrip", "opts": o, "sopts": so, "ty": t.lean, "d": py_proto(d)}))
    out = subprocess.run([DRIVER], input="\n".join(lines) + "\n", capture_output=True, text=True).stdout.splitlines()
    stats = collections.Counter(); shown = collections.Counter()
    for (t, d, o, so), im, line in zip(cases, impl, out):
        mo = json.loads(line)
        if "error" in mo: stats["driver-error"] += 1; print("DRIVER ERROR", mo); continue
        stats["cases"] += 1
        if "ok" not in mo["model"]: stats["deser-mismatch"] += 1; continue
        m = mo["ser"]
        if "ok" in m: m = {"ok": canon_out(t, m["ok"])}
        if isinstance(m, dict) and m.get("crash", "").startswith("ModelScope"): stats["out-of-scope"] += 1; continue
        stats["impl:" + next(iter(im))] += 1
        if m != im:
            key = (next(iter(im)), next(iter(m))); stats["disagree"] += 1; stats[f"disagree:{key}"] += 1
            if shown[key] < 3:
                shown[key] += 1
                print("DISAGREE", json.dumps({"py": t.py, "d": repr(d), "sopts": so, "impl": im, "model": m})[:800])
    print(dict(stats))
if __name__ == '__main__':
    if os.environ.get('REPAIRED'):
        import patches; patches.apply()
    main()
