"""GraphQL engine, first slice (C19): nullability mirrors Optional, names mirror the data model, and executing
a query returns what `serialize` returns for the same object."""
import sys, os, json, random, importlib, collections
HERE = os.path.dirname(os.path.abspath(__file__)); sys.path.insert(0, HERE)
import graphql
from apischema import serialize
from apischema.graphql import graphql_schema

LEAVES = [("int", 1), ("str", "s"), ("float", 1.5), ("bool", True)]

def gen(rnd, i, depth=0):
    """returns (type source, value source, [class source lines], selection set or None, nullable, listy)"""
    r = rnd.random()
    if r < 0.45 or depth > 2:
        t, v = rnd.choice(LEAVES); return t, repr(v), [], None, False
    if r < 0.6:
        t, v, cl, sel, _ = gen(rnd, i, depth + 1)
        return f"Optional[{t}]", (v if rnd.random() < 0.5 else "None"), cl, sel, True
    if r < 0.75:
        t, v, cl, sel, _ = gen(rnd, i, depth + 1)
        return f"List[{t}]", f"[{v}, {v}]", cl, sel, False
    name = f"T{i}_{rnd.randrange(10**6)}"
    lines, sels, args = ["@dataclass", f"class {name}:"], [], []
    cls_lines = []
    for k in range(rnd.randint(1, 3)):
        t, v, cl, sel, nullable = gen(rnd, i, depth + 1)
        cls_lines += cl
        lines.append(f"    f{k}: {t}"); args.append(f"f{k}={v}")
        sels.append(f"f{k}" + (f" {{ {sel} }}" if sel else ""))
    return name, f"{name}({', '.join(args)})", cls_lines + lines + [""], " ".join(sels), False

def unwrap(t):
    """(nullable, list-depth pattern) of a graphql type, e.g. [Int!]! -> ('!', ['!'])"""
    out = []
    while True:
        nn = isinstance(t, graphql.GraphQLNonNull)
        if nn: t = t.of_type
        out.append("!" if nn else "?")
        if isinstance(t, graphql.GraphQLList): t = t.of_type; continue
        return out, t

def expect_pattern(tsrc):
    out = []
    while True:
        if tsrc.startswith("Optional["):
            out.append("?"); tsrc = tsrc[9:-1]
            while tsrc.startswith("Optional["): tsrc = tsrc[9:-1]     # typing flattens Optional[Optional[T]]
        else: out.append("!")
        if tsrc.startswith("List["): tsrc = tsrc[5:-1]; continue
        return out, tsrc

def main():
    seed = int(os.environ.get("VERIF_SEED", "0")); n = int(sys.argv[1])
    rnd = random.Random(seed)
    cases = []
    src = ["from dataclasses import dataclass", "from typing import *", ""]
    for i in range(n):
        t, v, cl, sel, nullable = gen(rnd, i)
        src += cl
        cases.append((i, t, v, sel))
    for i, t, v, sel in cases:
        src += [f"def q{i}() -> {t}:", f"    return {v}", ""]
    modname = f"vpool_g{seed}"; path = os.path.join(HERE, modname + ".py")
    open(path, "w").write("\n".join(src)); mod = importlib.import_module(modname); os.remove(path)
    stats = collections.Counter()
    NAMES = {"int": "Int", "str": "String", "float": "Float", "bool": "Boolean"}
    for i, t, v, sel in cases:
        stats["cases"] += 1
        fn = getattr(mod, f"q{i}")
        try:
            schema = graphql_schema(query=[fn])
        except Exception as e:
            stats["schema-exc:" + type(e).__name__] += 1
            if stats["schema-exc:" + type(e).__name__] <= 2: print("SCHEMA EXC", t, repr(e)[:200])
            continue
        f = schema.query_type.fields[f"q{i}"]
        got, leaf = unwrap(f.type); want, leafsrc = expect_pattern(t)
        if got != want:
            stats["P-nullability"] += 1
            if stats["P-nullability"] <= 3: print("NULLABILITY", t, got, want)
        wname = NAMES.get(leafsrc, leafsrc)
        if leaf.name != wname:
            stats["P-name"] += 1
            if stats["P-name"] <= 3: print("NAME", t, leaf.name, wname)
        query = "{ q%d%s }" % (i, (" { %s }" % sel) if sel else "")
        res = graphql.graphql_sync(schema, query)
        py = eval(v, vars(mod)); tp = eval(t, vars(mod))
        want_data = serialize(tp, py)
        if res.errors or res.data[f"q{i}"] != want_data:
            stats["P-exec"] += 1
            if stats["P-exec"] <= 4: print("EXEC", t, v, query, res.errors, res.data, want_data)
    print(dict(stats))
if __name__ == "__main__": main()
