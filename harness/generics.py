"""Generic dataclasses (C01 / C04 / C06): a specialised generic class behaves as the plain class obtained by substituting the type arguments.

Generated hierarchies: a generic base `A(Generic[...])` whose fields use its type variables (bare, inside List / Dict / Optional / Tuple), a child
`B(A[args], Generic[params])` - `args` built from B's own parameters in any order, repeated, wrapped or replaced by concrete types; `Generic[...]`
given explicitly (then it fixes the parameter order, which may differ from the order of first appearance in the bases) or left out - and sometimes a
grandchild.  The reference is this module's own substitution (types are small terms): for the specialisation `X[concrete...]` it computes every field's
closed type and writes a *twin* plain dataclass with those types.  Oracle (differential, on the real code): deserialization of the same datum gives
the same outcome - same field values or the same errors; serialization of the value gives the same data; both JSON schemas are equal up to the
class name."""
import collections, dataclasses, random
from common import build_module, case_hash

CONCRETE = ["int", "str", "bool", "float", "List[int]", "Optional[str]"]
VARS = ["T", "U", "V"]


# ---- type terms: ("v", name) | ("c", python source) | ("list", t) | ("dict", t) | ("opt", t) | ("tup", t1, t2)
def render(t):
    k = t[0]
    if k == "v" or k == "c": return t[1]
    if k == "list": return f"List[{render(t[1])}]"
    if k == "dict": return f"Dict[str, {render(t[1])}]"
    if k == "opt": return f"Optional[{render(t[1])}]"
    if k == "tup": return f"Tuple[{render(t[1])}, {render(t[2])}]"
    raise AssertionError(t)


def subst(t, env):
    k = t[0]
    if k == "v": return env.get(t[1], t)
    if k == "c": return t
    return (k,) + tuple(subst(x, env) for x in t[1:])


def free_vars(t, acc):
    if t[0] == "v":
        if t[1] not in acc: acc.append(t[1])
    elif t[0] != "c":
        for x in t[1:]: free_vars(x, acc)
    return acc


def gen_term(r, vars_, depth=0):
    x = r.random()
    if depth >= 2 or x < 0.5: return ("v", r.choice(vars_)) if vars_ and r.random() < 0.8 else ("c", r.choice(CONCRETE[:4]))
    k = r.choice(["list", "dict", "opt", "tup"])
    if k == "tup": return ("tup", gen_term(r, vars_, depth + 1), gen_term(r, vars_, depth + 1))
    return (k, gen_term(r, vars_, depth + 1))


def gen_hierarchy(r, i):
    """-> classes: list of {name, params, base: (name, args) | None, explicit_generic, fields: [(fname, term)]}"""
    classes = []
    pa = r.sample(VARS, r.randint(1, 3))
    kind = r.choice(["dataclass", "dataclass", "dataclass", "namedtuple", "typeddict"])
    classes.append({"name": f"GA{i}", "params": pa, "base": None, "explicit": True, "kind": kind,
                    "fields": [(f"a{k}", gen_term(r, pa)) for k in range(r.randint(1, 3))]})
    # make sure every parameter is used by a field (otherwise a specialisation would not matter)
    used = []
    for _, t in classes[0]["fields"]: free_vars(t, used)
    for p in pa:
        if p not in used: classes[0]["fields"].append((f"a_{p.lower()}", ("v", p)))
    depth = r.randint(1, 2) if kind == "dataclass" else 0
    for d in range(depth):
        par = classes[-1]; name = f"G{'BC'[d]}{i}"
        own = r.sample(VARS, r.randint(1, 3))
        args = []
        for _ in par["params"]:
            x = r.random()
            args.append(("v", r.choice(own)) if x < 0.6 else (gen_term(r, own, 1) if x < 0.85 else ("c", r.choice(CONCRETE))))
        seen = []
        for a in args: free_vars(a, seen)
        fields = [(f"{'bc'[d]}{k}", gen_term(r, own)) for k in range(r.randint(0, 2))]
        for _, t in fields: free_vars(t, seen)
        explicit = r.random() < 0.6
        if explicit:
            params = list(own); r.shuffle(params)
            for p in seen:
                if p not in params: params.append(p)
        else:
            params = seen                       # Python: order of first appearance in the bases (the fields do not count)
            seen_b = []
            for a in args: free_vars(a, seen_b)
            # a variable used by a field only is not a parameter of the class: keep the fields within the parameters
            fields = [(fn, t) for fn, t in fields if all(v in seen_b for v in free_vars(t, []))]
            params = seen_b
        # a field of an ancestor declared again, with another type over this class's parameters (the most derived declaration decides, the position stays)
        inherited = [fn for c_ in classes for fn, _ in c_["fields"]]
        if inherited and r.random() < 0.3:
            fields = fields + [(r.choice(inherited), gen_term(r, params) if params else ("c", r.choice(CONCRETE[:4])))]
        classes.append({"name": name, "params": params, "base": (par["name"], args), "explicit": explicit, "fields": fields})
    return classes


def class_src(classes):
    out = []
    for c in classes:
        bases = []
        if c.get("kind", "dataclass") != "dataclass":
            out += [f"class {c['name']}({'NamedTuple' if c['kind'] == 'namedtuple' else 'TypedDict'}, Generic[{', '.join(c['params'])}]):"]
            out += [f"    {fn}: {render(t)}" for fn, t in c["fields"]] + [""]
            continue
        if c["base"]: bases.append(f"{c['base'][0]}[{', '.join(render(a) for a in c['base'][1])}]" if c["base"][1] else c["base"][0])
        if c["explicit"] and c["params"]: bases.append(f"Generic[{', '.join(c['params'])}]")
        out += ["@dataclass", f"class {c['name']}" + (f"({', '.join(bases)})" if bases else "") + ":"]
        out += [f"    {fn}: {render(t)}" for fn, t in c["fields"]] or ["    pass"]
        out.append("")
    return out


def resolved_fields(classes, idx, env):
    """fields of classes[idx] specialised by env (params -> closed terms), base fields first"""
    c = classes[idx]
    res = []
    if c["base"]:
        pidx = next(k for k, x in enumerate(classes) if x["name"] == c["base"][0])
        penv = {p: subst(a, env) for p, a in zip(classes[pidx]["params"], c["base"][1])}
        res += resolved_fields(classes, pidx, penv)
    for fn, t in c["fields"]:
        t2 = subst(t, env)
        if any(fn == x for x, _ in res): res = [(x, t2 if x == fn else y) for x, y in res]        # declared again: same position, this type
        else: res.append((fn, t2))
    return res


def gen_value(r, t, bad=False):
    """JSON datum for a closed term"""
    k = t[0]
    if k == "c":
        s = t[1]
        if s == "int": return "x" if bad else r.randrange(-3, 9)
        if s == "str": return 7 if bad else r.choice(["", "a", "bc"])
        if s == "bool": return "no" if bad else r.random() < 0.5
        if s == "float": return "f" if bad else r.choice([0.5, 2, -1.25])
        if s == "List[int]": return [1, "x"] if bad else [r.randrange(5) for _ in range(r.randrange(3))]
        if s == "Optional[str]": return 3 if bad else r.choice([None, "s"])
        raise AssertionError(s)
    if k == "list": return [gen_value(r, t[1], bad and j == 0) for j in range(r.randint(1 if bad else 0, 2))]
    if k == "dict": return {key: gen_value(r, t[1], bad and j == 0) for j, key in enumerate(r.sample("xyz", r.randint(1 if bad else 0, 2)))}
    if k == "opt": return None if (not bad and r.random() < 0.3) else gen_value(r, t[1], bad)
    if k == "tup": return [gen_value(r, t[1], bad), gen_value(r, t[2], False)]
    raise AssertionError(t)


def to_model(t):
    k = t[0]
    if k == "v": return ["v", t[1]]
    if k == "c": return ["c", t[1]]
    if k == "list": return ["app", "List", [to_model(t[1])]]
    if k == "dict": return ["app", "Dict", [["c", "str"], to_model(t[1])]]
    if k == "opt": return ["app", "Optional", [to_model(t[1])]]
    if k == "tup": return ["app", "Tuple", [to_model(t[1]), to_model(t[2])]]
    raise AssertionError(t)


def chain_of(classes, idx):
    """the hierarchy from classes[idx] up to the root, in the protocol of the model"""
    out = []
    while True:
        c = classes[idx]
        out.append({"name": c["name"], "params": c["params"], "base_args": [to_model(a) for a in (c["base"][1] if c["base"] else [])],
                    "fields": [[fn, to_model(t)] for fn, t in c["fields"]]})
        if not c["base"]: return out
        idx = next(k for k, x in enumerate(classes) if x["name"] == c["base"][0])


def py_render(tp):
    """canonical spelling of a Python type object (what `resolve_type_hints` returns)"""
    import typing
    if tp is type(None): return "None"
    origin = typing.get_origin(tp); args = typing.get_args(tp)
    if origin is None: return getattr(tp, "__name__", repr(tp))
    if origin is typing.Union:
        rest = [a for a in args if a is not type(None)]
        inner = py_render(rest[0]) if len(rest) == 1 else "Union[" + ", ".join(py_render(a) for a in rest) + "]"
        return "Optional[" + inner + "]" if len(rest) < len(args) else inner
    name = {list: "List", dict: "Dict", tuple: "Tuple"}.get(origin, getattr(origin, "__name__", repr(origin)))
    return name + "[" + ", ".join(py_render(a) for a in args) + "]"


def run_part(prop, seed, budget):
    from apischema import deserialize, serialize, ValidationError
    from apischema.json_schema import deserialization_schema, serialization_schema
    r = random.Random(seed * 811 + 29)
    failures, hist, distinct, n = [], collections.Counter(), set(), 0
    n_h = 30 * budget
    hs = [gen_hierarchy(r, i) for i in range(n_h)]
    specs = []
    src = ["from dataclasses import dataclass", "from typing import *", ""] + [f"{v} = TypeVar({v!r})" for v in VARS] + [""]
    for i, classes in enumerate(hs):
        src += class_src(classes)
        for idx in range(len(classes)):
            c = classes[idx]
            for rep in range(2 if c["params"] else 1):
                conc = [("c", r.choice(CONCRETE)) for _ in c["params"]]
                env = dict(zip(c["params"], conc))
                fields = resolved_fields(classes, idx, env)
                twin = f"Tw{i}_{idx}_{rep}"
                kind = classes[0].get("kind", "dataclass")
                src += (["@dataclass", f"class {twin}:"] if kind == "dataclass" else [f"class {twin}({'NamedTuple' if kind == 'namedtuple' else 'TypedDict'}):"]) + [f"    {fn}: {render(t)}" for fn, t in fields] + [""]
                specs.append({"classes": classes, "idx": idx, "py": (f"{c['name']}[{', '.join(render(x) for x in conc)}]" if conc else c["name"]), "twin": twin, "fields": fields, "conc": [render(x) for x in conc],
                              "reordered": c["explicit"] and c["base"] is not None, "kind": kind})
    ns = vars(build_module(src, f"generics{seed}"))

    # K: the model's resolution (Api.Generics.resolveChain, driver op "generic") against the package's `resolve_type_hints` on the very classes
    if prop == "C01":
        from common import model as run_driver
        from apischema.typing import resolve_type_hints
        reqs = [{"op": "generic", "id": k, "chain": chain_of(sp["classes"], sp["idx"]),
                 "args": [["c", a] for a in sp["conc"]]} for k, sp in enumerate(specs)]
        for sp, rep in zip(specs, run_driver(reqs)):
            hist["K:generic-resolutions"] += 1
            if "error" in rep:
                failures.append({"kind": "K", "k_ok": False, "part": "generic-classes", "features": ["generic"], "why": ["model and implementation disagree"], "py": sp["py"], "model": rep}); continue
            try: real = [[fn, py_render(tp)] for fn, tp in resolve_type_hints(eval(sp["py"], ns)).items()]
            except Exception as e: real = "EXC:" + type(e).__name__ + ":" + str(e)[:80]
            model = [[fn, py_render(eval(ts, ns))] for fn, ts in rep["fields"]]
            twin = [[fn, py_render(eval(render(t), ns))] for fn, t in sp["fields"]]
            if not rep["wf"] or not rep["closed"] or sorted(model) != sorted(twin):
                failures.append({"kind": "K", "k_ok": False, "part": "generic-classes", "features": ["generic"], "why": ["model and reference substitution disagree"], "py": sp["py"],
                                 "classes": class_src(sp["classes"]), "model": rep, "twin": twin})
            elif real != model and (not isinstance(real, list) or sorted(real) != sorted(model)):
                failures.append({"kind": "K", "k_ok": False, "part": "generic-classes", "features": ["generic"], "why": ["model and implementation disagree"], "py": sp["py"],
                                 "classes": class_src(sp["classes"]), "model_fields": model, "resolve_type_hints": real,
                                 "appearance_order_gives": rep["appearance_order"]})
                hist["K:generic-disagreements"] += 1

    # two steps = one step (Api.Generics.resolve_two_step): an alias of a partial specialisation, closed afterwards, has the fields of the direct spelling
    if prop == "C01":
        from apischema.typing import resolve_type_hints
        for sp in specs:
            if len(sp["conc"]) < 2: continue
            k = r.randrange(len(sp["conc"])); gname = sp["classes"][sp["idx"]]["name"]
            partial_src = f"{gname}[{', '.join('T' if j == k else c for j, c in enumerate(sp['conc']))}]"
            hist["generic:two-step-specialisations"] += 1; n += 1
            try:
                two = eval(f"({partial_src})[{sp['conc'][k]}]", ns); one = eval(sp["py"], ns)
                a = [[fn, py_render(tp)] for fn, tp in resolve_type_hints(two).items()]; b = [[fn, py_render(tp)] for fn, tp in resolve_type_hints(one).items()]
            except Exception as e: a, b = "EXC:" + type(e).__name__ + ":" + str(e)[:80], None
            if a != b:
                failures.append({"kind": "P", "k_ok": None, "part": "generic-classes", "features": ["generic"], "why": ["two-step-specialisation-differs-from-the-direct-one"],
                                 "py": f"({partial_src})[{sp['conc'][k]}]", "direct": sp["py"], "classes": class_src(sp["classes"]), "two_steps": a, "one_step": b})

    def out(fn):
        try: return ("ok", fn())
        except ValidationError as e: return ("invalid", e.errors)
        except Exception as e: return ("crash", type(e).__name__ + ":" + str(e)[:100])

    def rename(x, a, b):
        if isinstance(x, dict): return {k: rename(v, a, b) for k, v in x.items()}
        if isinstance(x, list): return [rename(v, a, b) for v in x]
        if isinstance(x, str): return x.replace(a, b)
        return x

    for sp in specs:
        G = eval(sp["py"], ns); Tw = ns[sp["twin"]]; gname = sp["classes"][sp["idx"]]["name"]
        hist["generic:depth-%d" % sp["idx"]] += 1; hist["generic:" + sp["kind"]] += 1
        if sp["reordered"]: hist["generic:explicit-Generic[...]-on-a-subclass"] += 1
        def fail(why, **kw):
            failures.append(dict({"kind": "P", "k_ok": None, "part": "generic-classes", "features": ["generic"], "why": [why], "py": sp["py"],
                                  "classes": class_src(sp["classes"]), "twin_fields": [f"{fn}: {render(t)}" for fn, t in sp["fields"]]}, **kw))
        if prop in ("C06", "C07"):
            n += 1; distinct.add(case_hash("gen-schema", sp["py"], sp["twin_fields"] if "twin_fields" in sp else repr(sp["fields"])))
            for fn_ in (deserialization_schema, serialization_schema):
                a = out(lambda: fn_(G)); b = out(lambda: fn_(Tw))
                if a[0] == "crash" or rename(a[1], gname, "X") != rename(b[1], sp["twin"], "X") if a[0] == "ok" and b[0] == "ok" else a[0] != b[0]:
                    fail("schema-of-a-specialised-generic-class-differs-from-its-plain-twin", generic=repr(a)[:400], twin=repr(b)[:400], which=fn_.__name__)
            # the property itself on the specialised class: accepted <=> validates; what is serialized validates
            import jsonschema
            dsch = out(lambda: deserialization_schema(G)); ssch = out(lambda: serialization_schema(G))
            if dsch[0] != "ok" or ssch[0] != "ok": continue
            for trial in range(4):
                bad_field = r.choice(sp["fields"])[0] if trial == 3 else None
                d = {fn: gen_value(r, t, fn == bad_field) for fn, t in sp["fields"]}
                if trial == 2 and len(d) > 1: d.pop(r.choice(sorted(d)))
                n += 1; distinct.add(case_hash("gen-acc", sp["py"], repr(sp["fields"]), repr(d)))
                a = out(lambda: deserialize(G, d)); ok = jsonschema.Draft202012Validator(dsch[1]).is_valid(d)
                if a[0] == "crash" or (a[0] == "ok") != ok:
                    fail("deserialize-and-deserialization_schema-disagree-on-a-specialised-generic-class", datum=d, deserialize=repr(a)[:300], validates=ok, real=dsch[1])
                elif a[0] == "ok":
                    sv = out(lambda: serialize(G, a[1]))
                    if sv[0] != "ok" or not jsonschema.Draft202012Validator(ssch[1]).is_valid(sv[1]):
                        fail("serialized-value-does-not-validate-against-serialization_schema", datum=d, serialized=repr(sv)[:300], real=ssch[1])
            continue
        for trial in range(4):
            bad_field = r.choice(sp["fields"])[0] if trial == 3 else None
            d = {fn: gen_value(r, t, fn == bad_field) for fn, t in sp["fields"]}
            if trial == 2 and len(d) > 1: d.pop(r.choice(sorted(d)))
            n += 1; distinct.add(case_hash("gen", sp["py"], repr(sp["fields"]), repr(d)))
            a = out(lambda: deserialize(G, d)); b = out(lambda: deserialize(Tw, d))
            hist["generic-outcome:" + b[0]] += 1
            if prop == "C01":
                plain = lambda v: dataclasses.asdict(v) if dataclasses.is_dataclass(v) else (v._asdict() if hasattr(v, "_asdict") else v)
                av = plain(a[1]) if a[0] == "ok" else a[1]; bv = plain(b[1]) if b[0] == "ok" else b[1]
                if a[0] != b[0] or av != bv or (a[0] == "ok" and sp["kind"] != "typeddict" and type(a[1]).__name__ != gname):
                    fail("specialised-generic-class-deserializes-differently-from-its-plain-twin" if a[0] != "crash" else "crash:" + a[1].split(":")[0],
                         datum=d, generic=repr(a)[:300], twin=repr(b)[:300])
            elif prop == "C04" and a[0] == "ok" and b[0] == "ok":
                sa = out(lambda: serialize(G, a[1])); sb = out(lambda: serialize(Tw, b[1]))
                if sa != sb: fail("specialised-generic-class-serializes-differently-from-its-plain-twin", datum=d, generic=repr(sa)[:300], twin=repr(sb)[:300])
                sa2 = out(lambda: serialize(G, a[1], check_type=True))
                if sa2 != sb: fail("specialised-generic-class-serializes-differently-from-its-plain-twin", datum=d, generic=repr(sa2)[:300], twin=repr(sb)[:300], check_type=True)
    return failures, n, distinct, hist
