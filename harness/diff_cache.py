"""cache engine (C09) on the real code: random histories of configuration operations and observations; after
every observation the same observation is recomputed after `apischema.cache.reset()`; a difference is a
stale cache.  Each stale observation is attributed to the operations performed since the last reset, and
compared with the wiring table: staleness is *expected* only after an operation whose mutation path does not reset."""
import sys, os, json, random, collections
from dataclasses import dataclass, field
from typing import Optional, List
import apischema
from apischema import (deserialize, serialize, settings, ValidationError, alias, order, schema, type_name, validator,
                       deserializer, serializer)
from apischema.conversions import Conversion, reset_deserializers, reset_serializer
from apischema.json_schema import deserialization_schema, serialization_schema
from apischema.objects import set_object_fields, ObjectField
from apischema.cache import reset

@dataclass
class A:
    some_field: int = 0
    other: Optional[str] = None

class W:
    def __init__(self, v): self.v = v
    def __eq__(self, o): return isinstance(o, W) and o.v == self.v
    def __repr__(self): return f"W({self.v!r})"

def outcome(fn):
    try: return ("ok", repr(fn()))
    except ValidationError as e: return ("invalid", json.dumps(e.errors, sort_keys=True))
    except Exception as e: return ("crash", type(e).__name__ + ":" + str(e)[:60])

OBS = {
    "deser_A": lambda: deserialize(A, {"some_field": 1, "x": 2}),
    "deser_A_bad": lambda: deserialize(A, {"some_field": -5, "someField": "q"}),
    "deser_Amin": lambda: deserialize(A, {"some_field": "s"}),
    "ser_A": lambda: serialize(A, A(3, None)),
    "dschema_A": lambda: deserialization_schema(A),
    "sschema_A": lambda: serialization_schema(A),
    "deser_W": lambda: deserialize(W, 5),
    "ser_W": lambda: serialize(W, W(5)),
    "deser_cint": lambda: deserialize(int, 0, schema=schema(min=1)),
}

def fresh(fn):
    """the same observation after `cache.reset()`, computed in a forked child so that the parent's caches stay as they are"""
    r, w = os.pipe()
    pid = os.fork()
    if pid == 0:
        os.close(r); reset()
        os.write(w, json.dumps(outcome(fn)).encode()); os._exit(0)
    os.close(w); data = b""
    while True:
        chunk = os.read(r, 65536)
        if not chunk: break
        data += chunk
    os.close(r); os.waitpid(pid, 0)
    return tuple(json.loads(data))

def ops(rnd, b=None, index=None):
    b = (rnd.random() < 0.5) if b is None else b
    pick = rnd.choice if index is None else (lambda l: l[index])
    return pick([
        ("settings.additional_properties", lambda: setattr(settings, "additional_properties", b)),
        ("settings.camel_case", lambda: setattr(settings, "camel_case", b)),
        ("settings.deserialization.coerce", lambda: setattr(settings.deserialization, "coerce", b)),
        ("settings.deserialization.fall_back_on_default", lambda: setattr(settings.deserialization, "fall_back_on_default", b)),
        ("settings.serialization.exclude_none", lambda: setattr(settings.serialization, "exclude_none", b)),
        ("settings.serialization.exclude_defaults", lambda: setattr(settings.serialization, "exclude_defaults", b)),
        ("settings.errors.minimum", lambda: setattr(settings.errors, "minimum", "too small {}" if b else "less than {} (minimum)")),
        ("settings.base_schema.type", lambda: setattr(settings.base_schema, "type", (lambda tp: schema(description="d") if tp is A else None) if b else (lambda *_: None))),
        ("deserializer(W)", lambda: deserializer(Conversion(W, source=int, target=W))),
        ("reset_deserializers(W)", lambda: (deserializer(Conversion(W, source=int, target=W)) if not b else reset_deserializers(W))),
        ("serializer(W)", lambda: serializer(Conversion(lambda w: w.v, source=W, target=int))),
        ("reset_serializer(W)", lambda: (serializer(Conversion(lambda w: w.v, source=W, target=int)) if not b else reset_serializer(W))),
        ("alias(A)", lambda: alias((lambda s: s.upper()) if b else (lambda s: s))(A)),
        ("order(A)", lambda: order({"other": order(-1 if b else 1)})(A)),
        ("schema(A)", lambda: schema(max_props=1 if b else 5)(A)),
        ("type_name(A)", lambda: type_name("AA" if b else "A")(A)),
        ("validator(A)", lambda: validator(lambda self: (_ for _ in ()).throw(ValidationError(["never valid"])) if self.some_field < 0 else None, owner=A)) if False else
        ("set_object_fields(A)", lambda: set_object_fields(A, [ObjectField("some_field", int, required=b)] if b else None)),
    ])

def targeted():
    """every (mutation, observation) pair: baseline value, warm the observation, flip the value, observe"""
    rnd = random.Random(0); n_ops = 17; stale = collections.defaultdict(list); total = 0
    for i in range(n_ops):
        for b in (False, True):
            for oname in OBS:
                reset()
                name, base = ops(rnd, not b, i); _, flip = ops(rnd, b, i)
                try: base()
                except Exception: continue
                outcome(OBS[oname])                      # warm
                try: flip()
                except Exception: continue
                total += 1
                a = outcome(OBS[oname]); f = fresh(OBS[oname])
                if a != f: stale[name].append(oname)
    print("targeted triples:", total)
    for k, v in sorted(stale.items()): print("  STALE after", k, "->", sorted(set(v)))

def main():
    if sys.argv[1] == "targeted": return targeted()
    seed = int(os.environ.get("VERIF_SEED", "0")); n_hist = int(sys.argv[1]); length = int(sys.argv[2])
    rnd = random.Random(seed); stats = collections.Counter(); stale_by_op = collections.Counter(); shown = collections.Counter()
    for h in range(n_hist):
        since_reset = []; reset()
        for step in range(length):
            if rnd.random() < 0.55:
                name, fn = ops(rnd)
                try: fn()
                except Exception as e: stats["op-exc:" + name] += 1
                since_reset.append(name); stats["ops"] += 1
            else:
                oname = rnd.choice(list(OBS)); stats["observations"] += 1
                a = outcome(OBS[oname]); b = fresh(OBS[oname])
                if a != b:
                    stats["stale"] += 1
                    culprits = sorted(set(since_reset))
                    for c in culprits: stale_by_op[c] += 1
                    key = (oname, tuple(culprits[-3:]))
                    if shown["x"] < 6: shown["x"] += 1; print("STALE", oname, "after", since_reset[-4:], "\n   cached:", a[1][:110], "\n   fresh :", b[1][:110])
    print(dict(stats)); print("ops present in stale windows:", dict(stale_by_op.most_common()))
if __name__ == "__main__": main()
