"""C01 on classes with aggregate fields (pattern properties, additional properties, flattened classes), against a reference attribution of the
keys written from the documentation: declared fields first, then each flattened class takes its own keys, then each pattern field - in
declaration order - the remaining keys it matches, then the additional-properties field the rest; what is left is unexpected.  Accepted <=>
conforming, and the value is the one the attribution gives."""
import collections, random, re
from common import build_module, case_hash

VTS = {"int": lambda x: type(x) is int, "str": lambda x: type(x) is str, "Any": lambda x: True}
KEYS = ["a", "p_k", "p_x", "p_x1", "p_y", "p_z", "x", "zz", "other"]
VALS = [1, 0, "s", "", None, 2.5, True]


def gen_class(r, i):
    c = {"i": i, "decl_pk": r.random() < 0.5, "pat": r.random() < 0.8, "pat2": r.random() < 0.4, "extras": r.random() < 0.4, "flat": r.random() < 0.4,
         "vt": r.choice(sorted(VTS)), "vt2": r.choice(sorted(VTS)), "vt3": r.choice(sorted(VTS))}
    L = []
    if c["flat"]: L += ["@dataclass", f"class AGI{i}:", "    x: int = 0", "    p_z: Optional[str] = None", ""]
    L += ["@dataclass", f"class AG{i}:", "    a: int"]
    if c["decl_pk"]: L.append("    p_k: str = 'd'")
    # (the more specific pattern first when there are two)
    if c["pat2"]: L.append(f"    pat2: Dict[str, {c['vt2']}] = field(default_factory=dict, metadata=properties(pattern=r'^p_x'))")
    if c["pat"]: L.append(f"    pat: Dict[str, {c['vt']}] = field(default_factory=dict, metadata=properties(pattern=r'^p_'))")
    if c["extras"]: L.append(f"    extras: Dict[str, {c['vt3']}] = field(default_factory=dict, metadata=properties)")
    if c["flat"]: L.append(f"    inner: AGI{i} = field(default_factory=AGI{i}, metadata=flatten)")
    c["src"] = L
    return c


def reference(c, d, ap, ns):
    """(conforms, expected constructor arguments)"""
    if not isinstance(d, dict): return False, None
    ok = True; args = {}; remain = [k for k in d]
    def take(k): remain.remove(k)
    if "a" in d: take("a"); ok &= type(d["a"]) is int; args["a"] = d["a"]
    else: ok = False
    if c["decl_pk"] and "p_k" in d: take("p_k"); ok &= type(d["p_k"]) is str; args["p_k"] = d["p_k"]
    if c["flat"]:
        inner = {}
        if "x" in d: take("x"); ok &= type(d["x"]) is int; inner["x"] = d["x"]
        if "p_z" in d: take("p_z"); ok &= d["p_z"] is None or type(d["p_z"]) is str; inner["p_z"] = d["p_z"]
        args["inner"] = ("AGI", inner)
    for name, pat, vt in (("pat2", "^p_x", c["vt2"]), ("pat", "^p_", c["vt"])):
        if not c[name]: continue
        got = {k: d[k] for k in list(remain) if re.match(pat, k)}
        for k in got: take(k)
        ok &= all(VTS[vt](v) for v in got.values()); args[name] = got
    if c["extras"]:
        got = {k: d[k] for k in list(remain)}
        for k in got: take(k)
        ok &= all(VTS[c["vt3"]](v) for v in got.values()); args["extras"] = got
    if remain and not ap: ok = False
    return ok, args


def run_skipped(seed, budget, failures, hist, distinct):
    """fields that deserialization skips (`skip`, `skip(deserialization=True)`), with and without a class aliaser: their key is not a property of the class -
    unexpected, or ignored under additional_properties - and the field keeps its default"""
    from apischema import deserialize, ValidationError
    r = random.Random(seed * 71 + 9); n = 0
    src = ["from dataclasses import dataclass, field", "from typing import *", "from apischema import alias", "from apischema.metadata import skip", ""]
    specs = []
    for i in range(30 * budget):
        ca = r.choice([None, "lambda s: s.upper()", "lambda s: 'p_' + s"]); md = r.choice(["skip", "skip(deserialization=True)"])
        L = ([f"@alias({ca})"] if ca else []) + ["@dataclass", f"class SKD{i}:", "    a: int", "    b: str = 'dv'", f"    sk: int = field(default=5, metadata={md})", ""]
        src += L; specs.append((i, ca, L))
    mod = build_module(src, f"c01skip_{seed}"); ns = dict(vars(mod))
    for i, ca, L in specs:
        cls = ns[f"SKD{i}"]; al = eval(ca) if ca else (lambda x: x)
        for _ in range(6):
            d = {al("a"): r.choice([1, 7, "x"])}
            if r.random() < 0.5: d[al("b")] = r.choice(["s", 3])
            has_sk = r.random() < 0.6
            if has_sk: d[r.choice([al("sk"), "sk"])] = r.choice([9, "x"])
            ap = r.random() < 0.3
            want_ok = type(d[al("a")]) is int and (al("b") not in d or type(d[al("b")]) is str) and (ap or not has_sk)
            n += 1; hist["skipped-field:" + ("class-aliaser" if ca else "plain")] += 1
            distinct.add(case_hash("skipped", L, repr(d), ap))
            why, info = [], {}
            try: v = deserialize(cls, dict(d), additional_properties=ap); got_ok = True
            except ValidationError as e: got_ok = False; info["errors"] = e.errors[:4]
            except Exception as e: got_ok = None; why.append("crash:" + type(e).__name__)
            if got_ok is not None and got_ok != want_ok: why.append("accepted-but-not-conforming" if got_ok else "conforming-but-rejected")
            elif got_ok and v != cls(d[al("a")], d.get(al("b"), "dv"), 5): why.append("value-differs-from-the-attribution-of-the-keys"); info["got"] = repr(v)
            if why:
                failures.append({"kind": "P", "part": "aggregate-oracle", "features": ["skipped-field"], "src": L, "py": f"SKD{i}", "datum": repr(d), "additional_properties": ap,
                                 "why": why, "info": info, "k_ok": None})
    return n


def run_part(seed, budget):
    from apischema import deserialize, ValidationError
    r = random.Random(seed * 977 + 5)
    classes = [gen_class(r, i) for i in range(60 * budget)]
    src = ["from dataclasses import dataclass, field", "from typing import *", "from apischema.metadata import properties, flatten", ""]
    for c in classes: src += c["src"] + [""]
    mod = build_module(src, f"c01agg_{seed}"); ns = dict(vars(mod))
    failures, hist, distinct, n = [], collections.Counter(), set(), 0
    kreqs = []
    for c in classes:
        cls = ns[f"AG{c['i']}"]
        for _ in range(10):
            ks = r.sample(KEYS, r.randint(0, 5))
            if r.random() < 0.8 and "a" not in ks: ks.append("a")
            if r.random() < 0.8:
                # mostly keys that some field of the class can take (so that most data conform)
                takes = {"a"} | ({"p_k"} if c["decl_pk"] or c["pat"] else set()) | ({"x", "p_z"} if c["flat"] else set()) | ({"p_x", "p_x1"} if c["pat"] or c["pat2"] else set()) \
                    | ({"p_y", "p_z", "p_k"} if c["pat"] else set()) | (set(KEYS) if c["extras"] else set())
                ks = [k for k in ks if k in takes]
            d = {}
            for k in ks:
                # mostly well-typed values, so that most data conform
                good = {"a": [1, 0, 7], "x": [0, 5], "p_z": ["s", None], "p_k": ["s", ""]}.get(k)
                d[k] = r.choice(good) if good and r.random() < 0.8 else r.choice(VALS)
            ap = r.random() < 0.3
            want_ok, args = reference(c, d, ap, ns)
            n += 1; hist["aggregate-oracle:" + ("conforming" if want_ok else "non-conforming")] += 1
            distinct.add(case_hash("agg", c["src"], repr(d), ap))
            why, info = [], {}
            try:
                v = deserialize(cls, dict(d), additional_properties=ap); got_ok = True
            except ValidationError as e: got_ok = False; info["errors"] = e.errors[:4]; info["all_errors"] = e.errors
            except Exception as e: got_ok = None; why.append("crash:" + type(e).__name__); info["msg"] = str(e)[:100]
            if got_ok is not None and got_ok != want_ok: why.append("accepted-but-not-conforming" if got_ok else "conforming-but-rejected")
            elif got_ok:
                a2 = dict(args)
                if "inner" in a2: a2["inner"] = ns[f"AGI{c['i']}"](**a2["inner"][1])
                want = cls(**a2)
                if v != want: why.append("value-differs-from-the-attribution-of-the-keys"); info.update(got=repr(v)[:300], expected=repr(want)[:300])
            if why:
                failures.append({"kind": "P", "part": "aggregate-oracle", "features": ["aggregate"], "src": c["src"], "py": f"AG{c['i']}", "datum": repr(d), "additional_properties": ap,
                                 "why": why, "info": {k_: v_ for k_, v_ in info.items() if k_ != "all_errors"}, "k_ok": None})
            # K: the model's attribution (Api.Agg.attrib, driver op "aggattr") fed with what the *compiled method* holds - aliases, flattened alias sets,
            # patterns (as the keys of the datum each matches), the additional field - against where the real code put the keys
            kreqs.append((c, d, ap, got_ok, v if got_ok else None, info.get("all_errors")))
    n += run_skipped(seed, budget, failures, hist, distinct)
    from apischema import deserialization_method
    from common import model
    reqs, metas = [], []
    for c, d, ap, got_ok, v, errs in kreqs:
        cls = ns[f"AG{c['i']}"]
        om = getattr(deserialization_method(cls, additional_properties=ap), "__self__", None)
        if om is None or not hasattr(om, "pattern_fields"): continue        # (no aggregate field: SimpleObjectMethod)
        keys = list(d)
        reqs.append({"op": "aggattr", "id": len(reqs), "aliases": sorted(om.all_aliases), "flattened": [list(f.aliases) for f in om.flattened_fields],
                     "patterns": [[k for k in keys if f.pattern.match(k)] for f in om.pattern_fields], "additional": om.additional_field is not None, "keys": keys})
        metas.append((c, d, ap, got_ok, v, errs, om))
    for (c, d, ap, got_ok, v, errs, om), rep in zip(metas, model(reqs)):
        hist["K:aggregate-attributions"] += 1
        bad = None
        if "error" in rep: bad = {"model": rep}
        elif got_ok:
            real_matched = [sorted(getattr(v, f.name)) for f in om.pattern_fields]
            real_add = sorted(getattr(v, om.additional_field.name)) if om.additional_field is not None else None
            m_add = sorted(rep["additional"]) if rep["additional"] is not None else None
            if real_matched != [sorted(g) for g in rep["matched"]] or real_add != m_add or (rep["unexpected"] and not ap):
                bad = {"real_matched": real_matched, "real_additional": real_add, "model": rep}
        elif errs is not None and not ap:
            real_unexp = sorted(e["loc"][0] for e in errs if e["err"] == "unexpected property" and len(e["loc"]) == 1)
            if real_unexp != sorted(rep["unexpected"]): bad = {"real_unexpected": real_unexp, "model": rep}
        if bad:
            failures.append(dict({"kind": "K", "part": "aggregate-oracle", "features": ["aggregate"], "src": c["src"], "py": f"AG{c['i']}", "datum": repr(d), "additional_properties": ap,
                                  "why": ["model and implementation disagree"], "k_ok": False}, **bad))
    return failures, n, distinct, hist
