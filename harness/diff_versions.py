"""versions engine (C18): real draft-07 / 2019-09 output vs `to07 (buildD T)`; Lean `v07` vs jsonschema's
Draft7Validator / Draft201909Validator; P-check: the rewritten schema accepts the same data as the 2020-12 one."""
import sys, os, json, random, importlib, subprocess, collections
HERE = os.path.dirname(os.path.abspath(__file__)); sys.path.insert(0, HERE)
from gen import Gen, Pool, py_proto
from diff_deser import DRIVER
from diff_schema import canon_schema, first_diff, common_domain
from apischema.json_schema import deserialization_schema, JsonSchemaVersion
import jsonschema

def main():
    seed = int(os.environ.get("VERIF_SEED", "0")); n_types = int(sys.argv[1]); per = int(sys.argv[2])
    rnd = random.Random(seed); pool = Pool(); g = Gen(rnd, pool, None)
    types = [g.ty(3) for _ in range(n_types)]
    modname = f"vpool_v{seed}"; path = os.path.join(HERE, modname + ".py")
    open(path, "w").write(pool.source()); mod = importlib.import_module(modname); os.remove(path); ns = dict(vars(mod))
    cases, lines = [], []; stats = collections.Counter(); shown = collections.Counter()
    def note(kind, **kw):
        stats[kind] += 1
        if shown[kind] < 3: shown[kind] += 1; print(kind, json.dumps(kw, default=repr)[:600])
    for t in types:
        tp = eval(t.py, ns); ap = rnd.random() < 0.3
        ver = rnd.choice(["DRAFT_7", "DRAFT_2019_09"])
        try:
            real = deserialization_schema(tp, additional_properties=ap, with_schema=False, version=getattr(JsonSchemaVersion, ver))
            base = deserialization_schema(tp, additional_properties=ap, with_schema=False)
        except Exception as e: stats["schema-exc:" + type(e).__name__] += 1; continue
        if "definitions" in real or "$defs" in real: stats["skipped-refs"] += 1; continue
        data = [d for d in (g.mutate(g.valid(t)) if rnd.random() < 0.5 else g.valid(t) for _ in range(per)) if common_domain(d)]
        cases.append((t, ver, real, base, data))
        lines.append(json.dumps({"id": len(cases), "op": "schema07", "ap": ap, "keeps_prefix_items": True, "ty": t.lean,
                                 "data": [py_proto(d) for d in data]}))
    out = subprocess.run([DRIVER], input="\n".join(lines) + "\n", capture_output=True, text=True).stdout.splitlines()
    for (t, ver, real, base, data), line in zip(cases, out):
        mo = json.loads(line)
        if "error" in mo: note("driver-error", err=mo); continue
        stats["types"] += 1
        if canon_schema(py_proto(real)) != canon_schema(mo["schema"]):
            note("K-schema-differs", py=t.py, ver=ver, diff=first_diff(canon_schema(py_proto(real)), canon_schema(mo["schema"]))); continue
        V = jsonschema.Draft7Validator if ver == "DRAFT_7" else jsonschema.Draft201909Validator
        v, v0 = V(real), jsonschema.Draft202012Validator(base)
        for d, mv in zip(data, mo["valid"]):
            stats["data"] += 1
            jv, j0 = v.is_valid(d), v0.is_valid(d)
            if jv != mv: note("K-validator-differs", py=t.py, d=d, jsonschema=jv, lean=mv)
            if jv != j0: note("P-C18-instances-differ", py=t.py, ver=ver, d=d, old=jv, new=j0)
    print(dict(stats))
if __name__ == "__main__": main()
