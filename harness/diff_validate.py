"""validators engine, part 1 (C10): the real `validate()` on generated validator lists vs the Lean model.

Validators are real `Validator` objects; their bodies log their own invocation and fail or pass as the
case says.  `dependencies`, `discard`, `field`, `owner` are set as the decorator would set them.
CURRENT=1 (default) compares with the model of the pinned tree (self-loop -> RecursionError),
CURRENT=0 patches `validators[i:]` -> `validators[i+1:]` in-process and compares with the repaired model."""
import sys, os, json, random, subprocess, collections, dataclasses, inspect, textwrap
HERE = os.path.dirname(os.path.abspath(__file__)); sys.path.insert(0, HERE)
from diff_deser import DRIVER
from apischema import ValidationError
import apischema.validation.validators as vmod
from apischema.validation.validators import Validator

CURRENT = os.environ.get("CURRENT", "1") == "1"
if not CURRENT:
    src = textwrap.dedent(inspect.getsource(vmod.validate)).replace("validators[i:]", "validators[i + 1 :]")
    assert "validators[i + 1 :]" in src
    exec(compile(src, vmod.__file__, "exec"), vmod.__dict__)

@dataclasses.dataclass
class Obj:
    a: int = 0
    b: int = 0
    c: int = 0
    d: int = 0

NAMES = ["a", "b", "c", "d"]

def gen_case(rnd):
    n = rnd.randint(1, 5)
    vs = []
    for i in range(n):
        deps = rnd.sample(NAMES, rnd.randint(0, 3))
        field = rnd.choice(NAMES) if rnd.random() < 0.3 else None
        if field is not None and rnd.random() < 0.8:
            if field not in deps: deps.append(field)
        r = rnd.random()
        if r < 0.4: discard = None
        elif r < 0.5: discard = ()
        else: discard = tuple(rnd.sample(NAMES, rnd.randint(1, 2)))
        fails = rnd.random() < 0.6
        vs.append((i, sorted(deps), discard, field, fails, f"m{i}"))
    return vs

def run_real(case):
    log = []
    objs = []
    for (i, deps, discard, field, fails, msg) in case:
        def f(self, i=i, fails=fails, msg=msg):
            log.append(i)
            if fails: raise ValidationError([msg])
        v = Validator(f, field, discard)
        v.owner = Obj
        v.dependencies = set(deps)
        v.params = set()
        objs.append(v)
    lim = sys.getrecursionlimit(); sys.setrecursionlimit(300)
    try:
        vmod.validate(Obj(), objs)
        return {"ran": log, "errs": None}
    except ValidationError as e:
        return {"ran": log, "errs": [[list(x["loc"]), ["custom", x["err"]]] for x in e.errors]}
    except RecursionError:
        return {"crash": "RecursionError"}
    finally:
        sys.setrecursionlimit(lim)

def main():
    seed = int(os.environ.get("VERIF_SEED", "0")); n = int(sys.argv[1])
    rnd = random.Random(seed)
    cases = [gen_case(rnd) for _ in range(n)]
    lines = []
    for k, case in enumerate(cases):
        vs = []
        for (i, deps, discard, field, fails, msg) in case:
            eff = discard if not (field is not None and discard is None) else (field,)
            vs.append([i, deps, list(eff or ()), field, fails, msg])
        lines.append(json.dumps({"id": k, "op": "validate", "vs": vs, "current": CURRENT}))
    out = subprocess.run([DRIVER], input="\n".join(lines) + "\n", capture_output=True, text=True).stdout.splitlines()
    stats = collections.Counter(); bad = 0
    for k, case in enumerate(cases):
        m = json.loads(out[k]); m.pop("id", None)
        r = run_real(case)
        if "crash" in r: stats["crash"] += 1
        elif r["errs"] is None: stats["ok"] += 1
        else: stats["invalid"] += 1
        stats[f"ran{len(r.get('ran', []))}"] += 1
        if m != r:
            bad += 1
            if bad <= 5: print("DIFF", case, "\n  model", m, "\n  real ", r)
    print("cases", n, "disagreements", bad, dict(stats))
    sys.exit(1 if bad else 0)

if __name__ == "__main__":
    main()
