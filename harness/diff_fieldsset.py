"""fieldsset engine (C15): with_fields_set classes x operation sequences vs the state-machine model."""
import sys, os, json, random, importlib, subprocess, collections, dataclasses
HERE = os.path.dirname(os.path.abspath(__file__)); sys.path.insert(0, HERE)
from diff_deser import DRIVER
from apischema import deserialize, serialize
from apischema.fields import fields_set, set_fields, unset_fields
from apischema.dataclasses import replace

def gen_class(rnd, i):
    names = ["a", "b", "c", "d", "e"][: rnd.randint(2, 5)]
    first_plain = True
    kinds = {}
    for n in names:
        kinds[n] = "plain" if n == "a" else rnd.choice(["plain", "plain", "default_as_set", "init_false", "initvar", "required"])
    # required (no default) fields must come first
    order = [n for n in names if kinds[n] == "required"] + [n for n in names if kinds[n] != "required"]
    cname = f"F{i}"
    lines = ["@with_fields_set", "@dataclass", f"class {cname}:"]
    for n in order:
        k = kinds[n]
        if k == "required": lines.append(f"    {n}: int")
        elif k == "plain": lines.append(f"    {n}: int = 0")
        elif k == "default_as_set": lines.append(f"    {n}: int = field(default=1, metadata=default_as_set)")
        elif k == "init_false": lines.append(f"    {n}: int = field(default=2, init=False)")
        elif k == "initvar": lines.append(f"    {n}: InitVar[int] = 3")
    if any(k == "initvar" for k in kinds.values()):
        ivs = [n for n in order if kinds[n] == "initvar"]
        lines += [f"    def __post_init__(self, {', '.join(ivs)}):", "        pass"]
    params = [n for n in order if kinds[n] != "init_false"]
    desc = {"params": params, "init_vars": [n for n in order if kinds[n] == "initvar"],
            "init_vars_default": [n for n in order if kinds[n] == "initvar"],
            "post_init": [n for n in order if kinds[n] in ("init_false", "default_as_set")]}
    return cname, lines, order, kinds, desc

def main():
    seed = int(os.environ.get("VERIF_SEED", "0")); n = int(sys.argv[1]); nseq = int(sys.argv[2])
    rnd = random.Random(seed)
    src = ["from dataclasses import dataclass, field, InitVar", "from apischema.fields import with_fields_set",
           "from apischema.metadata import default_as_set", ""]
    classes = [gen_class(rnd, i) for i in range(n)]
    for c in classes: src += c[1] + [""]
    modname = f"vpool_f{seed}"
    open(os.path.join(HERE, modname + ".py"), "w").write("\n".join(src))
    mod = importlib.import_module(modname)
    lines, expect = [], []
    for cname, _, order, kinds, desc in classes:
        cls = getattr(mod, cname)
        required = [x for x in order if kinds[x] == "required"]
        settable = [x for x in order if kinds[x] != "initvar"]
        for _ in range(nseq):
            ops, states = [], []
            # first op: construct (directly or by deserialization)
            opt = [x for x in desc["params"] if x not in required and rnd.random() < 0.5]
            if rnd.random() < 0.5:
                kw = required + opt; rnd.shuffle(kw)
                npos = rnd.randint(0, len(required))
                pos = desc["params"][:npos]
                kw = [k for k in kw if k not in pos]
                obj = cls(*[5] * npos, **{k: 5 for k in kw}); ops.append(["construct", npos, kw])
            else:
                keys = required + opt; rnd.shuffle(keys)
                obj = deserialize(cls, {k: 5 for k in keys}); ops.append(["construct", 0, keys])
            states.append(sorted(fields_set(obj)))
            for _ in range(rnd.randint(0, 4)):
                k = rnd.choice(["setattr", "set_fields", "unset_fields", "replace"])
                if k == "setattr":
                    a = rnd.choice(settable); setattr(obj, a, 9); ops.append([k, a])
                elif k == "set_fields":
                    ns = rnd.sample(settable, rnd.randint(0, len(settable))); ow = rnd.random() < 0.3
                    set_fields(obj, *ns, overwrite=ow); ops.append([k, ns, ow])
                elif k == "unset_fields":
                    ns = rnd.sample(settable, rnd.randint(0, len(settable))); unset_fields(obj, *ns); ops.append([k, ns])
                else:
                    ch = rnd.sample([x for x in desc["params"]], rnd.randint(0, len(desc["params"])))
                    obj = replace(obj, **{c: 7 for c in ch}); ops.append([k, ch])
                states.append(sorted(fields_set(obj)))
            # exclude_unset: emitted keys = set fields that are real fields
            ser = sorted(serialize(cls, obj).keys())
            expect.append((cname, ops, states, ser, [x for x in order if kinds[x] != "initvar"]))
            lines.append(json.dumps({"id": len(lines), "op": "fieldsset", "cls": desc, "ops": ops}))
    out = subprocess.run([DRIVER], input="\n".join(lines) + "\n", capture_output=True, text=True).stdout.splitlines()
    stats = collections.Counter()
    for (cname, ops, states, ser, fields), line in zip(expect, out):
        mo = json.loads(line); stats["sequences"] += 1; stats["ops"] += len(ops)
        if "error" in mo: print("DRIVER ERROR", mo); continue
        if mo["states"] != states:
            stats["disagree"] += 1
            if stats["disagree"] <= 5: print("DISAGREE", cname, ops, "impl", states, "model", mo["states"])
        final = mo["states"][-1]
        if ser != sorted(x for x in final if x in fields):
            stats["exclude_unset-disagree"] += 1
            if stats["exclude_unset-disagree"] <= 3: print("SER", cname, ops, ser, final)
    print(dict(stats))
if __name__ == "__main__": main()
