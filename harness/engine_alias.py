"""alias engine (C11) on the real code: the external name of every field, as seen by ten views, must be one string,
`dyn(class_aliaser(alias or name))` (class aliaser skipped for `override=False`):
keys of `serialize`; keys `deserialize` consumes; `properties` and `required` of both schemas; `dependentRequired`;
`loc` of a field error and of an alias yielded by a validator; GraphQL input and output field names.
The specification is the Lean `Alias.extName`; the Lean theorems say every modelled view maps fields through it."""
import sys, os, json, random, collections, re
HERE = os.path.dirname(os.path.abspath(__file__)); sys.path.insert(0, HERE)
from common import build_module, case_hash

NAMES = ["a", "some_name", "camelCase", "class_", "x1", "id"]
ALIASES = [None, None, "al", "$ref", "some_alias", "A"]
CLS_ALIASERS = {"none": None, "upper": "lambda s: s.upper()", "prefix": "lambda s: 'p_' + s"}
HEADER = ["from dataclasses import dataclass, field", "from typing import Optional, Annotated", "from apischema import alias, dependent_required, validator, ValidationError", ""]


def gen_class(rnd, i):
    names = rnd.sample(NAMES, rnd.randint(1, 4))
    fields = [(n, rnd.choice(ALIASES), rnd.random() < 0.8) for n in names]
    ca = rnd.choice(list(CLS_ALIASERS))
    dep = len(names) >= 2 and rnd.random() < 0.3
    group = dep and rnd.random() < 0.4
    val = rnd.random() < 0.3
    lines = []
    if CLS_ALIASERS[ca]: lines.append(f"@alias({CLS_ALIASERS[ca]})")
    lines += ["@dataclass", f"class K{i}:"]
    for k, (n, al, ov) in enumerate(fields):
        md = None
        if al is not None: md = f"alias({al!r}" + ("" if ov else ", override=False") + ")"
        elif not ov: md = "alias(override=False)"
        opt = dep and k < 2
        tp, dflt = ("Optional[int]", "default=None") if opt else ("int", "")
        if md and rnd.random() < 0.3:
            # the alias given inside Annotated[...] instead of field(metadata=...)
            lines.append(f"    {n}: Annotated[{tp}, {md}]" + (f" = field({dflt})" if dflt else ""))
        elif md or dflt: lines.append(f"    {n}: {tp} = field(" + ", ".join(x for x in (dflt, f"metadata={md}" if md else "") if x) + ")")
        else: lines.append(f"    {n}: {tp}")
    # dataclass syntax: fields without default first
    body = lines[lines.index(f"class K{i}:") + 1:]
    body.sort(key=lambda l: "default=None" in l)
    lines = lines[:lines.index(f"class K{i}:") + 1] + body
    if dep and group: lines.append(f"    deps = dependent_required([{fields[0][0]}, {fields[1][0]}])")      # each requires the other
    elif dep: lines.append(f"    deps = dependent_required({{{fields[0][0]}: [{fields[1][0]}]}})")
    val2 = len(fields) >= 2 and rnd.random() < 0.3
    if val2:
        for k in (0, 1):
            fn = fields[-1 - k][0]
            lines += [f"    @validator({fn!r})", f"    def check_f{k}(self):", f"        if self.{fn} == 13:", f"            raise ValidationError(['bad{k}'])"]
    if val and not val2:
        tgt = fields[-1][0]
        lines += ["    @validator", "    def check(self):", f"        if self.{tgt} == 13:", f"            yield ({tgt!r},), 'thirteen'" if False else f"            yield (get_alias(self).{tgt},), 'thirteen'"]
    return {"cls": f"K{i}", "src": lines, "fields": fields, "ca": ca, "dep": dep, "val": val and not val2, "group": group, "val2": val2}


def spec_name(n, al, ov, ca, dyn):
    base = al if al is not None else n
    if ov and CLS_ALIASERS[ca]: base = eval(CLS_ALIASERS[ca])(base)
    return dyn(base)


def observe(cls, c, dyn, want):
    from apischema import deserialize, serialize, ValidationError
    from apischema.json_schema import deserialization_schema, serialization_schema
    fields, cname = c["fields"], c["cls"]
    views = {}
    try:
        obj = cls(**{n_: i for i, (n_, _, _) in enumerate(fields)})
        views["serialize"] = list(serialize(cls, obj, aliaser=dyn))
        ds = deserialization_schema(cls, aliaser=dyn, with_schema=False)
        ss = serialization_schema(cls, aliaser=dyn, with_schema=False)
        req_names = [w for w, (n_, _, _), k in zip(want, fields, range(len(fields))) if not (c["dep"] and k < 2)]
        views["deser_schema.properties"] = list(ds["properties"]); views["deser_schema.required"] = (list(ds.get("required", [])), req_names)
        views["ser_schema.properties"] = list(ss["properties"]); views["ser_schema.required"] = list(ss.get("required", []))
        if c["dep"]:
            dr = ds.get("dependentRequired", {})
            exp = [[want[0], [want[1]]]] + ([[want[1], [want[0]]]] if c.get("group") else [])
            views["dependentRequired"] = (sorted([k, sorted(v)] for k, v in dr.items()), sorted(exp))
            # ... under its older spelling too (draft-07 `dependencies`), and in the other versions
            from apischema.json_schema import JsonSchemaVersion
            for ver, kw in (("DRAFT_7", "dependencies"), ("DRAFT_2019_09", "dependentRequired"), ("OPEN_API_3_1", "dependentRequired")):
                vs = deserialization_schema(cls, aliaser=dyn, with_schema=False, all_refs=False, version=getattr(JsonSchemaVersion, ver))
                views[f"{ver}.{kw}"] = (sorted([str(k), sorted(map(str, v))] for k, v in vs.get(kw, {}).items()), sorted(exp))
                views[f"{ver}.properties"] = list(vs["properties"])
        if c["dep"]:
            # the rule is enforced on the external names: requiring key present, required key absent
            d = {k: i for i, k in enumerate(want) if k != want[1]}
            try: deserialize(cls, d, aliaser=dyn); views["dependent_required.enforced"] = ("ACCEPTED", [[want[1]], [want[0]]])
            except ValidationError as e:
                got = sorted([x["loc"], re.findall(r"'([^']*)'", x["err"])] for x in e.errors)
                views["dependent_required.enforced"] = (got, [[[want[1]], [want[0]]]])
        back = deserialize(cls, {k: i for i, k in enumerate(want)}, aliaser=dyn)
        views["deserialize.accepts"] = want if back == obj else "WRONG VALUE"
        try: deserialize(cls, {k: "x" for k in want}, aliaser=dyn); views["error.loc"] = "ACCEPTED"
        except ValidationError as e: views["error.loc"] = sorted({x["loc"][0] for x in e.errors if x["loc"]})
        if c.get("val2"):
            d = {k: i for i, k in enumerate(want)}; d[want[-1]] = 13; d[want[-2]] = 13
            try: deserialize(cls, d, aliaser=dyn); views["validators.loc"] = "ACCEPTED"
            except ValidationError as e: views["validators.loc"] = (sorted(x["loc"] for x in e.errors), sorted([[want[-1]], [want[-2]]]))
        if c["val"]:
            d = {k: i for i, k in enumerate(want)}; d[want[-1]] = 13
            try: deserialize(cls, d, aliaser=dyn); views["validator.loc"] = "ACCEPTED"
            except ValidationError as e: views["validator.loc"] = ([x["loc"] for x in e.errors], [[want[-1]]])
        if all(re.fullmatch(r"[_a-zA-Z][_a-zA-Z0-9]*", w) for w in want):
            from apischema.graphql import graphql_schema
            def q(arg: cls) -> cls: return arg
            q.__annotations__ = {"arg": cls, "return": cls}
            try:
                gs = graphql_schema(query=[q], aliaser=dyn)
                views["graphql.output_fields"] = list(gs.type_map[cname].fields)
                views["graphql.input_fields"] = list(gs.type_map[cname + "Input"].fields)
            except Exception as e: views["graphql"] = "EXC " + type(e).__name__ + ": " + str(e)[:60]
    except ValidationError as e:
        views["deserialize.accepts"] = ("REJECTED", e.errors)
    except Exception as e:
        views["exception"] = type(e).__name__ + ": " + str(e)[:80]
    return views


def run(prop, seed, budget, ctx):
    from apischema.utils import to_camel_case
    DYN = {"identity": (lambda s: s), "camel": to_camel_case, "custom": (lambda s: s + "_")}
    rnd = random.Random(seed); n = 250 * budget
    classes = [gen_class(rnd, i) for i in range(n)]
    src = list(HEADER) + ["from apischema.objects import get_alias", ""]
    for c in classes: src += c["src"] + [""]
    mod = build_module(src, f"alias{seed}")
    failures, hist, distinct, samples, evaluations = [], collections.Counter(), set(), [], 0
    for c in classes:
        cls = getattr(mod, c["cls"])
        for dn, dyn in DYN.items():
            want = [spec_name(n_, al, ov, c["ca"], dyn) for n_, al, ov in c["fields"]]
            if len(set(want)) != len(want): hist["name-clash(skipped)"] += 1; continue
            evaluations += 1
            views = observe(cls, c, dyn, want)
            nontriv = c["ca"] != "none" or dn != "identity" or any(al for _, al, _ in c["fields"])
            if nontriv: distinct.add(case_hash(c["src"], dn))
            bad = {}
            for k, v in views.items():
                got, exp = (v if isinstance(v, tuple) and len(v) == 2 and isinstance(v[1], list) and not isinstance(v[0], str) else (v, want))
                hist["view:" + k] += 1
                ok = (sorted(map(json.dumps, got)) == sorted(map(json.dumps, exp))) if isinstance(got, list) else False
                if not ok: bad[k] = {"got": got, "expected": exp}
            if len(samples) < 3 and nontriv: samples.append({"class": c["src"], "aliaser": dn, "external_names": want, "views": {k: v if not isinstance(v, tuple) else v[0] for k, v in views.items()}})
            if bad:
                for k in bad: hist["bad:" + k] += 1
                failures.append({"kind": "P", "k_ok": True, "cls": c["cls"], "src": c["src"], "fields": c["fields"], "ca": c["ca"], "dep": c["dep"], "val": c["val"], "group": c["group"], "val2": c.get("val2"),
                                 "aliaser": dn, "external_names": want, "bad_views": bad, "why": ["views-disagree-on-the-external-name:" + ",".join(sorted(bad))]})
    # the keys of a flattened class are names like the others: what serialize emits for a class that uses it several times (plainly, under field
    # constraints / validators), deserialize reads back
    import engine_ser
    ff, fn = engine_ser.run_flat_reuse(rnd, seed, budget, hist, distinct)
    for f in ff: f["k_ok"] = True; f["why"] = ["flattened-keys-accepted-by-one-view-and-not-by-another:" + f["why"][0]]
    failures += ff; evaluations += fn
    import gql_args
    gf, gn, gd, gh = gql_args.run_part(seed, budget)
    failures += gf; evaluations += gn; distinct |= gd
    for k_, v_ in gh.items(): hist[k_] += v_
    import inherit_alias
    gf, gn, gd, gh = inherit_alias.run_part(seed, budget)
    failures += gf; evaluations += gn; distinct |= gd
    for k_, v_ in gh.items(): hist[k_] += v_
    import corners7
    gf, gn, gd, gh = corners7.run_part("C11", seed, budget)
    failures += gf; evaluations += gn; distinct |= gd
    for k_, v_ in gh.items(): hist[k_] += v_
    import objmodel
    gf, gn, gd, gh = objmodel.run_part("C11", seed, budget)
    failures += gf; evaluations += gn; distinct |= gd
    for k_, v_ in gh.items(): hist[k_] += v_
    return {"evaluations": evaluations, "distinct_nontrivial": len(distinct),
            "rule": "field validators inherited by subclasses that rename the field or have another class aliaser: error located at the consumed key; GraphQL operation arguments (queries, mutations, subscriptions with / without resolver; alias by parameters_metadata / Annotated) x aliasers: published name = consumed name; "
                    "generated dataclasses (1-4 fields from a pool with snake_case, camelCase, a keyword-like name, a $-prefixed alias; override=False; "
                    "dependent_required; a validator yielding an alias) x class aliaser in {none, upper, prefix} x dynamic aliaser in {identity, "
                    "camelCase, custom}; up to eleven views compared with the specification; non-trivial = some aliasing in effect",
            "samples": samples, "histograms": dict(hist), "failures": failures}


KF = {
    # dependentRequired keys / values are plain str: a dynamic aliaser renames `properties` but not `dependentRequired`
}


def is_known(kid, case):
    p = KF.get(kid)
    return bool(p and case.get("kind") == "P" and p(case))


def replay(prop, case, ctx):
    from apischema.utils import to_camel_case
    if case.get("part") == "gql-args": return {k: case.get(k) for k in ("src", "op", "aliaser", "why", "info")}
    if case.get("part") == "ordered": return {k: case.get(k) for k in ("class_src", "value", "serialized", "why")}
    DYN = {"identity": (lambda s: s), "camel": to_camel_case, "custom": (lambda s: s + "_")}
    mod = build_module(HEADER + ["from apischema.objects import get_alias", ""] + case["src"], "aliasreplay")
    c = {k: case.get(k) for k in ("cls", "src", "fields", "ca", "dep", "val", "group", "val2")}; c["fields"] = [tuple(f) for f in c["fields"]]
    views = observe(getattr(mod, case["cls"]), c, DYN[case["aliaser"]], case["external_names"])
    bad = [k for k in case["bad_views"] if k in views and json.dumps(views[k], default=list) == json.dumps(case["bad_views"][k]["got"], default=list)]
    return {"views": {k: (v[0] if isinstance(v, tuple) else v) for k, v in views.items()}, "external_names": case["external_names"], "fails": bool(bad) or any(k in views for k in case["bad_views"])}
