"""fieldsset engine (C15): with_fields_set classes x operation sequences vs the state-machine model (K), and the
documented behaviour evaluated on the real code (P): fields_set after deserialization / construction, each update
operation, exclude_unset serialization."""
import sys, os, json, random, collections
HERE = os.path.dirname(os.path.abspath(__file__)); sys.path.insert(0, HERE)
from common import model, build_module, case_hash

HEADER = ["from dataclasses import dataclass, field, InitVar", "from apischema.fields import with_fields_set",
          "from apischema.metadata import default_as_set", ""]


def gen_class(rnd, i):
    names = ["a", "b", "c", "d", "e"][: rnd.randint(2, 5)]
    kinds = {}
    for n in names:
        kinds[n] = "plain" if n == "a" else rnd.choice(["plain", "plain", "default_as_set", "init_false", "initvar", "required"])
    order = [n for n in names if kinds[n] == "required"] + [n for n in names if kinds[n] != "required"]
    cname = f"F{i}"
    lines = ["@with_fields_set", "@dataclass", f"class {cname}:"]
    for n in order:
        k = kinds[n]
        if k == "required": lines.append(f"    {n}: int")
        elif k == "plain": lines.append(f"    {n}: int = 0")
        elif k == "default_as_set": lines.append(f"    {n}: int = field(default=1, metadata=default_as_set)")
        elif k == "init_false": lines.append(f"    {n}: int = field(default=2, init=False)")
        elif k == "initvar": lines.append(f"    {n}: InitVar[int] = 3")
    ivs = [n for n in order if kinds[n] == "initvar"]
    if ivs: lines += [f"    def __post_init__(self, {', '.join(ivs)}):", "        pass"]
    params = [n for n in order if kinds[n] != "init_false"]
    desc = {"params": params, "init_vars": ivs, "init_vars_default": ivs,
            "post_init": [n for n in order if kinds[n] in ("init_false", "default_as_set")]}
    return cname, lines, order, kinds, desc


def gen_ops(rnd, order, kinds, desc):
    required = [x for x in order if kinds[x] == "required"]
    settable = [x for x in order if kinds[x] != "initvar"]
    opt = [x for x in desc["params"] if x not in required and rnd.random() < 0.5]
    ops = []
    if rnd.random() < 0.5:
        # positional arguments: a prefix of the parameters - of the required ones, or reaching into the defaulted ones and the init variables
        kw = required + opt; rnd.shuffle(kw); npos = rnd.randint(0, len(required)) if rnd.random() < 0.5 else rnd.randint(0, len(desc["params"]))
        pos = desc["params"][:npos]; kw = [k for k in kw if k not in pos]
        ops.append(["construct", npos, kw])
    else:
        keys = [k for k in required + opt if kinds[k] != "initvar"]; rnd.shuffle(keys)
        ops.append(["deserialize", 0, keys])
    for _ in range(rnd.randint(0, 4)):
        k = rnd.choice(["setattr", "set_fields", "unset_fields", "replace"])
        if k == "setattr": ops.append([k, rnd.choice(settable)])
        elif k == "set_fields": ops.append([k, rnd.sample(settable, rnd.randint(0, len(settable))), rnd.random() < 0.3])
        elif k == "unset_fields": ops.append([k, rnd.sample(settable, rnd.randint(0, len(settable)))])
        else: ops.append([k, rnd.sample(desc["params"], rnd.randint(0, len(desc["params"])))])
    return ops


ALIASING = []      # filled by run_real: [operation, arguments, set of the original before, after]


def run_real(cls, ops):
    del ALIASING[:]
    from apischema import deserialize, serialize
    from apischema.fields import fields_set, set_fields, unset_fields
    from apischema.dataclasses import replace
    states, obj = [], None
    for op in ops:
        k = op[0]
        if k == "construct": obj = cls(*[5] * op[1], **{x: 5 for x in op[2]})
        elif k == "deserialize": obj = deserialize(cls, {x: 5 for x in op[2]})
        elif k == "setattr": setattr(obj, op[1], 9)
        elif k == "set_fields": set_fields(obj, *op[1], overwrite=op[2])
        elif k == "unset_fields": unset_fields(obj, *op[1])
        else:
            # `replace` gives a new object with a set of its own: the original keeps the set it had, whatever happens to the copy afterwards
            prev = obj; before = sorted(fields_set(prev))
            obj = replace(obj, **{c: 7 for c in op[1]})
            if fields_set(prev) is fields_set(obj) or sorted(fields_set(prev)) != before: ALIASING.append(["replace", op[1], before, sorted(fields_set(prev))])
        states.append(sorted(fields_set(obj)))
    return states, sorted(serialize(cls, obj)), sorted(serialize(cls, obj, exclude_unset=False))


def spec_states(desc, ops):
    """the documented behaviour, written independently of the Lean model (set algebra on names)"""
    iv, post = set(desc["init_vars"]), set(desc["post_init"])
    s, out = set(), []
    for op in ops:
        k = op[0]
        if k in ("construct", "deserialize"): s = (set(desc["params"][:op[1]]) | set(op[2])) - iv | post
        elif k == "setattr": s = s | {op[1]}
        elif k == "set_fields": s = (set() if op[2] else s) | set(op[1])
        elif k == "unset_fields": s = s - set(op[1])
        else: s = s | (set(op[1]) - iv)        # replace: what was set stays set, what is changed becomes set
        out.append(sorted(s))
    return out


def run(prop, seed, budget, ctx):
    rnd = random.Random(seed); n, nseq = 100 * budget, 10
    classes = [gen_class(rnd, i) for i in range(n)]
    mod = build_module(HEADER + [l for c in classes for l in c[1] + [""]], f"fs{seed}")
    reqs, meta = [], []
    for cname, lines, order, kinds, desc in classes:
        for _ in range(nseq):
            ops = gen_ops(rnd, order, kinds, desc)
            mops = [["construct", o[1], o[2]] if o[0] == "deserialize" else o for o in ops]
            reqs.append({"id": len(reqs), "op": "fieldsset", "cls": desc, "ops": mops})
            meta.append({"src": lines, "cls": cname, "desc": desc, "ops": ops, "fields": [x for x in order if kinds[x] != "initvar"]})
    if ctx.get("tier") == "thorough":
        # bounded-exhaustive: every sequence of at most two updates after every construction / deserialization, on three class shapes
        import itertools
        shapes = []
        for k, body in enumerate((["    a: int = 0", "    b: int = 0"],
                                  ["    a: int", "    b: int = field(default=1, metadata=default_as_set)", "    c: int = field(default=2, init=False)"],
                                  ["    a: int = 0", "    d: InitVar[int] = 3", "    def __post_init__(self, d):", "        pass"])):
            cname = f"FE{k}"; lines = ["@with_fields_set", "@dataclass", f"class {cname}:"] + body
            shapes.append((cname, lines))
        emod = build_module(HEADER + [l for _, ls in shapes for l in ls + [""]], f"fse{seed}")
        descs = [{"params": ["a", "b"], "init_vars": [], "init_vars_default": [], "post_init": []},
                 {"params": ["a", "b"], "init_vars": [], "init_vars_default": [], "post_init": ["b", "c"]},
                 {"params": ["a", "d"], "init_vars": ["d"], "init_vars_default": ["d"], "post_init": []}]
        fieldsets = [["a", "b"], ["a", "b", "c"], ["a"]]
        for (cname, lines), desc, fields in zip(shapes, descs, fieldsets):
            req = ["a"] if cname == "FE1" else []
            optional = [p for p in desc["params"] if p not in req]
            firsts = []
            for r in range(len(optional) + 1):
                for sub in itertools.combinations(optional, r):
                    firsts.append(["construct", 0, req + list(sub)])
                    firsts.append(["deserialize", 0, [x for x in req + list(sub) if x not in desc["init_vars"]]])
            alphabet = [["setattr", "a"], ["setattr", fields[-1]], ["set_fields", ["a"], False], ["set_fields", [fields[-1]], True],
                        ["unset_fields", ["a"]], ["replace", ["a"]], ["replace", []]]
            for first in firsts:
                for n_up in (0, 1, 2):
                    for ups in itertools.product(alphabet, repeat=n_up):
                        ops = [first] + [list(u) for u in ups]
                        mops = [["construct", o[1], o[2]] if o[0] == "deserialize" else o for o in ops]
                        reqs.append({"id": len(reqs), "op": "fieldsset", "cls": desc, "ops": mops})
                        meta.append({"src": lines, "cls": cname, "desc": desc, "ops": ops, "fields": fields, "mod": emod})
    ms = model(reqs) if ctx["driver_ok"] else [{} for _ in reqs]
    failures, hist, distinct, samples = [], collections.Counter(), set(), []
    kbad = 0
    for m, c in zip(ms, meta):
        cls = getattr(c.pop("mod", mod), c["cls"])
        try: states, ser, ser_all = run_real(cls, c["ops"])
        except Exception as e: states, ser, ser_all = "EXC:" + type(e).__name__ + ":" + str(e)[:80], None, None
        c["real"] = states; c["model"] = m.get("states"); c["serialized_keys"] = ser
        for o in c["ops"]: hist["op:" + o[0]] += 1
        if len(c["ops"]) > 1: distinct.add(case_hash(c["desc"], c["ops"]))
        if len(samples) < 4: samples.append({"class": c["src"], "ops": c["ops"], "fields_set_after_each_op": states})
        k_ok = (not ctx["driver_ok"]) or m.get("states") == states
        c["k_ok"] = k_ok
        why = []
        if isinstance(states, str): why.append("exception")
        else:
            spec = spec_states(c["desc"], c["ops"])
            bad = [i for i, (a, b) in enumerate(zip(states, spec)) if a != b]
            if bad: why.append(f"fields_set-after-{c['ops'][bad[0]][0]}-differs-from-the-documented-set"); c["spec"] = spec; c["first_bad_op"] = bad[0]
            if ser != sorted(x for x in states[-1] if x in c["fields"]): why.append("exclude_unset-does-not-emit-exactly-the-set-fields")
            if ser_all != sorted(c["fields"]): why.append("exclude_unset=False-does-not-emit-every-field")
            if ALIASING: why.append("replace-shares-or-changes-the-set-of-the-original"); c["aliasing"] = list(ALIASING)
        if why: c["kind"] = "P"; c["why"] = why; failures.append(c); hist["P:" + why[0][:40]] += 1
        elif not k_ok: c["kind"] = "K"; c["why"] = "model and implementation disagree"; failures.append(c); kbad += 1
    import corners8
    c8f_, c8n_, c8d_, c8h_ = corners8.run_part("C15", seed, budget)
    failures += c8f_; distinct |= c8d_
    for k_, v_ in c8h_.items(): hist[k_] += v_
    for f in c8f_: hist["P:" + f["why"][0].split(":")[0]] += 1
    import corners7
    cf_, cn_, cd_, ch_ = corners7.run_part("C15", seed, budget)
    failures += cf_; distinct |= cd_
    for f in cf_: hist["P:" + f["why"][0][:40]] += 1
    import objmodel
    of_, on_, od_, oh_ = objmodel.run_part("C15", seed, budget)
    failures += of_; distinct |= od_
    for f in of_: hist["P:" + f["why"][0][:40]] += 1
    return {"evaluations": len(meta) + on_, "distinct_nontrivial": len(distinct),
            "rule": "unset-tracking on a generic class deserialized through a specialised alias, against a plain twin; generated with_fields_set dataclasses (2-5 fields: plain / required / default_as_set / init=False / InitVar) x "
                    "sequences of construct-or-deserialize then 0-4 of setattr / set_fields / unset_fields / replace; non-trivial = at least "
                    "one update operation; distinct by (class shape, sequence)",
            "samples": samples, "histograms": dict(hist), "correspondence": {"compared_with_model": len(meta), "disagreements": kbad},
            "failures": failures}


def is_known(kid, case):
    # KF24: apischema.dataclasses.replace adds the names of defaulted InitVars to the set
    if kid == "KF24" and case.get("kind") == "P" and case.get("k_ok") and case["why"] and case["why"][0].startswith("fields_set-after-replace") \
            and len(case["why"]) == 1:
        iv = set(case["desc"]["init_vars"])
        # the only differences, at every step, are init-variable names that appeared at a replace
        return all(set(a) - set(b) <= iv and set(b) <= set(a) for a, b in zip(case["real"], case["spec"]))
    return False


def replay(prop, case, ctx):
    mod = build_module(HEADER + case["src"], "fsreplay")
    states, ser, ser_all = run_real(getattr(mod, case["cls"]), case["ops"])
    spec = spec_states(case["desc"], case["ops"])
    return {"ops": case["ops"], "real": states, "documented": spec, "serialized_keys": ser, "fails": states != spec}
