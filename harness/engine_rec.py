"""concurrency engine (C20) on the real code.
(i) schedule replay: the shared `recursion_cache` dict is replaced by a dict subclass whose reads / writes hand control
    to a deterministic scheduler; two (or three) real threads perform the first `is_recursive` / `deserialize` on fresh
    (mutually) recursive classes under generated schedules; every call must return what it returns sequentially and the
    cache must end as the sequential cache.  A lock introduced by the code (`apischema.recursion._lock`) is replaced by a
    scheduler-aware lock, so that a blocked thread yields instead of dead-locking the scheduler.
(ii) stress: many threads, 1 microsecond switch interval, barriers, fresh types; deserialize / serialize / schema results
    compared with the sequential results.
The interleaving semantics is the Lean `Rec` model (race counterexample for the unsynchronised protocol, mutual exclusion
for the locked one)."""
import time, sys, os, json, random, collections, threading
HERE = os.path.dirname(os.path.abspath(__file__)); sys.path.insert(0, HERE)
from common import build_module, case_hash


class Sched:
    """threads run one at a time; at each yield point the running thread hands control to the thread the schedule names"""
    total_rescues = 0
    def __init__(self, schedule, tl):
        self.schedule = list(schedule); self.pos = 0; self.tl = tl
        self.cv = threading.Condition(); self.current = None; self.alive = set(); self.steps = 0
        self.progress = time.time(); self.rescues = 0
        self.free = Sched.total_rescues >= 3       # (three rescued schedules: every later one runs freely from the start) after a rescue the threads run freely (real pre-emption): the schedule cannot be enforced around a lock it does not know
    def start(self, fns):
        ths = []
        for name, fn in fns.items():
            self.alive.add(name); ths.append(threading.Thread(target=self._run, args=(name, fn), daemon=True))
        self.current = self._next()
        for th in ths: th.start()
        for th in ths: th.join(30)
        return not any(th.is_alive() for th in ths)
    def _next(self, avoid=None):
        while self.pos < len(self.schedule):
            n = self.schedule[self.pos]; self.pos += 1
            if n in self.alive and n != avoid: return n
        rest = sorted(x for x in self.alive if x != avoid)
        return rest[0] if rest else (avoid if avoid in self.alive else None)
    def _wait_turn(self, name):
        # (called with the condition held) wait for the turn; when the running thread makes no progress for a second - it is blocked on a lock of the
        # package that the scheduler does not know about, held by a parked thread - a parked thread goes on
        while self.current != name and not self.free:
            if not self.cv.wait(0.25) and self.current != name and time.time() - self.progress > 0.5:
                self.rescues += 1; Sched.total_rescues += 1; self.free = True; self.cv.notify_all(); break
    def _run(self, name, fn):
        self.tl.name = name
        with self.cv: self._wait_turn(name)
        try: fn()
        finally:
            with self.cv:
                self.alive.discard(name); self.progress = time.time(); self.current = self._next(); self.cv.notify_all()
    def point(self, blocked=False, prefer=None):
        name = getattr(self.tl, "name", None)
        if name is None or self.free: return
        with self.cv:
            self.steps += 1
            # a thread blocked on a lock hands control to the holder of the lock (otherwise two blocked threads could pass
            # the control to each other for ever)
            self.progress = time.time()
            self.current = prefer if (prefer in self.alive) else self._next(avoid=name if blocked else None)
            self.cv.notify_all()
            self._wait_turn(name)


class SchedLock:
    """replacement of a `threading.(R)Lock` of the code under test: a blocked thread yields to the scheduler"""
    def __init__(self, get_sched, tl): self.owner = None; self.count = 0; self.get_sched = get_sched; self.tl = tl
    def acquire(self, *a, **k):
        me = getattr(self.tl, "name", threading.get_ident())
        while self.owner not in (None, me):
            s = self.get_sched()
            if s is None: raise RuntimeError("lock held outside a schedule")
            s.point(blocked=True, prefer=self.owner)
        self.owner = me; self.count += 1; return True
    def release(self):
        self.count -= 1
        if self.count == 0: self.owner = None
    __enter__ = acquire
    def __exit__(self, *a): self.release()


GRAPHS = [
    # (class source, thread calls: expression evaluated in the module namespace)
    (["@dataclass", "class Node{i}:", "    value: int", "    children: List['Node{i}'] = field(default_factory=list)"],
     {"A": "List[Node{i}]", "B": "Node{i}"}),
    (["@dataclass", "class P{i}:", "    q: Optional['Q{i}'] = None", "", "@dataclass", "class Q{i}:", "    p: List['P{i}'] = field(default_factory=list)"],
     {"A": "P{i}", "B": "Q{i}"}),
    (["@dataclass", "class T{i}:", "    left: Optional['T{i}'] = None", "    right: Optional['T{i}'] = None", "    tags: Dict[str, 'T{i}'] = field(default_factory=dict)"],
     {"A": "T{i}", "B": "Dict[str, T{i}]", "C": "Optional[T{i}]"}),
    (["@dataclass", "class Leaf{i}:", "    x: int = 0", "", "@dataclass", "class Box{i}:", "    items: List[Leaf{i}] = field(default_factory=list)"],
     {"A": "Box{i}", "B": "List[Leaf{i}]"}),
]
HEADER = ["from __future__ import annotations", "from dataclasses import dataclass, field", "from typing import *", ""]


def run(prop, seed, budget, ctx):
    import apischema
    from apischema import recursion, deserialize, serialize, cache as cache_mod
    from apischema.conversions.converters import default_deserialization
    from apischema.recursion import is_recursive, DeserializationRecursiveChecker
    from apischema.json_schema import deserialization_schema
    rnd = random.Random(seed); Sched.total_rescues = 0
    tl = threading.local(); state = {"sched": None}
    failures, hist, distinct, samples, evaluations = [], collections.Counter(), set(), [], 0
    stuck = False           # a schedule left threads parked (a deadlock): later modes are skipped

    class YDict(dict):
        def __contains__(self, k):
            if state["sched"]: state["sched"].point()
            return super().__contains__(k)
        def __setitem__(self, k, v):
            if state["sched"]: state["sched"].point()
            super().__setitem__(k, v)
        def __getitem__(self, k):
            if state["sched"]: state["sched"].point()
            return super().__getitem__(k)
        def setdefault(self, k, v):
            if state["sched"]: state["sched"].point()
            return super().setdefault(k, v)

    # the sequential analysis on generated class graphs (K: the memo = the Lean model's; P: every answer exact, cold first uses return)
    import rec_graph
    gf_, gn_, gd_, gh_ = rec_graph.run_part(seed, budget)
    failures += gf_; distinct |= gd_; evaluations += gn_
    for k_, v_ in gh_.items(): hist[k_] += v_
    for f in gf_: hist["P:" + f["why"][0].split(":")[0]] += 1

    caches = {}
    orig_rc = recursion.recursion_cache
    def _rc(cls, *rest):
        # `recursion_cache` is an lru_cache'd function returning a fresh dict: a hit returns the stored dict; on a miss the
        # function body runs (a yield point: another thread may miss as well), the first result is stored, and every caller
        # gets the dict *it* computed - the loser of a concurrent miss holds a private dict
        # (`rest`: the further arguments of the memo - the default conversion - are the same in every call of this mode)
        if cls in caches: return caches[cls]
        if state["sched"]: state["sched"].point()
        d = YDict()
        if cls not in caches: caches[cls] = d
        return d
    recursion.recursion_cache = _rc
    orig_lock = getattr(recursion, "_lock", None)
    if orig_lock is not None: recursion._lock = SchedLock(lambda: state["sched"], tl)
    try:
        n = 60 * budget
        src = list(HEADER); plans = []
        for i in range(n):
            cls_src, calls = GRAPHS[i % len(GRAPHS)]
            src += [l.replace("{i}", str(i)) for l in cls_src] + [""]
            plans.append({k: v.replace("{i}", str(i)) for k, v in calls.items()})
        mod = build_module(src, f"rec{seed}"); ns = dict(vars(mod))
        for i, plan in enumerate(plans):
            types = {k: eval(v, ns) for k, v in plan.items()}
            # sequential reference on these very types, then forget it
            caches.clear(); is_recursive.cache_clear()
            ref = {k: is_recursive(tp, None, default_deserialization, DeserializationRecursiveChecker) for k, tp in types.items()}
            ref_cache = {str(k[0]): v for k, v in caches.get(DeserializationRecursiveChecker, {}).items()}
            for trial in range(4):
                schedule = [rnd.choice(sorted(plan)) for _ in range(80)]
                caches.clear(); is_recursive.cache_clear()
                res = {}
                def mk(name, tp):
                    def fn():
                        try: res[name] = is_recursive(tp, None, default_deserialization, DeserializationRecursiveChecker)
                        except BaseException as e: res[name] = "EXC:" + type(e).__name__ + ":" + str(e)[:60]
                    return fn
                sched = Sched(schedule, tl); state["sched"] = sched
                finished = sched.start({k: mk(k, tp) for k, tp in types.items()})
                state["sched"] = None
                if orig_lock is not None: recursion._lock = SchedLock(lambda: state["sched"], tl)
                evaluations += 1; hist["yield-points:%d" % min(sched.steps // 10 * 10, 60)] += 1
                got_cache = {str(k[0]): v for k, v in caches.get(DeserializationRecursiveChecker, {}).items()}
                distinct.add(case_hash(i % len(GRAPHS), "".join(schedule[:30])))
                bad_cache = {k: (got_cache.get(k), v) for k, v in ref_cache.items() if k in got_cache and got_cache[k] != v}
                if not finished or res != ref or bad_cache:
                    failures.append({"kind": "P", "k_ok": True, "mode": "schedule", "classes": [l.replace("{i}", str(i)) for l in GRAPHS[i % len(GRAPHS)][0]],
                                     "calls": plan, "schedule": "".join(schedule), "results": {k: repr(v) for k, v in res.items()},
                                     "sequential": {k: repr(v) for k, v in ref.items()}, "cache_differences(got,sequential)": {k: list(v) for k, v in bad_cache.items()},
                                     "deadlock": not finished,
                                     "why": ["concurrent-first-use-differs-from-sequential" if finished else "threads-did-not-finish"]})
                elif len(samples) < 3:
                    samples.append({"calls": plan, "schedule": "".join(schedule[:24]) + "...", "results": {k: repr(v) for k, v in res.items()}, "yield_points": sched.steps})
                if sched.rescues: hist["schedules-with-a-thread-blocked-on-an-unknown-lock"] += 1
                if not finished: stuck = True; break
            if stuck: break
    finally:
        recursion.recursion_cache = orig_rc
        if orig_lock is not None: recursion._lock = orig_lock
        caches.clear(); is_recursive.cache_clear(); cache_mod.reset()
    # (i-b) lazy initialisation of the method of a recursive reference (RecMethod): the top-level method is compiled first,
    # then the threads deserialize, under generated schedules, the first data that reach the recursive reference; yield points
    # are injected through a user aliaser, which the lazy compilation calls
    def yal(name):
        if state["sched"]: state["sched"].point()
        return name
    lazy_src = list(HEADER) + ["from apischema import schema", ""]
    nl = 24 * budget
    for i in range(nl):
        lazy_src += ["@dataclass", f"class LN{i}:", "    value: int",
                     f"    child: Optional['LN{i}'] = field(default=None, metadata=schema(min_props=1))", ""]
    lmod = build_module(lazy_src, f"reclazy{seed}"); lns = dict(vars(lmod))
    for i in range(nl):
        if stuck: break
        LN = lns[f"LN{i}"]
        datum = {"value": 1, "child": {"value": 2, "child": {"value": 3}}}
        try: deserialize(LN, {"value": 0}, aliaser=yal)                      # compiles and caches the top-level method only
        except Exception as e: hist["lazy-precompile-exc:" + type(e).__name__] += 1; continue
        res = {}
        def mk(name):
            def fn():
                try: res[name] = repr(deserialize(LN, datum, aliaser=yal))
                except BaseException as e: res[name] = "EXC:" + type(e).__name__ + ":" + str(e)[:60]
            return fn
        schedule = [rnd.choice("AB") for _ in range(60)]
        sched = Sched(schedule, tl); state["sched"] = sched
        finished = sched.start({"A": mk("A"), "B": mk("B")})
        state["sched"] = None
        evaluations += 1; distinct.add(("lazy", i, "".join(schedule[:20])))
        if not finished:
            failures.append({"kind": "P", "k_ok": True, "mode": "lazy-reference", "class": lazy_src[4 + 5 * i: 8 + 5 * i], "schedule": "".join(schedule),
                             "results": res, "deadlock": True, "yield_points": sched.steps, "why": ["threads-did-not-finish"]})
            stuck = True; break
        want = repr(deserialize(LN, datum, aliaser=yal))
        if not finished or res != {"A": want, "B": want}:
            failures.append({"kind": "P", "k_ok": True, "mode": "lazy-reference", "class": lazy_src[4 + 5 * i: 8 + 5 * i], "schedule": "".join(schedule),
                             "results": res, "sequential": want, "deadlock": not finished, "yield_points": sched.steps,
                             "why": ["concurrent-first-use-differs-from-sequential" if finished else "threads-did-not-finish"]})
        hist["lazy-yield-points:%d" % min(sched.steps, 9)] += 1
        if not finished: stuck = True; break
    # (i-c) JSON schema generation by two or three threads under generated schedules: yield points are injected through a
    # user default_conversion, which every visitor calls for every visited type; each result must be the sequential one
    from apischema.json_schema import serialization_schema
    from apischema.conversions.converters import default_serialization
    def ydc(tp):
        if state["sched"]: state["sched"].point()
        return default_deserialization(tp)
    def yds(tp):
        if state["sched"]: state["sched"].point()
        return default_serialization(tp)
    sch_src = list(HEADER) + ["from apischema import deserializer, serializer", ""]
    ns_ = 16 * budget
    for i in range(ns_):
        sch_src += ["@dataclass", f"class SItem{i}:", "    name: str", "", "@dataclass", f"class SBar{i}:", "    x: int", "",
                    f"class SFoo{i}:", "    def __init__(self, x: int):", "        self.x = x", "",
                    "@deserializer", f"def sfoo_from_bar{i}(bar: SBar{i}) -> SFoo{i}:", f"    return SFoo{i}(bar.x)", "",
                    "@serializer", f"def sfoo_to_bar{i}(foo: SFoo{i}) -> SBar{i}:", f"    return SBar{i}(foo.x)", "",
                    "@dataclass", f"class SHold{i}:", f"    foo: SFoo{i}", f"    items: List[SItem{i}] = field(default_factory=list)", f"    again: Optional[SFoo{i}] = None", ""]
    smod = build_module(sch_src, f"recsch{seed}"); sns = dict(vars(smod))
    for i in range(ns_):
        if stuck: break
        Item, Foo, Hold = sns[f"SItem{i}"], sns[f"SFoo{i}"], sns[f"SHold{i}"]
        jobs = {"A": lambda: deserialization_schema(List_(Item), default_conversion=ydc), "B": lambda: deserialization_schema(Foo, default_conversion=ydc),
                "C": lambda: serialization_schema(Hold, default_conversion=yds)}
        if i % 2: jobs["C"] = lambda: deserialization_schema(Hold, default_conversion=ydc, all_refs=True)
        if i % 4 == 3:
            # four threads walking one class at the same time (more walkers than the depth a recursion guard tolerates)
            jobs = {"A": lambda: deserialization_schema(Hold, default_conversion=ydc), "B": lambda: serialization_schema(Hold, default_conversion=yds),
                    "C": lambda: deserialization_schema(Hold, default_conversion=ydc, all_refs=True), "D": lambda: deserialization_schema(Hold, default_conversion=ydc)}
        want = {k: json.dumps(fn(), sort_keys=True) for k, fn in jobs.items()}
        res = {}
        def mk(name):
            def fn():
                try: res[name] = json.dumps(jobs[name](), sort_keys=True)
                except BaseException as e: res[name] = "EXC:" + type(e).__name__ + ":" + str(e)[:60]
            return fn
        schedule = [rnd.choice(sorted(jobs)) for _ in range(160)]
        sched = Sched(schedule, tl); state["sched"] = sched
        finished = sched.start({k: mk(k) for k in jobs})
        state["sched"] = None
        evaluations += 1; distinct.add(("schema", i, "".join(schedule[:20])))
        if not finished or res != want:
            failures.append({"kind": "P", "k_ok": True, "mode": "schema-generation", "classes": sch_src[2 + 24 * i: 2 + 24 * (i + 1)], "schedule": "".join(schedule),
                             "results": res, "sequential": want, "deadlock": not finished, "yield_points": sched.steps,
                             "why": ["concurrent-first-use-differs-from-sequential" if finished else "threads-did-not-finish"]})
        hist["schema-yield-points:%d" % min(sched.steps // 10 * 10, 90)] += 1
        if not finished: stuck = True; break
    # (i-d) lazily registered conversions (serializer(lazy=...) / deserializer(lazy=...)): the user callable is slow (yield points inside);
    # threads make the first use of the class - serialize, deserialize, schema - while it is being evaluated; twin classes registered
    # the same way and used sequentially give the expected results
    lz_src = list(HEADER) + ["from apischema import deserializer, serializer", "from apischema.conversions import Conversion", "POINT = [None]", ""]
    nz = 16 * budget
    for i in range(nz):
        for pre in ("LZ", "TW"):
            lz_src += [f"class {pre}M{i}:", "    def __init__(self, cents: int):", "        self.cents = cents",
                       "    def __eq__(self, o): return type(o) is type(self) and o.cents == self.cents", "    def __repr__(self): return f'M({self.cents})'", "",
                       f"def {pre}_to_str{i}(m: {pre}M{i}) -> str:", "    return f'{m.cents}c'", "",
                       f"def {pre}_from_str{i}(s: str) -> {pre}M{i}:", f"    return {pre}M{i}(int(s[:-1]))", "",
                       f"def {pre}_lazy_ser{i}():"] + (["    for _ in range(3): POINT[0] and POINT[0]()"] if pre == "LZ" else []) + [f"    return Conversion({pre}_to_str{i}, source={pre}M{i}, target=str)", "",
                       f"def {pre}_lazy_des{i}():"] + (["    for _ in range(3): POINT[0] and POINT[0]()"] if pre == "LZ" else []) + [f"    return Conversion({pre}_from_str{i}, source=str, target={pre}M{i})", "",
                       f"serializer(lazy={pre}_lazy_ser{i}, source={pre}M{i})", f"deserializer(lazy={pre}_lazy_des{i}, target={pre}M{i})", "",
                       "@dataclass", f"class {pre}W{i}:", f"    m: {pre}M{i}", f"    ms: List[{pre}M{i}] = field(default_factory=list)", ""]
    zmod = build_module(lz_src, f"reclz{seed}"); zns = dict(vars(zmod))
    def zpoint():
        if state["sched"]: state["sched"].point()
    zmod.POINT[0] = zpoint
    # (the recursion analysis runs under the package's lock and evaluates lazy conversions: a thread blocked on it yields to the scheduler)
    if orig_lock is not None: recursion._lock = SchedLock(lambda: state["sched"], tl)
    for i in range(nz):
        if stuck: break
        def jobs_for(pre):
            M, W = zns[f"{pre}M{i}"], zns[f"{pre}W{i}"]
            return {"A": lambda: repr(serialize(M, M(1250))), "B": lambda: json.dumps(serialization_schema(M), sort_keys=True),
                    "C": lambda: repr(serialize(W, W(M(5), [M(6)]))), "D": lambda: repr(deserialize(W, {"m": "7c", "ms": ["8c"]})),
                    "E": lambda: json.dumps(deserialization_schema(List_(M)), sort_keys=True)}
        names = rnd.sample("ABCDE", rnd.choice([2, 3]))
        want = {k: fn().replace("TW", "LZ") for k, fn in jobs_for("TW").items() if k in names}
        jobs = {k: fn for k, fn in jobs_for("LZ").items() if k in names}
        res = {}
        def mk(name):
            def fn():
                try: res[name] = jobs[name]()
                except BaseException as e: res[name] = "EXC:" + type(e).__name__ + ":" + str(e)[:60]
            return fn
        schedule = [rnd.choice(sorted(jobs)) for _ in range(60)]
        sched = Sched(schedule, tl); state["sched"] = sched
        finished = sched.start({k: mk(k) for k in jobs})
        state["sched"] = None
        evaluations += 1; distinct.add(("lazy-conversion", i, "".join(names), "".join(schedule[:20])))
        after = {}
        if not finished:
            # parked threads may hold locks of the package: nothing more can be run safely in this process
            failures.append({"kind": "P", "k_ok": True, "mode": "lazy-conversion", "jobs": names, "schedule": "".join(schedule), "results": res, "sequential": want,
                             "deadlock": True, "yield_points": sched.steps, "why": ["threads-did-not-finish"]})
            stuck = True; break
        for k, fn in jobs.items():
            try: after[k] = fn()
            except BaseException as e: after[k] = "EXC:" + type(e).__name__ + ":" + str(e)[:60]
        if not finished or res != want or after != want:
            failures.append({"kind": "P", "k_ok": True, "mode": "lazy-conversion", "jobs": names, "schedule": "".join(schedule), "results": res, "sequential_afterwards": after,
                             "sequential": want, "deadlock": not finished, "yield_points": sched.steps,
                             "why": ["concurrent-first-use-differs-from-sequential" if finished else "threads-did-not-finish"]})
        hist["lazy-conversion-yield-points:%d" % min(sched.steps, 9)] += 1
    if orig_lock is not None: recursion._lock = orig_lock
    # (ii) stress on the unpatched package: real pre-emption
    old = sys.getswitchinterval(); sys.setswitchinterval(1e-6)
    try:
        rounds = 0 if stuck else 12 * budget
        src = list(HEADER)
        for i in range(rounds):
            j = 10_000 + i
            src += [l.replace("{i}", str(j)) for l in GRAPHS[0][0]] + [""] + [l.replace("{i}", str(j)) for l in GRAPHS[1][0]] + [""]
        mod = build_module(src, f"recs{seed}"); ns = dict(vars(mod))
        for i in range(rounds):
            j = 10_000 + i
            Node, P = ns[f"Node{j}"], ns[f"P{j}"]
            datum = {"value": 1, "children": [{"value": 2, "children": [{"value": 3}]}]}
            jobs = [lambda: repr(deserialize(Node, datum)), lambda: repr(deserialize(List_(Node), [datum])), lambda: json.dumps(deserialization_schema(Node), sort_keys=True),
                    lambda: repr(deserialize(P, {"q": {"p": [{"q": None}]}})), lambda: json.dumps(serialize(Node, deserialize(Node, datum)), sort_keys=True)]
            nthreads = 8; barrier = threading.Barrier(nthreads); out = [None] * nthreads
            def work(k):
                barrier.wait()
                try: out[k] = jobs[k % len(jobs)]()
                except BaseException as e: out[k] = "EXC:" + type(e).__name__ + ":" + str(e)[:80]
            ths = [threading.Thread(target=work, args=(k,)) for k in range(nthreads)]
            for th in ths: th.start()
            for th in ths: th.join(60)
            evaluations += 1
            def guarded(fn):
                # (a corrupted recursion verdict makes every later use raise RecursionError: an outcome, not an engine failure)
                try: return fn()
                except BaseException as e: return "EXC:" + type(e).__name__ + ":" + str(e)[:80]
            seq = [guarded(jobs[k % len(jobs)]) for k in range(nthreads)]          # afterwards, sequentially (caches warm and, if correct, equal)
            cache_mod.reset()
            cold = [guarded(jobs[k % len(jobs)]) for k in range(nthreads)]         # and from cold caches
            if out != seq or seq != cold:
                failures.append({"kind": "P", "k_ok": True, "mode": "stress", "round": i, "concurrent": out, "sequential_after": seq, "sequential_cold": cold,
                                 "why": ["concurrent-first-use-differs-from-sequential"]})
            hist["stress-rounds"] += 1
    finally:
        sys.setswitchinterval(old)
    return {"evaluations": evaluations, "distinct_nontrivial": len(distinct),
            "rule": "sequential analysis: 60 x budget generated graphs of 2-7 dataclasses (fields through Optional / List / Dict), a history of 1-4 is_recursive calls on one memo: "
                    "the memo = the memo of the Lean model (K), every answer True iff the type reaches itself (P), cold deserialize / serialize / schema of every class return (P); "
                    "schedule replay: 4 generated schedules (80 choices) x fresh instances of 4 class graphs (self-recursive through a list, mutually recursive, "
                    "recursive through Optional and Dict with three threads, non-recursive), yield points at every read / write of the shared recursion cache; "
                    "schema generation (deserialization / serialization schemas of classes with registered conversions, three threads) under schedules with yield points in a user default_conversion; "
                    "stress: 8 threads behind a barrier, 1 us switch interval, first deserialize / serialize / schema on fresh recursive classes; "
                    "non-trivial = every schedule (two or three threads race on first use); distinct by (graph shape, schedule prefix)",
            "samples": samples, "histograms": dict(hist), "failures": failures}


def List_(t):
    from typing import List
    return List[t]


def is_known(kid, case): return False


def replay(prop, case, ctx):
    return {"fails": True, "note": "re-run the check with the same VERIF_SEED; the case records the classes, the calls and the schedule", "case": case}
