"""Deterministic scenarios added after the seventh round of seeded changes (typing-introspection / object-model corners), one function per property.
Each compares the real code with an expectation that is either computed from plain Python (attribute values, declared order) or stated by the documentation
in so many words; none restates the implementation."""
import collections, json
from common import build_module, case_hash

SRC = '''
from dataclasses import dataclass, field, InitVar
from typing import *
from apischema import alias, schema, serialized, validator, ValidationError, type_name, dependent_required
from apischema.objects import get_alias, get_field
from apischema.utils import to_camel_case

@alias(to_camel_case)
@dataclass
class Booking{i}:
    first_night: int
    last_night: int
    guests: int = 1
    @validator
    def nights(self):
        if self.first_night > self.last_night:
            yield get_alias(self).last_night, "before the first night"

@dataclass
class Window{i}:
    value: int
    low: InitVar[int] = 0
    high: InitVar[int] = 10
    other: int = 0
    @validator
    def in_range(self, low, high):
        if not low <= self.value <= high:
            yield "out of range"
    def __post_init__(self, low, high): pass

class Celsius{i}:
    def __init__(self, d): self.d = d
    def __eq__(self, o): return type(o) is type(self) and o.d == self.d
    def __repr__(self): return "Celsius(%r)" % (self.d,)
def from_int{i}(d: int) -> Celsius{i}: return Celsius{i}(d)
def to_int{i}(c: Celsius{i}) -> int: return c.d

T = TypeVar("T")
@dataclass
class Box{i}(Generic[T]):
    content: T
type_name("IntsBox{i}")(Box{i}[List[int]])

@dataclass
class Contact{i}:
    email: Optional[str] = field(default=None)
    phone: Optional[str] = field(default=None)
    fax: Optional[str] = field(default=None)
    deps = dependent_required([email, phone], [email, phone, fax])

@dataclass
class Pay{i}:
    credit_card: Optional[str] = field(default=None)
    billing_address: Optional[str] = field(default=None)
    vat: Optional[str] = field(default=None)
    deps = dependent_required({credit_card: [billing_address]})
@dataclass
class PayEU{i}(Pay{i}):
    note: Optional[str] = None
    deps2 = dependent_required({"credit_card": ["billing_address", "vat"]})

@dataclass
class Kw{i}:
    type: int = 0
    const: int = 1
    event_id: int = 2
    prefixItems: int = 3
'''


def to_snake(s):
    import re
    return re.sub(r"([A-Z])", lambda m: "_" + m.group(1).lower(), s)


def _out(fn):
    from apischema import ValidationError
    try: return ("ok", fn())
    except ValidationError as e: return ("invalid", e.errors)
    except Exception as e: return ("crash", type(e).__name__ + ":" + str(e)[:100])


def _fail(failures, part, why, **kw):
    failures.append(dict({"kind": "P", "k_ok": None, "part": part, "features": [part], "why": [why]}, **{k: (v if isinstance(v, (str, int, bool, list, dict, type(None))) else repr(v)[:300]) for k, v in kw.items()}))


def run_part(prop, seed, budget):
    from apischema import deserialize, serialize
    from apischema.json_schema import deserialization_schema, serialization_schema, definitions_schema, JsonSchemaVersion
    from typing import List
    failures, hist, distinct, n = [], collections.Counter(), set(), 0
    i = f"{seed}"
    ns = vars(build_module(SRC.replace("{i}", i).splitlines(), f"corners7_{seed}"))
    if prop in ("C10", "C11", "C02"):
        # a validator that names its error with get_alias(self), on the object (all fields valid) and on the mock (another field invalid), under a dynamic aliaser too
        B = ns[f"Booking{i}"]
        for al_name, al in (("none", None), ("pre", lambda s: "x_" + s)):
            kw = {} if al is None else {"aliaser": al}; A = al or (lambda s: s)
            for path, d, want in (("object", {A("firstNight"): 5, A("lastNight"): 3}, [[A("lastNight")]]),
                                  ("mock", {A("firstNight"): 5, A("lastNight"): 3, A("guests"): "two"}, [[A("guests")], [A("lastNight")]])):
                n += 1; distinct.add(case_hash("c7-getalias", al_name, path)); hist["get_alias-in-validator:" + path] += 1
                r = _out(lambda: deserialize(B, d, **kw))
                got = sorted(e["loc"] for e in r[1]) if r[0] == "invalid" else r
                if got != sorted(want): _fail(failures, "validator-naming-its-field-with-get_alias", "crash:" + r[1].split(":")[0] if r[0] == "crash" else "validator-error-not-located-at-the-alias", datum=d, path=path, got=got, expected=want)
    if prop in ("C01", "C10"):
        # validators given for a position (`validators=` argument, `validators(...)` in field / Annotated metadata) reject on object types as they do on primitives
        from apischema import ValidationError as _VE
        vsrc = ["from dataclasses import dataclass, field", "from typing import *", "from apischema import ValidationError, validator", "from apischema.metadata import validators", "",
                "def neg(o):", "    if o.a < 0: raise ValidationError('negative a')", "",
                "@dataclass", f"class In{i}:", "    a: int = 0", "", f"class InNT{i}(NamedTuple):", "    a: int = 0", "", f"class InTD{i}(TypedDict):", "    a: int", "",
                "@dataclass", f"class Out{i}:", f"    inner: In{i} = field(default_factory=In{i}, metadata=validators(neg))", f"    m: Annotated[In{i}, validators(neg)] = field(default_factory=In{i})", "    n: int = 0", ""]
        vg = vars(build_module(vsrc, f"corners7val_{seed}"))
        def never(_): raise _VE("never valid")
        for tp_src, d in (("int", 1), (f"In{i}", {"a": 1}), (f"InNT{i}", {"a": 1}), (f"InTD{i}", {"a": 1}), (f"List[In{i}]", [{"a": 1}]), (f"Optional[In{i}]", {"a": 1})):
            n += 1; distinct.add(case_hash("c7-extval", tp_src)); hist["validators-given-for-a-position"] += 1
            r = _out(lambda: deserialize(eval(tp_src, vg), d, validators=[never]))
            if r != ("invalid", [{"loc": [], "err": "never valid"}]): _fail(failures, "position-validators", "validator-given-to-deserialize-not-run", type=tp_src, datum=d, got=r)
        Out = vg[f"Out{i}"]
        for d, want in (({"inner": {"a": -1}, "m": {"a": -2}}, ("invalid", [["inner"], ["m"]])), ({"inner": {"a": 1}, "m": {"a": 2}}, ("ok", None)), ({"inner": {"a": -1}, "n": "x"}, ("invalid", [["inner"], ["n"]]))):
            n += 1; distinct.add(case_hash("c7-fieldval", repr(d))); hist["validators-given-for-a-position"] += 1
            r = _out(lambda: deserialize(Out, d))
            got = (r[0], sorted(e["loc"] for e in r[1]) if r[0] == "invalid" else None)
            if got != want: _fail(failures, "position-validators", "field-level-validator-on-an-object-typed-field-not-run", datum=d, got=r, expected=list(want))
    if prop in ("C03", "C17"):
        # examples (lists, possibly of dicts) in a schema used inside Annotated: the annotated type is a key of the caches
        xsrc = ["from dataclasses import dataclass, field", "from typing import *", "from apischema import schema", "from apischema.metadata import properties", "", "@dataclass", f"class Xm{i}:",
                "    x: Annotated[int, schema(examples=[1, 2], description='d')] = 0", "    m: Annotated[Dict[str, int], schema(examples=[{'a': 1}])] = field(default_factory=dict)",
                "    l: List[Annotated[str, schema(examples=['s'])]] = field(default_factory=list)",
                "    extra: Annotated[Dict[str, int], properties] = field(default_factory=dict)", ""]
        Xm = vars(build_module(xsrc, f"corners7ex2_{seed}"))[f"Xm{i}"]
        for nm, fn_ in (("deserialize", lambda: deserialize(Xm, {"x": 1, "m": {"k": 2}, "l": ["a"], "zz": 3})), ("serialize", lambda: serialize(Xm, Xm(1, {"k": 2}, ["a"], {"zz": 3}))),
                        ("deserialization_schema", lambda: deserialization_schema(Xm)), ("serialization_schema", lambda: serialization_schema(Xm))):
            n += 1; distinct.add(case_hash("c7-examples-annotated", nm)); hist["examples-inside-annotated"] += 1
            r = _out(fn_)
            if r[0] != "ok": _fail(failures, "examples-inside-annotated", "crash:" + r[1].split(":")[0] if r[0] == "crash" else "rejected", which=nm, got=r)
            elif nm == "deserialization_schema" and prop == "C17":
                import jsonschema as _js
                try: _js.Draft202012Validator.check_schema(r[1])
                except Exception as e: _fail(failures, "examples-inside-annotated", "schema-invalid-against-its-meta-schema", real=r[1], error=str(e)[:200])
                if r[1]["properties"]["x"].get("examples") != [1, 2]: _fail(failures, "examples-inside-annotated", "examples-lost", real=r[1])
    if prop in ("C03", "C10"):
        # a validator taking init variables runs iff they were deserialized without error (and is never called without them)
        W = ns[f"Window{i}"]
        for d, want in (({"value": 5, "low": 0, "high": "ten"}, ("invalid", [["high"]])), ({"value": 50}, ("invalid", [[]])), ({"value": 5, "high": "x", "low": "y"}, ("invalid", [["high"], ["low"]])),
                        ({"value": 5, "low": 1, "high": 6}, ("ok", None)), ({"value": 7, "low": 1, "high": 6}, ("invalid", [[]])), ({"value": 2, "other": "o", "high": 3}, ("invalid", [["other"]])),
                        ({"value": 2, "other": "o", "high": 1}, ("invalid", [[], ["other"]]))):
            n += 1; distinct.add(case_hash("c7-initvar", repr(d))); hist["validator-with-init-variables"] += 1
            r = _out(lambda: deserialize(W, d))
            got = (r[0], sorted(e["loc"] for e in r[1]) if r[0] == "invalid" else None)
            if r[0] == "crash": _fail(failures, "validator-with-init-variables", "crash:" + r[1].split(":")[0], datum=d, got=r[1])
            elif prop == "C10" and got != (want[0], sorted(want[1]) if want[1] else None): _fail(failures, "validator-with-init-variables", "validator-not-gated-by-its-init-variables", datum=d, got=list(got), expected=list(want))
    if prop in ("C13", "C09"):
        # a subclass of a discriminated class defined after the first use is an alternative like the others, in every view
        lsrc = ["from dataclasses import dataclass", "from apischema import discriminator", "", "@discriminator('type')", "@dataclass", f"class LB{i}:", "    base: int = 0", "",
                "@dataclass", f"class LA{i}(LB{i}):", "    a: int = 1", "", "@dataclass", f"class LA2{i}(LB{i}):", "    a2: int = 2", ""]
        lg = vars(build_module(lsrc, f"corners7late_{seed}")); LB = lg[f"LB{i}"]
        first = (_out(lambda: deserialize(LB, {"type": f"LA{i}"})), _out(lambda: serialize(LB, lg[f"LA2{i}"]())), _out(lambda: sorted(deserialization_schema(LB)["$defs"])))
        exec(f"@dataclass\nclass LC{i}(LB{i}):\n    c: int = 3\n", lg)
        LC = lg[f"LC{i}"]
        n += 1; distinct.add(case_hash("c7-late-subclass")); hist["subclass-defined-after-first-use"] += 1
        got = (_out(lambda: deserialize(LB, {"type": f"LC{i}", "c": 5})), _out(lambda: serialize(LB, LC(c=4))), _out(lambda: f"LC{i}" in deserialization_schema(LB)["$defs"]))
        want = (("ok", LC(c=5)), ("ok", {"base": 0, "c": 4, "type": f"LC{i}"}), ("ok", True))
        if got != want: _fail(failures, "late-subclass", "subclass-defined-after-first-use-not-seen", first_use=first, got=got, expected=want)
    if prop == "C12":
        # PEP 604 spellings: a dynamic conversion reaches through `X | None` / `X | int` as it does through Optional / Union
        C = ns[f"Celsius{i}"]; f = ns[f"from_int{i}"]; t = ns[f"to_int{i}"]
        cases = [(lambda: deserialize(list[C | None], [3, None], conversion=f), ("ok", [C(3), None])), (lambda: deserialize(dict[str, C | None], {"a": 1}, conversion=f), ("ok", {"a": C(1)})),
                 (lambda: deserialize(C | str, 4, conversion=f), ("ok", C(4))), (lambda: serialize(list[C | None], [C(3), None], conversion=t), ("ok", [3, None])),
                 (lambda: serialize(dict[str, C | str], {"a": C(1), "b": "s"}, conversion=t), ("ok", {"a": 1, "b": "s"})),
                 (lambda: deserialization_schema(list[C | None], conversion=f)["items"], ("ok", {"type": ["integer", "null"]}))]
        for k, (fn, want) in enumerate(cases):
            n += 1; distinct.add(case_hash("c7-pep604", k)); hist["pep604-unions-under-a-dynamic-conversion"] += 1
            r = _out(fn)
            if r != want: _fail(failures, "pep604-unions", "dynamic-conversion-does-not-reach-through-a-pep604-union", case=k, got=r, expected=want)
    if prop == "C08":
        # settings.deserialization.override_dataclass_constructors on classes it cannot build field by field: same values with the setting on and off
        from apischema import settings, deserialization_method
        src = ["from dataclasses import dataclass, field", "", "@dataclass", f"class SlA{i}:", "    __slots__ = ('x',)", "    x: int", "", "@dataclass", f"class SlB{i}(SlA{i}):", "    y: int = 0", "",
               "@dataclass(init=False)", f"class Hw{i}:", "    a: int", "    b: int", "    def __init__(self, a, b): self.a = a * 2; self.b = b", "",
               "@dataclass", f"class Qf{i}:", "    x: int = 0", "", f"class Qp{i}(Qf{i}):", "    @property", "    def x(self): return self._x", "    @x.setter", "    def x(self, v): self._x = v + 100", "",
               "@dataclass", f"class Pb{i}:", "    n: str = ''", "    def __post_init__(self): self.n = self.n.strip()", "", "@dataclass", f"class Pc{i}(Pb{i}):", "    r: int = 0", ""]
        g = vars(build_module(src, f"corners7oc_{seed}"))
        cases = [(f"SlB{i}", {"x": 1}, ["x", "y"]), (f"Hw{i}", {"a": 1, "b": 2}, ["a", "b"]), (f"Qp{i}", {"x": 1}, ["x"]), (f"Pc{i}", {"n": "  a ", "r": 1}, ["n", "r"])]
        prev = settings.deserialization.override_dataclass_constructors
        try:
            for cname, d, attrs in cases:
                res = {}
                for ov in (False, True):
                    settings.deserialization.override_dataclass_constructors = ov
                    res[ov] = _out(lambda: (lambda v: {a: getattr(v, a) for a in attrs})(deserialize(g[cname], dict(d))))
                    res[(ov, "method")] = _out(lambda: (lambda v: {a: getattr(v, a) for a in attrs})(deserialization_method(g[cname])(dict(d))))
                n += 1; distinct.add(case_hash("c7-override", cname)); hist["override-constructors-on-corner-classes"] += 1
                if len({repr(v) for v in res.values()}) != 1: _fail(failures, "override-constructors", "result-depends-on-override_dataclass_constructors", cls=cname, datum=d, results={str(k): repr(v) for k, v in res.items()})
        finally:
            settings.deserialization.override_dataclass_constructors = prev
    if prop == "C12":
        # object_serialization of a generic class: the view serializes the selected fields and properties of a specialised value
        from apischema.objects import object_serialization
        src = ["from dataclasses import dataclass", "from typing import *", "T = TypeVar('T')", "", "@dataclass", f"class GV{i}(Generic[T]):", "    a: T", "    b: int = 0",
               "    @property", "    def twice(self) -> List[T]: return [self.a, self.a]", ""]
        GV = vars(build_module(src, f"corners7os_{seed}"))[f"GV{i}"]
        n += 1; distinct.add(case_hash("c7-objser")); hist["object_serialization-of-a-generic-class"] += 1
        r = _out(lambda: (lambda view: [serialize(GV[int], GV(1, 2), conversion=view), serialize(GV, GV("s"), conversion=view)])(object_serialization(GV, ["a", GV.twice])))
        if r != ("ok", [{"a": 1, "twice": [1, 1]}, {"a": "s", "twice": ["s", "s"]}]): _fail(failures, "object-serialization-generic", "crash:" + r[1].split(":")[0] if r[0] == "crash" else "view-differs-from-the-selected-members", got=r)
    if prop == "C17":
        # a name registered for a specialisation of a user generic is the name of every spelling of that specialisation
        Bx = ns[f"Box{i}"]
        for spelled in (f"Box{i}[List[int]]", f"Box{i}[list[int]]"):
            tp = eval(spelled, ns)
            n += 1; distinct.add(case_hash("c7-typename", spelled)); hist["named-specialisation-spellings"] += 1
            r = _out(lambda: deserialization_schema(List[tp], all_refs=True))
            if r[0] != "ok" or f"IntsBox{i}" not in r[1].get("$defs", {}) or r[1].get("items") != {"$ref": f"#/$defs/IntsBox{i}"}:
                _fail(failures, "named-specialisation", "named-type-not-extracted-under-its-name", spelled=spelled, got=r)
            r2 = _out(lambda: definitions_schema(deserialization=[tp], all_refs=True))
            if r2[0] != "ok" or list(r2[1]) != [f"IntsBox{i}"]: _fail(failures, "named-specialisation", "definitions_schema-differs-from-the-inline-defs", spelled=spelled, got=r2)
        # a named type under a mapping-typed aggregate field is referenced like anywhere else; a class recursive through such a field terminates
        asrc = ["from dataclasses import dataclass, field", "from typing import *", "from apischema.metadata import properties", "",
                "@dataclass", f"class RecP{i}:", f"    children: Dict[str, 'RecP{i}'] = field(default_factory=dict, metadata=properties)", "",
                "@dataclass", f"class NamedV{i}:", "    x: int = 0", "", "@dataclass", f"class HoldV{i}:", f"    b: NamedV{i}",
                f"    extra: Dict[str, NamedV{i}] = field(default_factory=dict, metadata=properties)", ""]
        ag = vars(build_module(asrc, f"corners7agg_{seed}"))
        for fn_ in (deserialization_schema, serialization_schema):
            n += 2; distinct.add(case_hash("c7-aggref", fn_.__name__)); hist["named-types-under-aggregate-mappings"] += 2
            r = _out(lambda: fn_(ag[f"RecP{i}"]))
            if r[0] != "ok" or r[1].get("$defs", {}).get(f"RecP{i}", {}).get("additionalProperties") != {"$ref": f"#/$defs/RecP{i}"}:
                _fail(failures, "aggregate-mapping-values", "crash:" + r[1].split(":")[0] if r[0] == "crash" else "recursive-aggregate-not-expressed-through-a-reference", which=fn_.__name__, got=r)
            r = _out(lambda: fn_(ag[f"HoldV{i}"]))
            if r[0] != "ok" or r[1].get("additionalProperties") != {"$ref": f"#/$defs/NamedV{i}"} or list(r[1].get("$defs", {})) != [f"NamedV{i}"]:
                _fail(failures, "aggregate-mapping-values", "extracted-type-inlined-under-an-aggregate-field", which=fn_.__name__, got=r)
        # dependentRequired lists are sets: valid against the meta-schema whatever the overlap of the declared groups
        import jsonschema
        for cname in (f"Contact{i}", f"Pay{i}", f"PayEU{i}"):
            for fn_ in (deserialization_schema, serialization_schema):
                for ver, validator_cls in ((JsonSchemaVersion.DRAFT_2020_12, jsonschema.Draft202012Validator), (JsonSchemaVersion.DRAFT_7, jsonschema.Draft7Validator)):
                    n += 1; distinct.add(case_hash("c7-depreq", cname, fn_.__name__, str(ver))); hist["dependentRequired-lists"] += 1
                    r = _out(lambda: fn_(ns[cname], version=ver))
                    if r[0] != "ok": _fail(failures, "dependent-required-lists", "schema-generation-raises", cls=cname, got=r); continue
                    try: validator_cls.check_schema(r[1])
                    except Exception as e: _fail(failures, "dependent-required-lists", "schema-invalid-against-its-meta-schema", cls=cname, version=str(ver), real=r[1], error=str(e)[:200])
                    deps = r[1].get("dependentRequired") or r[1].get("dependencies") or {}
                    if any(len(v) != len(set(v)) for v in deps.values() if isinstance(v, list)): _fail(failures, "dependent-required-lists", "duplicate-names-in-a-dependency-list", cls=cname, real=deps)
    if prop == "C18":
        # definitions of a type used on both sides: property names are data, not keywords - they survive every dialect conversion - and follow the aliaser like `required`
        K = ns[f"Kw{i}"]
        for ver in (JsonSchemaVersion.DRAFT_2020_12, JsonSchemaVersion.DRAFT_2019_09, JsonSchemaVersion.DRAFT_7, JsonSchemaVersion.OPEN_API_3_0, JsonSchemaVersion.OPEN_API_3_1):
            for al_name, al in (("none", None), ("camel", ns["to_camel_case"])):
                kw = {} if al is None else {"aliaser": al}; A = al or (lambda s: s)
                n += 1; distinct.add(case_hash("c7-defs", str(ver), al_name)); hist["definitions-of-a-two-sided-type"] += 1
                r = _out(lambda: definitions_schema(deserialization=[K], serialization=[K], version=ver, all_refs=True, **kw))
                want = [A(x) for x in ("type", "const", "event_id", "prefixItems")]
                if r[0] != "ok": _fail(failures, "two-sided-definitions", "crash:" + r[1].split(":")[0] if r[0] == "crash" else "definitions_schema-raises", version=str(ver), aliaser=al_name, got=r); continue
                d = r[1].get(f"Kw{i}", {})
                props = d.get("properties")
                if not isinstance(props, dict) or sorted(props) != sorted(want) or any(not isinstance(v, dict) for v in props.values()):
                    _fail(failures, "two-sided-definitions", "property-names-changed-by-the-dialect-conversion", version=str(ver), aliaser=al_name, got=d, expected=want)
                elif sorted(d.get("required", [])) and not set(d.get("required", [])) <= set(props):
                    _fail(failures, "two-sided-definitions", "required-names-a-key-that-is-not-a-property", version=str(ver), aliaser=al_name, got=d)
    if prop == "C15":
        # an assignment a frozen class refuses does not set the field; calling a specialised alias of a generic class sets what the constructor arguments set
        from apischema.fields import fields_set
        src = ["from dataclasses import dataclass, field", "from typing import *", "from apischema.fields import with_fields_set", "T = TypeVar('T')", "",
               "@with_fields_set", "@dataclass(frozen=True)", f"class Fz{i}:", "    a: int = 0", "    b: int = 1", "",
               "@with_fields_set", "@dataclass", f"class Gs{i}(Generic[T]):", "    a: T", "    b: Optional[T] = None", ""]
        g = vars(build_module(src, f"corners7fs_{seed}")); Fz, Gs = g[f"Fz{i}"], g[f"Gs{i}"]
        f = Fz(1)
        try: f.b = 3
        except Exception: pass
        n += 2; distinct.add(case_hash("c7-fs")); hist["fields_set-corners"] += 2
        got = (sorted(fields_set(f)), serialize(Fz, f))
        if got != (["a"], {"a": 1}): _fail(failures, "fields-set-corners", "refused-assignment-recorded-as-set", got=got, expected=(["a"], {"a": 1}))
        a, b = sorted(fields_set(Gs(1))), sorted(fields_set(Gs[int](1)))
        if a != ["a"] or b != ["a"]: _fail(failures, "fields-set-corners", "set-of-a-specialised-alias-call-differs-from-the-constructor-arguments", plain=a, specialised=b)
    if prop == "C16":
        # a resolver registered as a serialized method with an order: one permutation in serialization, its schema and the GraphQL type
        from apischema.graphql import graphql_schema
        src = ["from dataclasses import dataclass, field", "from apischema import order", "from apischema.graphql import resolver", "",
               "@dataclass", f"class Ro{i}:", "    a: int = 0", "    b: int = field(default=1, metadata=order(2))",
               "    @resolver(serialized=True, order=order(-1))", "    def first(self) -> int: return 1",
               "    @resolver(serialized=True, order=order(after='a'))", "    def after_a(self) -> int: return 2",
               "    @resolver(serialized=True)", "    def last(self) -> int: return 3", ""]
        g = vars(build_module(src, f"corners7ord_{seed}")); Ro = g[f"Ro{i}"]
        def ro() -> Ro: return Ro()
        n += 1; distinct.add(case_hash("c7-resolver-order")); hist["ordered-resolvers-registered-as-serialized-methods"] += 1
        views = {"serialize": _out(lambda: list(serialize(Ro, Ro()))), "serialization_schema": _out(lambda: list(serialization_schema(Ro)["properties"])),
                 "graphql": _out(lambda: [to_snake(x) for x in graphql_schema(query=[ro]).type_map[f"Ro{i}"].fields])}
        want = ["first", "a", "after_a", "last", "b"]
        if any(v != ("ok", want) for v in views.values()): _fail(failures, "ordered-resolvers", "views-do-not-follow-one-order", views={k: list(v) for k, v in views.items()}, expected=want)
        # order(after= / before=) naming a serialized method or property of the same class body
        osrc = ["from dataclasses import dataclass, field", "from apischema import order, serialized", "", "@dataclass", f"class Om{i}:", "    a: int = 0",
                "    @serialized", "    def m(self) -> int: return 1", "    @serialized", "    @property", "    def p(self) -> int: return 2",
                "    b: int = field(default=0, metadata=order(after=m))", "    c: int = field(default=0, metadata=order(before=p))", ""]
        n += 1; distinct.add(case_hash("c7-order-after-method")); hist["order-relative-to-a-serialized-member"] += 1
        r = _out(lambda: (lambda Om: (list(serialize(Om, Om())), list(serialization_schema(Om)["properties"])))(vars(build_module(osrc, f"corners7om_{seed}"))[f"Om{i}"]))
        if r != ("ok", (["a", "m", "b", "c", "p"], ["a", "m", "b", "c", "p"])): _fail(failures, "ordered-resolvers", "crash:" + r[1].split(":")[0] if r[0] == "crash" else "elements-not-attached-to-the-serialized-member", got=r)
    if prop == "C18":
        # an empty list of examples: every version converts (OpenAPI 3.0 has `example`, taken from the first one when there is one)
        from apischema import schema as _schema
        src = ["from dataclasses import dataclass, field", "from apischema import schema", "", "@dataclass", f"class Ex{i}:", "    a: int = field(default=0, metadata=schema(examples=[]))",
               "    b: int = field(default=0, metadata=schema(examples=[1, 2]))", ""]
        Ex = vars(build_module(src, f"corners7ex_{seed}"))[f"Ex{i}"]
        for ver in (JsonSchemaVersion.DRAFT_2020_12, JsonSchemaVersion.DRAFT_7, JsonSchemaVersion.OPEN_API_3_0, JsonSchemaVersion.OPEN_API_3_1):
            n += 1; distinct.add(case_hash("c7-examples", str(ver.schema), ver.ref_prefix)); hist["empty-examples"] += 1
            r = _out(lambda: deserialization_schema(Ex, version=ver, all_refs=False))
            if r[0] != "ok": _fail(failures, "empty-examples", "crash:" + r[1].split(":")[0] if r[0] == "crash" else "schema-generation-raises", version=str(ver.schema), got=r)
            elif ver is JsonSchemaVersion.OPEN_API_3_0 and ("examples" in json.dumps(r[1]) or r[1]["properties"]["b"].get("example") != 1):
                _fail(failures, "empty-examples", "keyword-outside-the-target-vocabulary:examples", got=r[1])
    if prop == "C19":
        # resolvers on properties and methods overridden in a subclass (not re-decorated): the executed query returns what the attribute of the object is
        import graphql
        from apischema.graphql import graphql_schema, resolver
        src = ["from dataclasses import dataclass", "from typing import *", "from apischema.graphql import resolver", "",
               "@dataclass", f"class Acc{i}:", "    owner: str",
               "    @resolver", "    @property", "    def display_name(self) -> str: return self.owner",
               "    @resolver", "    @property", "    def kind(self) -> str: return 'personal'",
               "    @resolver", "    def greeting(self, punct: str = '!') -> str: return 'hi ' + self.owner + punct", "",
               "@dataclass", f"class Biz{i}(Acc{i}):", "    company: str = 'ACME'",
               "    @property", "    def display_name(self) -> str: return self.company + ' (' + self.owner + ')'",
               "    @property", "    def kind(self) -> str: return 'business'",
               "    def greeting(self, punct: str = '!') -> str: return 'dear ' + self.company + punct", ""]
        g = vars(build_module(src, f"corners7gql_{seed}"))
        Acc, Biz = g[f"Acc{i}"], g[f"Biz{i}"]
        objs = [Acc("ann"), Biz("bob", "ACME")]
        def one() -> Acc: return objs[1]
        def many() -> List[Acc]: return list(objs)
        r = _out(lambda: graphql.graphql_sync(graphql_schema(query=[one, many]), "{ one { owner displayName kind greeting } many { displayName kind greeting(punct: \"?\") } }"))
        n += 1; distinct.add(case_hash("c7-gqlprops")); hist["resolver-properties-overridden-in-a-subclass"] += 1
        want = {"one": {"owner": "bob", "displayName": objs[1].display_name, "kind": objs[1].kind, "greeting": objs[1].greeting()},
                "many": [{"displayName": o.display_name, "kind": o.kind, "greeting": o.greeting("?")} for o in objs]}
        # enums with a mixin are enums like the others: a named GraphQL enum, values published by name
        esrc = ["from enum import Enum", f"class CS{i}(str, Enum):", "    RED = 'r'", "    BLUE = 'b'", f"class CI{i}(int, Enum):", "    ONE = 1", f"class CP{i}(Enum):", "    X = 'x'", ""]
        eg = vars(build_module(esrc, f"corners7enum_{seed}")); CS, CI, CP = eg[f"CS{i}"], eg[f"CI{i}"], eg[f"CP{i}"]
        def cs() -> CS: return CS.BLUE
        def ci() -> CI: return CI.ONE
        def cp() -> CP: return CP.X
        n += 1; distinct.add(case_hash("c7-gqlenum")); hist["enums-with-a-mixin"] += 1
        er = _out(lambda: graphql.graphql_sync(graphql_schema(query=[cs, ci, cp]), "{ cs ci cp }"))
        if er[0] != "ok" or er[1].errors or er[1].data != {"cs": "BLUE", "ci": "ONE", "cp": "X"}:
            _fail(failures, "mixin-enums", "crash:" + er[1].split(":")[0] if er[0] == "crash" else "enum-not-published-by-name", got=(er[1].data, [str(e) for e in er[1].errors or []]) if er[0] == "ok" else er)
        # an Enum default of an argument / of an input field: the omitted argument reaches the resolver as the member, the schema prints
        from dataclasses import dataclass as _dc
        seen = []
        @_dc
        class EInp:
            c: CP = CP.X
            n: int = 1
        def edef(v: CP = CP.X) -> CP:
            seen.append(v); return v
        def einp(i: EInp) -> CP:
            seen.append(i.c); return i.c
        n += 1; distinct.add(case_hash("c7-gqlenumdefault")); hist["enum-defaults"] += 1
        dr = _out(lambda: (lambda sch: (graphql.graphql_sync(sch, "{ edef einp(i: {}) }"), graphql.print_schema(sch)))(graphql_schema(query=[edef, einp])))
        if dr[0] != "ok" or dr[1][0].errors or dr[1][0].data != {"edef": "X", "einp": "X"} or seen != [CP.X, CP.X] or "= X" not in dr[1][1]:
            _fail(failures, "enum-defaults", "crash:" + dr[1].split(":")[0] if dr[0] == "crash" else "enum-default-not-published-as-the-member", got=(dr[1][0].data, [str(e) for e in dr[1][0].errors or []], seen) if dr[0] == "ok" else dr)
        if r[0] != "ok" or r[1].errors or r[1].data != want:
            _fail(failures, "overridden-resolvers", "executed-query-differs-from-the-attributes-of-the-object", got=(r[1].data, r[1].errors) if r[0] == "ok" else r, expected=want)
    return failures, n, distinct, hist
