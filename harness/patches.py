"""In-process repairs of known defects, to test the model's `repaired` quirk setting before the
`fix:` commits exist (throw-away)."""
import apischema.deserialization.methods as m
from apischema.validation.errors import ValidationError
def apply():
    def tuple_deser(self, data):
        if not isinstance(data, list): raise m.bad_type(data, list)
        n = len(data)
        if n != len(self.elt_methods):
            if n < len(self.elt_methods): raise ValidationError(m.format_error(self.min_len_error, data))
            raise ValidationError(m.format_error(self.max_len_error, data))
        errs = None; elts = [None] * n
        for i, em in enumerate(self.elt_methods):
            try: elts[i] = em.deserialize(data[i])
            except ValidationError as err: errs = m.set_child_error(errs, i, err)
        m.validate_constraints(data, self.constraints, errs)
        return tuple(elts)
    m.TupleMethod.deserialize = tuple_deser
    def float_deser(self, data):
        if isinstance(data, float): return data
        if isinstance(data, int) and not isinstance(data, bool): return float(data)
        raise m.bad_type(data, float)
    m.FloatMethod.deserialize = float_deser
    def cfloat_deser(self, data):
        return m.validate_constraints(float_deser(self, data), self.constraints, None)
    m.ConstrainedFloatMethod.deserialize = cfloat_deser
