"""validators engine (C10).
Part 1: the real `validate()` on generated validator lists (real `Validator` objects whose bodies log their own
        invocation) vs the Lean model (K) and vs the one-pass specification written independently here (P).
Part 2: end to end through `deserialize` on generated dataclasses with `@validator` methods (dependency discovery by
        the real code): a validator is invoked iff every field it reads was deserialized without error, none was
        discarded by an earlier failing validator and at least one was provided; errors are merged; the object is
        constructed only when there is no error."""
import sys, os, json, random, collections, dataclasses
HERE = os.path.dirname(os.path.abspath(__file__)); sys.path.insert(0, HERE)
from common import model, build_module, case_hash

NAMES = ["low", "high", "mid", "tag"]      # (more than one letter: a name given as a string must not be read as a collection of characters)


@dataclasses.dataclass
class Obj:
    low: int = 0
    high: int = 0
    mid: int = 0
    tag: int = 0


def gen_case(rnd):
    vs = []
    for i in range(rnd.randint(1, 5)):
        deps = rnd.sample(NAMES, rnd.randint(0, 3))
        field = rnd.choice(NAMES) if rnd.random() < 0.3 else None
        if field is not None and rnd.random() < 0.8 and field not in deps: deps.append(field)
        r = rnd.random()
        discard = None if r < 0.4 else [] if r < 0.5 else rnd.sample(NAMES, rnd.randint(1, 2))
        vs.append([i, sorted(deps), discard, field, rnd.random() < 0.6, f"m{i}"])
    return vs


def run_real(case):
    from apischema import ValidationError
    import apischema.validation.validators as vmod
    log, objs = [], []
    for (i, deps, discard, field, fails, msg) in case:
        def f(self, i=i, fails=fails, msg=msg):
            log.append(i)
            if fails: raise ValidationError([msg])
        v = vmod.Validator(f, field, None if discard is None else tuple(discard))
        v.owner = Obj; v.dependencies = set(deps); v.params = set()
        objs.append(v)
    lim = sys.getrecursionlimit(); sys.setrecursionlimit(400)
    try:
        vmod.validate(Obj(), objs)
        return {"ran": log, "errs": None}
    except ValidationError as e:
        return {"ran": log, "errs": [[list(x["loc"]), ["custom", x["err"]]] for x in e.errors]}
    except RecursionError:
        return {"crash": "RecursionError"}
    except Exception as e:
        return {"crash": type(e).__name__ + ":" + str(e)[:60]}
    finally:
        sys.setrecursionlimit(lim)


def effective_discard(discard, field):
    return [field] if (field is not None and discard is None) else list(discard or ())


def spec(case):
    """one left-to-right pass: a validator runs iff none of its dependencies was discarded by an earlier failing
    validator that ran; errors: the messages of the failing validators that ran, under their field if any"""
    disc, ran, errs = set(), [], []
    for (i, deps, discard, field, fails, msg) in case:
        if set(deps) & disc: continue
        ran.append(i)
        if fails:
            errs.append([[field] if field is not None else [], ["custom", msg]])
            disc |= set(effective_discard(discard, field))
    return {"ran": ran, "errs": sorted(errs, key=json.dumps) if errs else None}


def norm(r):
    if "crash" in r: return r
    return {"ran": r["ran"], "errs": sorted(r["errs"], key=json.dumps) if r["errs"] else None}


# ---------------------------------------------------------------------------------------------------- part 2
def gen_class(rnd, i):
    """a dataclass with 1-4 int fields (some with defaults, some aliased) and 1-4 validators reading 1-2 of them"""
    names = NAMES[: rnd.randint(1, 4)]
    fields = []
    for n in names:
        fields.append({"name": n, "default": rnd.random() < 0.5, "alias": (n.upper() + "x" if rnd.random() < 0.25 else n), "nullable": rnd.random() < 0.3})
    fields.sort(key=lambda f: f["default"])
    inherit = rnd.random() < 0.3          # fields and helpers in a base class, validators in the subclass
    cname = f"VB{i}" if inherit else f"V{i}"
    # a Generic class used through a subscripted alias (V[int]): its validators are those of the class
    generic = rnd.random() < 0.25
    lines = ["@dataclass", f"class {cname}" + ("(Generic[T]):" if generic and not inherit else ":")]
    for f in fields:
        md = f"metadata=alias({f['alias']!r})" if f["alias"] != f["name"] else ""
        rhs = (f" = field(default=0, {md})" if md else " = 0") if f["default"] else (f" = field({md})" if md else "")
        lines.append(f"    {f['name']}: {'Optional[int]' if f.get('nullable') else 'int'}{rhs}")
    if inherit:
        # helpers defined in the base class: a method and a property, each reading one field
        for n in names:
            lines += [f"    def get_{n}(self):", f"        return self.{n}", "    @property", f"    def prop_{n}(self):", f"        return self.{n}"]
        lines += ["", "@dataclass", f"class V{i}({cname}" + (", Generic[T]):" if generic else "):")]
    vals = []
    for j in range(rnd.randint(1, 4)):
        deps = sorted(rnd.sample(names, rnd.randint(1, min(2, len(names)))))
        style = rnd.choice(["raise", "yield"])
        kind = rnd.choice(["plain", "plain", "field", "discard"])
        tgt = rnd.choice(deps)
        disc = sorted(rnd.sample(names, rnd.randint(1, min(2, len(names))))) if kind == "discard" else None
        deco = "@validator" if kind == "plain" else f"@validator({tgt!r})" if kind == "field" else \
            (f"@validator(discard={disc[0]!r})" if len(disc) == 1 and rnd.random() < 0.5 else "@validator(discard=[" + ", ".join(map(repr, disc)) + "])")
        def read(d):
            if not inherit: return f"self.{d}"
            return rnd.choice([f"self.{d}", f"self.get_{d}()", f"self.prop_{d}"])
        cond = " or ".join(f"{read(d)} == 13" for d in deps)
        body = [f"        LOG.append(({i}, {j}))", f"        if {cond}:"]
        body.append(f"            raise ValidationError(['v{j}'])" if style == "raise" else f"            yield 'v{j}'")
        lines += [f"    {deco}", f"    def check{j}(self):"] + body
        vals.append({"j": j, "deps": deps, "style": style, "kind": kind, "field": tgt if kind == "field" else None,
                     "discard": disc if kind == "discard" else ([tgt] if kind == "field" else [])})
    return {"cls": f"V{i}", "src": lines, "fields": fields, "validators": vals, "generic": generic}


def gen_datum(rnd, c):
    """each field: absent / valid / valid-but-triggering (13) / invalid"""
    d, st = {}, {}
    for f in c["fields"]:
        r = rnd.choice(["absent", "valid", "valid", "trigger", "invalid"] + (["null", "null"] if f.get("nullable") else []))
        if r == "absent" and not f["default"]: r = rnd.choice(["absent", "valid", "trigger"])
        st[f["name"]] = r
        if r == "valid": d[f["alias"]] = 1
        elif r == "null": d[f["alias"]] = None        # a value like another: the field is provided and valid
        elif r == "trigger": d[f["alias"]] = 13
        elif r == "invalid": d[f["alias"]] = "x"
    return d, st


def e2e_spec(c, st):
    """expected invocation log, error list and whether the object is built"""
    errs, structural = [], False
    for f in c["fields"]:
        s = st[f["name"]]
        if s == "invalid":
            errs.append([[f["alias"]], "expected type integer, found string"]); structural = True
            if f.get("nullable"): errs.append([[f["alias"]], "expected type null, found string"])
        elif s == "absent" and not f["default"]: errs.append([[f["alias"]], "missing property"]); structural = True
    bad = {f["name"] for f in c["fields"] if st[f["name"]] == "invalid" or (st[f["name"]] == "absent" and not f["default"])}
    provided = {n for n, s in st.items() if s in ("valid", "trigger", "null")}
    disc, ran = set(), []
    alias_of = {f["name"]: f["alias"] for f in c["fields"]}
    for v in c["validators"]:
        deps = set(v["deps"])
        if deps & bad or not (deps & provided) or deps & disc: continue
        ran.append(v["j"])
        if any(st[d] == "trigger" for d in v["deps"]):
            errs.append([[alias_of[v["field"]]] if v["field"] else [], f"v{v['j']}"])
            disc |= set(v["discard"])
    return {"ran": ran, "errs": sorted(errs, key=json.dumps), "built": not errs}


E2E_HEADER = ["from dataclasses import dataclass, field", "from typing import Generic, TypeVar, Optional", "from apischema import validator, ValidationError, alias", "LOG = []", "T = TypeVar('T')", ""]


def _al(s): return "al_" + s


def run_e2e(mod, c, d, aliased=False):
    """`aliased`: the same datum with every key renamed by a dynamic aliaser, deserialized under that aliaser; the locations
    are reported with the renaming undone (so that the expected result does not depend on it)"""
    from apischema import deserialize, ValidationError
    mod.LOG.clear()
    lim = sys.getrecursionlimit(); sys.setrecursionlimit(600)
    kw = {"aliaser": _al} if aliased else {}
    if aliased: d = {_al(k): v for k, v in d.items()}
    unal = (lambda loc: [x[3:] if isinstance(x, str) and x.startswith("al_") else ("UNALIASED:" + x if isinstance(x, str) else x) for x in loc]) if aliased else list
    try:
        tp = getattr(mod, c["cls"])
        if c.get("generic"): tp = tp[int]
        v = deserialize(tp, dict(d), **kw)
        return {"ran": [j for (_, j) in mod.LOG], "errs": [], "built": True}
    except ValidationError as e:
        return {"ran": [j for (_, j) in mod.LOG], "errs": sorted(([unal(x["loc"]), x["err"]] for x in e.errors), key=json.dumps), "built": False}
    except RecursionError:
        return {"crash": "RecursionError"}
    except Exception as e:
        return {"crash": type(e).__name__ + ":" + str(e)[:80]}
    finally:
        sys.setrecursionlimit(lim)


def run(prop, seed, budget, ctx):
    rnd = random.Random(seed); n = 3000 * budget
    cases = [gen_case(rnd) for _ in range(n)]
    reqs = [{"id": k, "op": "validate", "current": False,
             "vs": [[i, deps, effective_discard(discard, field), field, fails, msg] for (i, deps, discard, field, fails, msg) in case]}
            for k, case in enumerate(cases)]
    ms = model(reqs) if ctx["driver_ok"] else [None] * n
    failures, hist, distinct, samples, kbad = [], collections.Counter(), set(), [], 0
    for case, m in zip(cases, ms):
        r = run_real(case); s = spec(case)
        if m is not None: m.pop("id", None)
        k_ok = m is None or ("crash" not in r and norm(m) == norm(r))
        hist["validate:" + ("crash" if "crash" in r else "invalid" if r["errs"] else "ok")] += 1
        if len(case) > 1 and any(v[4] for v in case): distinct.add(case_hash(case))
        if len(samples) < 3: samples.append({"validators[id,deps,discard,field,fails,msg]": case, "real": r})
        c = {"part": "validate()", "validators": case, "real": r, "model": m, "spec": s, "k_ok": k_ok}
        if "crash" in r or norm(r) != s:
            c["kind"] = "P"; c["why"] = ["validation-does-not-terminate" if "crash" in r else "executed-validators-or-errors-differ-from-the-specification"]
            failures.append(c)
        elif not k_ok:
            c["kind"] = "K"; c["why"] = "model and implementation disagree"; failures.append(c); kbad += 1
    # part 2
    ncls = 120 * budget
    classes = [gen_class(rnd, i) for i in range(ncls)]
    mod = build_module(E2E_HEADER + [l for c in classes for l in c["src"] + [""]], f"val{seed}")
    n2 = 0
    for c in classes:
        for _ in range(8):
            d, st = gen_datum(rnd, c); n2 += 1
            aliased = rnd.random() < 0.4
            if aliased: hist["e2e:under-a-dynamic-aliaser"] += 1
            r = run_e2e(mod, c, d, aliased); s = e2e_spec(c, st)
            hist["e2e:" + ("crash" if "crash" in r else "built" if r["built"] else "rejected")] += 1
            if len(c["validators"]) > 1: distinct.add(case_hash(c["src"], d))
            if len(samples) < 6: samples.append({"class": c["src"], "datum": d, "real": r})
            if r != s:
                failures.append({"part": "deserialize", "cls": c["cls"], "src": c["src"], "datum": d, "states": st, "real": r, "spec": s, "aliased": aliased, "generic": c.get("generic", False),
                                 "validators": c["validators"], "fields": c["fields"], "kind": "P", "k_ok": None,
                                 "why": ["validation-does-not-terminate" if "crash" in r else "invoked-validators-or-merged-errors-differ-from-the-specification"]})
    # part 3: errors yielded with paths: the path (a key, an index - 0 included -, a sequence of them, or nothing) is where the
    # error is placed, below the object for a plain validator, below the field alias for a field validator
    from apischema import deserialize as _des, ValidationError as _VE
    psrc = ["from dataclasses import dataclass, field", "from typing import *", "from apischema import validator, ValidationError, alias", ""]
    npath = 10 * budget
    for i in range(npath):
        psrc += ["@dataclass", f"class Y{i}:", "    xs: List[int] = field(metadata=alias('XS'))", "    tag: str = 't'",
                 "    @validator", "    def plain(self):", "        for i, x in enumerate(self.xs):", "            if x < 0:",
                 f"                yield {['("XS", i)', '["XS", i]'][i % 2]}, 'negative'",
                 "    @validator('xs')", "    def on_field(self):", "        for i, x in enumerate(self.xs):", "            if x > 100:", "                yield i, 'big'",
                 "    @validator", "    def root(self):", "        if self.tag == 'bad':", f"            yield {['()', 'None', '[]'][i % 3]}, 'root message'", ""]
    pmod = build_module(psrc, f"valpath{seed}")
    n3 = 0
    for i in range(npath):
        Y = getattr(pmod, f"Y{i}")
        for _ in range(6):
            xs = [rnd.choice([-5, 1, 500, 7, -1, 101]) for _ in range(rnd.randint(1, 4))]; tag = rnd.choice(["t", "bad"])
            want = sorted([[["XS", k], "negative"] for k, x in enumerate(xs) if x < 0] + [[["XS", k], "big"] for k, x in enumerate(xs) if x > 100]
                          + ([[[], "root message"]] if tag == "bad" else []), key=json.dumps)
            n3 += 1; distinct.add(("paths", i, tuple(xs), tag))
            try: _des(Y, {"XS": xs, "tag": tag}); got = []
            except _VE as e: got = sorted(([list(x["loc"]), x["err"]] for x in e.errors), key=json.dumps)
            except Exception as e: got = "CRASH " + type(e).__name__
            hist["yielded-paths"] += 1
            if got != want:
                failures.append({"part": "yielded-paths", "src": psrc[4 + 19 * i: 4 + 19 * (i + 1)], "datum": {"XS": xs, "tag": tag}, "real": got, "spec": want,
                                 "kind": "P", "k_ok": None, "why": ["yielded-error-not-placed-at-its-path"]})
    # part 4: validators reading aggregate fields (flattened class, pattern / additional properties)
    import agg_validators
    af, an, ad, ah = agg_validators.run_part(seed, budget)
    failures += af; distinct |= ad; n3 += an
    for k_, v_ in ah.items(): hist[k_] += v_
    import corners7
    cf_, cn_, cd_, ch_ = corners7.run_part("C10", seed, budget)
    failures += cf_; distinct |= cd_; n3 += cn_
    for k_, v_ in ch_.items(): hist[k_] += v_
    for f in failures: hist["fail:" + f["why"][0] if isinstance(f["why"], list) else "fail:K"] += 1
    return {"evaluations": n + n2 + n3, "distinct_nontrivial": len(distinct),
            "rule": "part 1: lists of 1-5 real Validator objects over 4 fields (dependency sets, field=, discard= / empty discard, pass / fail) run by "
                    "the real validate(); part 2: generated dataclasses with @validator methods (raise / yield, field, discard) x data assigning each "
                    "field absent / valid / triggering / invalid, through deserialize; part 3: validators yielding errors with paths (a key and an index, an index alone - 0 included -, "
                    "the empty path) over generated lists; non-trivial = more than one validator",
            "samples": samples, "histograms": dict(hist), "correspondence": {"compared_with_model": n, "disagreements": kbad},
            "failures": failures}


def e2e_locations(seed, budget):
    """used by the C02 check: validator classes deserialized under a dynamic aliaser; every error location (structural or
    yielded / raised by a validator, before or after an earlier validator failed) is the aliased path"""
    rnd = random.Random(seed * 17 + 9); ncls = 60 * budget
    classes = [gen_class(rnd, 500_000 + i) for i in range(ncls)]
    mod = build_module(E2E_HEADER + [l for c in classes for l in c["src"] + [""]], f"valloc{seed}")
    failures, n, distinct = [], 0, set()
    for c in classes:
        for _ in range(8):
            d, st = gen_datum(rnd, c); n += 1
            r = run_e2e(mod, c, d, True); s = e2e_spec(c, st)
            if len(c["validators"]) > 1: distinct.add(case_hash(c["src"], d))
            if "crash" not in r and r["errs"] != s["errs"]:
                failures.append({"part": "deserialize", "cls": c["cls"], "src": c["src"], "datum": d, "states": st, "real": r, "spec": s, "aliased": True, "generic": c.get("generic", False),
                                 "validators": c["validators"], "fields": c["fields"], "kind": "P", "k_ok": None,
                                 "why": ["error-location-is-not-the-aliased-path"]})
    return failures, n, distinct


def e2e_nocrash(seed, budget):
    """C03 on classes with validators: every outcome is a value or a ValidationError (fields absent / valid / null / triggering / invalid)"""
    rnd = random.Random(seed * 19 + 3); ncls = 60 * budget
    classes = [gen_class(rnd, 700_000 + i) for i in range(ncls)]
    mod = build_module(E2E_HEADER + [l for c in classes for l in c["src"] + [""]], f"valnc{seed}")
    failures, n, distinct = [], 0, set()
    for c in classes:
        for _ in range(8):
            d, st = gen_datum(rnd, c); n += 1
            r = run_e2e(mod, c, d, rnd.random() < 0.3)
            if len(c["validators"]) > 1: distinct.add(case_hash(c["src"], d))
            if "crash" in r:
                failures.append({"part": "deserialize", "cls": c["cls"], "src": c["src"], "datum": d, "states": st, "real": r, "spec": e2e_spec(c, st), "aliased": False, "generic": c.get("generic", False),
                                 "validators": c["validators"], "fields": c["fields"], "kind": "P", "k_ok": None, "why": ["crash:" + r["crash"].split(":")[0]]})
    return failures, n, distinct


def is_known(kid, case):
    return False


def replay(prop, case, ctx):
    if case.get("part") == "aggregate-validators":
        return {k: case[k] for k in ("src", "datum", "outcome", "validators_run", "why")}
    if case.get("part") == "yielded-paths":
        from apischema import deserialize, ValidationError
        mod = build_module(["from dataclasses import dataclass, field", "from typing import *", "from apischema import validator, ValidationError, alias", ""] + case["src"], "valpathreplay")
        Y = next(v for k, v in vars(mod).items() if k.startswith("Y") and isinstance(v, type))
        try: deserialize(Y, case["datum"]); got = []
        except ValidationError as e: got = sorted(([list(x["loc"]), x["err"]] for x in e.errors), key=json.dumps)
        return {"real": got, "spec": case["spec"], "fails": got != case["spec"]}
    if case.get("part") == "validate()":
        r = run_real(case["validators"]); s = spec(case["validators"])
        return {"real": r, "spec": s, "fails": "crash" in r or norm(r) != s}
    mod = build_module(E2E_HEADER + case["src"], "valreplay")
    c = {"cls": case["cls"], "validators": case["validators"], "fields": case["fields"], "generic": case.get("generic", False)}
    r = run_e2e(mod, c, case["datum"], case.get("aliased", False)); s = e2e_spec(c, case["states"])
    return {"real": r, "spec": s, "fails": r != s}
