"""alias engine (C11): the external name of every field must be the same in six views of the real code,
and equal to the specification `dyn(cls_aliaser(alias or name))` (override=False: class aliaser skipped)."""
import sys, os, json, random, importlib, collections
HERE = os.path.dirname(os.path.abspath(__file__)); sys.path.insert(0, HERE)
from apischema import deserialize, serialize, ValidationError
from apischema.json_schema import deserialization_schema, serialization_schema

NAMES = ["a", "some_name", "camelCase", "class_", "x1", "id"]
ALIASES = [None, None, "al", "$ref", "some_alias", "A"]
CLS_ALIASERS = {"none": None, "upper": "lambda s: s.upper()", "prefix": "lambda s: 'p_' + s"}
DYN = {"identity": (lambda s: s), "camel": None, "custom": (lambda s: s + "_")}

def gen_class(rnd, i):
    names = rnd.sample(NAMES, rnd.randint(1, 4))
    fields = []
    for n in names:
        al = rnd.choice(ALIASES); override = rnd.random() < 0.8
        fields.append((n, al, override))
    ca = rnd.choice(list(CLS_ALIASERS))
    lines = []
    if CLS_ALIASERS[ca]: lines.append(f"@alias({CLS_ALIASERS[ca]})")
    lines += ["@dataclass", f"class K{i}:"]
    for n, al, ov in fields:
        md = []
        if al is not None: md.append(f"alias({al!r}" + ("" if ov else ", override=False") + ")")
        elif not ov: md.append("alias(override=False)")
        lines.append(f"    {n}: int" + (f" = field(metadata={md[0]})" if md else ""))
    # fields with metadata defaults need defaults ordering: give every field a default-less declaration via field(metadata=...)
    return f"K{i}", lines, fields, ca

def spec_name(n, al, ov, ca, dyn):
    base = al if al is not None else n
    if ov and CLS_ALIASERS[ca]: base = eval(CLS_ALIASERS[ca])(base)
    return dyn(base)

def main():
    seed = int(os.environ.get("VERIF_SEED", "0")); n = int(sys.argv[1])
    rnd = random.Random(seed)
    from apischema.utils import to_camel_case
    DYN["camel"] = to_camel_case
    classes = [gen_class(rnd, i) for i in range(n)]
    src = ["from dataclasses import dataclass, field", "from apischema import alias", ""]
    for c in classes: src += c[1] + [""]
    modname = f"vpool_a{seed}"; path = os.path.join(HERE, modname + ".py")
    open(path, "w").write("\n".join(src)); mod = importlib.import_module(modname); os.remove(path)
    stats = collections.Counter()
    for cname, lines, fields, ca in classes:
        cls = getattr(mod, cname)
        for dn, dyn in DYN.items():
            stats["cases"] += 1
            want = [spec_name(n_, al, ov, ca, dyn) for n_, al, ov in fields]
            views = {}
            try:
                obj = cls(**{n_: i for i, (n_, _, _) in enumerate(fields)})
                views["serialize"] = list(serialize(cls, obj, aliaser=dyn))
                ds = deserialization_schema(cls, aliaser=dyn, with_schema=False)
                ss = serialization_schema(cls, aliaser=dyn, with_schema=False)
                views["deser_schema.properties"] = list(ds["properties"]); views["deser_schema.required"] = list(ds.get("required", []))
                views["ser_schema.properties"] = list(ss["properties"]); views["ser_schema.required"] = list(ss.get("required", []))
                back = deserialize(cls, {k: i for i, k in enumerate(want)}, aliaser=dyn)
                views["deserialize.accepts"] = want if back == obj else "WRONG VALUE"
                try: deserialize(cls, {k: "x" for k in want}, aliaser=dyn); views["error.loc"] = "ACCEPTED"
                except ValidationError as e: views["error.loc"] = [x["loc"][0] for x in e.errors]
                # GraphQL object type (output) and input type, under the same aliaser (names must be GraphQL names)
                import re
                if all(re.fullmatch(r"[_a-zA-Z][_a-zA-Z0-9]*", w) for w in want):
                    from apischema.graphql import graphql_schema
                    def q(arg: cls) -> cls: return arg
                    q.__annotations__ = {"arg": cls, "return": cls}
                    try:
                        gs = graphql_schema(query=[q], aliaser=dyn)
                        views["graphql.output_fields"] = list(gs.type_map[cname].fields)
                        views["graphql.input_fields"] = list(gs.type_map[cname + "Input"].fields)
                    except Exception as e: views["graphql"] = "EXC " + type(e).__name__ + ": " + str(e)[:60]
            except ValidationError as e:
                views["deserialize.accepts"] = ("REJECTED", e.errors)
            except Exception as e:
                views["exception"] = type(e).__name__ + ": " + str(e)[:80]
            if len(set(want)) != len(want): stats["name-clash(skipped)"] += 1; continue
            bad = {k: v for k, v in views.items() if (sorted(v) if isinstance(v, list) else v) != sorted(want)}
            for k in bad: stats["bad:" + k] += 1
            if bad:
                stats["P-C11-violations"] += 1
                if stats["P-C11-violations"] <= 6: print("C11", "\n".join(lines), "dyn=", dn, "want", want, "bad", bad)
    print(dict(stats))
if __name__ == "__main__": main()
