/-! Straight-line dict programs of `json_schema/versions.py` as the translator reads them, and their effect on the *set of keys* of a schema
node (the values travel with the keys). -/
namespace Api

inductive DOp where
  | copy                                   -- result = schema.copy()
  | call (fn : String)                     -- result = fn(schema)
  | ifHas (k : String) (body : List DOp)   -- if "k" in result: body
  | move (src dst : String)                -- result[dst] = result.pop(src)
  | mergeMove (src dst : String)           -- result[dst] = {**result.pop(src), **result.get(dst, {})}
  | isolateRef                             -- isolate_ref(result)
  | ret
  | unknown (src : String)
  deriving Repr

abbrev Keys := List String

def Keys.ins (k : String) (s : Keys) : Keys := if s.contains k then s else s ++ [k]

/-- `isolate_ref`: a `$ref` with siblings moves below `allOf` -/
def isolateRefKeys (s : Keys) : Keys :=
  if s.contains "$ref" && decide (s.length > 1) then Keys.ins "allOf" (s.erase "$ref") else s

mutual
/-- effect of one statement on the key set; `none` = the program is not one the interpreter understands (or pops an absent key) -/
def runDOp (callee : String → Option (Keys → Option Keys)) : DOp → Keys → Option Keys
  | .copy, s => some s
  | .call f, s => (match callee f with | some g => g s | Option.none => Option.none)
  | .ifHas k body, s => if s.contains k then runDOps callee body s else some s
  | .move src dst, s => if s.contains src then some (Keys.ins dst (s.erase src)) else Option.none     -- `pop` of an absent key raises
  | .mergeMove src dst, s => if s.contains src then some (Keys.ins dst (s.erase src)) else Option.none
  | .isolateRef, s => some (isolateRefKeys s)
  | .ret, s => some s
  | .unknown _, _ => Option.none
def runDOps (callee : String → Option (Keys → Option Keys)) : List DOp → Keys → Option Keys
  | [], s => some s
  | op :: rest, s => (match runDOp callee op s with | some s' => runDOps callee rest s' | Option.none => Option.none)
end

end Api
