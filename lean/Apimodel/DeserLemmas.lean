import Apimodel.Deser
/-! # Lemmas about the deserialization model -/
namespace Api

/-- "the method returns the datum itself" -/
def ReturnsData (m : Meth) : Prop := ∀ d v, run m d = .ok v → v = asVal d

theorem runNone_data {d v} (h : runNone d = .ok v) : v = asVal d := by
  unfold runNone at h
  cases d <;> simp [badType] at h
  · subst h; simp [asVal]
  all_goals (split at h <;> cases h)

theorem badType_not_ok {exps d v} : badType exps d ≠ .ok v := by
  unfold badType; intro h; cases h

theorem constrained_ok {rs v w} (h : constrained rs v = .ok w) : w = v := by
  unfold constrained at h; split at h <;> cases h; rfl

theorem runBool_data {d v} (h : runBool d = .ok v) : v = asVal d := by
  unfold runBool at h
  cases d <;> first | exact absurd h badType_not_ok | skip
  cases h; simp [asVal]

theorem runInt_data {c d v} (h : runInt c d = .ok v) : v = asVal d := by
  unfold runInt at h
  cases d <;> first | exact absurd h badType_not_ok | skip
  rw [constrained_ok h]; simp [asVal]

theorem runStr_data {c d v} (h : runStr c d = .ok v) : v = asVal d := by
  unfold runStr at h
  cases d <;> first | exact absurd h badType_not_ok | skip
  rw [constrained_ok h]; simp [asVal]

theorem finish_const_ok {own acc} {w v : Val} (h : finish own acc (fun _ => .ok w) = .ok v) : v = w := by
  unfold finish at h
  split at h
  · cases h
  · split at h
    · cases h
    · split at h <;> cases h; rfl
    · cases h

theorem onList_ok {d k v} (h : onList d k = .ok v) : ∃ xs, d = .list xs ∧ k xs = .ok v := by
  unfold onList at h
  cases d <;> first | exact absurd h badType_not_ok | skip
  exact ⟨_, rfl, h⟩

theorem finishMap_ok {own acc w v} (h : finishMap own acc w = .ok v) : v = w := by
  unfold finishMap at h
  split at h
  · cases h
  · split at h
    · split at h <;> cases h; rfl
    · cases h

theorem onDict_ok {d k v} (h : onDict d k = .ok v) : ∃ kvs, d = .dict kvs ∧ k kvs = .ok v := by
  unfold onDict at h
  cases d <;> first | exact absurd h badType_not_ok | skip
  · exact ⟨_, rfl, h⟩
  · cases h

theorem optionalTail_ok {d r v} (h : optionalTail d r = .ok v) : r = .ok v := by
  unfold optionalTail at h
  cases r with
  | ok w => exact h
  | invalid e => simp only at h; split at h <;> first | cases h | exact absurd h badType_not_ok
  | crash c => exact h

theorem byTypeTail_ok {others d r v} (h : byTypeTail others d r = .ok v) : r = .ok v := by
  unfold byTypeTail at h
  cases r with
  | ok w => exact h
  | invalid e => simp only at h; split at h <;> first | cases h | exact absurd h badType_not_ok
  | crash c => exact h

/-- check-only methods return the datum itself (this is what makes `no_copy` sound) -/
theorem checkOnly_returnsData :
    (∀ m, m.checkOnly = true → ReturnsData m) ∧
    (∀ tbl, checkOnlyT tbl = true → ∀ all c d v, runByType tbl all c d = .ok v → v = asVal d) ∧
    (∀ ms, checkOnlyL ms = true → ∀ d err v, runUnion ms d err = .ok v → v = asVal d) := by
  apply Meth.checkOnly.mutual_induct
    (motive_1 := fun m => m.checkOnly = true → ReturnsData m)
    (motive_3 := fun ms => checkOnlyL ms = true → ∀ d err v, runUnion ms d err = .ok v → v = asVal d)
    (motive_2 := fun tbl => checkOnlyT tbl = true → ∀ all c d v, runByType tbl all c d = .ok v → v = asVal d)
  · intro _ d v h; rw [run] at h; exact runNone_data h
  · intro _ d v h; rw [run] at h; exact runBool_data h
  · intro _ d v h; rw [run] at h; exact runInt_data h
  · intro _ d v h; rw [run] at h; exact runStr_data h
  · intro c _ d v h; rw [run] at h; exact runInt_data h
  · intro c _ d v h; rw [run] at h; exact runStr_data h
  · intro c m _ d v h
    rw [run] at h
    obtain ⟨xs, rfl, hk⟩ := onList_ok h
    exact finish_const_ok hk
  · intro c k vm _ d v h
    rw [run] at h
    obtain ⟨kvs, rfl, hk⟩ := onDict_ok h
    exact finishMap_ok hk
  · intro m ih hc d v h
    rw [Meth.checkOnly] at hc
    rw [run] at h
    split at h
    · cases h; rename_i hn; cases d <;> simp [Py.isNull] at hn; simp [asVal]
    · exact ih hc d v (optionalTail_ok h)
  · intro ms ih hc d v h
    rw [Meth.checkOnly] at hc
    rw [run] at h
    exact ih hc d _ v h
  · intro tbl ih hc d v h
    rw [Meth.checkOnly] at hc
    rw [run] at h
    split at h
    · cases h
    · exact ih hc tbl _ d v h
  · intro m h1 h2 h3 h4 h5 h6 h7 h8 h9 h10 h11 hc
    exfalso
    cases m <;> simp_all [Meth.checkOnly]
  · intro _ d err v h; rw [runUnion] at h; unfold unionEnd at h; split at h <;> cases h
  · intro m ms ihm ihms hc d err v h
    rw [checkOnlyL, Bool.and_eq_true] at hc
    rw [runUnion] at h
    unfold unionStep at h
    cases hr : run m d with
    | ok w => rw [hr] at h; simp only at h; cases h; exact ihm hc.1 d _ hr
    | invalid e => rw [hr] at h; exact ihms hc.2 d _ v h
    | crash c => rw [hr] at h; cases h
  · intro _ all c d v h; rw [runByType] at h; exact absurd h badType_not_ok
  · intro c' m rest ihm ihr hc all c d v h
    rw [checkOnlyT, Bool.and_eq_true] at hc
    rw [runByType] at h
    split at h
    · exact ihm hc.1 d v (byTypeTail_ok h)
    · exact ihr hc.2 all c d v h

end Api
