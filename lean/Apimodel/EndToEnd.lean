import Apimodel.AcceptThm
import Apimodel.SchemaThm
/-! # C06 end to end on the model: `deserialize` accepts ⇔ the generated schema validates -/
namespace Api

/-- **C06.** For every type in both scopes, every option record with the two repairs, every JSON datum
    with distinct keys and no integer-valued float: the compiled method returns a value iff the datum
    validates against `deserialization_schema(T)` under 2020-12 semantics. -/
theorem C06_deserialize_iff_schema (o : DOpts) (ho : OptsOk o) (t : Ty) (ht : t.acc = true) (hs : t.sch = true)
    (d : Py) (hw : d.wf = true) (hd : d.sane = true) :
    (deserialize o {} t d).isOk = validates (buildD o.additionalProperties t) d := by
  rw [C01_accept o ho {} t ht d hw, C06_schema_iff_conforms _ t hs d hd]

def exTy2 : Ty :=
  .obj { name := "A" }
    [({ name := "xs", alias := "xs", required := true }, .list (.ann { min := some (.int 0) } .int)),
     ({ name := "m", alias := "mm", required := false, dflt := some .emptyDict },
        .mapping .str (.tuple [.str, .literal [.str "a", .str "b"]]))]

example : exTy2.acc = true ∧ exTy2.sch = true := by decide +kernel
example : (Py.dict [("xs", .list [.int 1]), ("mm", .dict [("k", .list [.str "z", .str "a"])])]).sane = true := by
  decide +kernel
example : validates (buildD false exTy2)
    (.dict [("xs", .list [.int 1]), ("mm", .dict [("k", .list [.str "z", .str "a"])])]) = true := by decide +kernel
example : validates (buildD false exTy2)
    (.dict [("xs", .list [.int (-1)]), ("mm", .dict [("k", .list [.str "z", .str "a"])])]) = false := by decide +kernel

def exTy3 : Ty :=
  .obj { name := "B" }
    [({ name := "o", alias := "o", required := false, dflt := some (.lit .null) }, .union [.list .int, .null]),
     ({ name := "p", alias := "p", required := true }, .union [.obj { name := "Q" } [({ name := "z", alias := "z", required := true }, .str)], .null])]

example : exTy3.acc = true ∧ exTy3.sch = true := by decide +kernel
example : validates (buildD false exTy3) (.dict [("p", .null)]) = true
    ∧ validates (buildD false exTy3) (.dict [("o", .list [.int 1]), ("p", .dict [("z", .str "s")])]) = true
    ∧ validates (buildD false exTy3) (.dict [("o", .str "x"), ("p", .null)]) = false := by decide +kernel

end Api
