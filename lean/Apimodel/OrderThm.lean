import Apimodel.Order
/-! # C16: `sort_by_order` never duplicates, and never loses an anchored element -/
namespace Api
open Forest

theorem nodup_of_nodupNames {es : List Elt} (h : nodupNames es) : es.Nodup := by
  unfold nodupNames at h
  induction es with
  | nil => exact List.nodup_nil
  | cons e es ih =>
    rw [List.map_cons, List.nodup_cons] at h
    rw [List.nodup_cons]
    refine ⟨fun hm => h.1 (List.mem_map.2 ⟨e, hm, rfl⟩), ih h.2⟩

/-- with distinct names, looking an element up by its name finds that element -/
theorem find_name {es : List Elt} (h : nodupNames es) {e : Elt} (he : e ∈ es) :
    es.find? (fun x => x.name == e.name) = some e := by
  unfold nodupNames at h
  induction es with
  | nil => cases he
  | cons a es ih =>
    rw [List.map_cons, List.nodup_cons] at h
    rw [List.find?_cons]
    rcases List.mem_cons.1 he with rfl | hm
    · simp
    · have hne : (a.name == e.name) = false := by
        apply Bool.eq_false_iff.2
        intro heq
        have : a.name = e.name := by simpa using heq
        exact h.1 (this ▸ List.mem_map.2 ⟨e, hm, rfl⟩)
      rw [hne]; exact ih h.2 hm

theorem parent_eq_some {es : List Elt} (h : nodupNames es) {c e : Elt} (he : e ∈ es) :
    parent es c = some e ↔ (isBefore e.name c = true ∨ isAfter e.name c = true) := by
  unfold parent Elt.anchor isBefore isAfter
  constructor
  · intro hp
    cases hc : c.ord with
    | none => simp [hc] at hp
    | value n => simp [hc] at hp
    | after s =>
      simp only [hc] at hp
      have := List.find?_some hp
      have hs : e.name = s := by simpa using this
      right; simp [hs]
    | before s =>
      simp only [hc] at hp
      have := List.find?_some hp
      have hs : e.name = s := by simpa using this
      left; simp [hs]
  · rintro (hb | ha)
    · have : c.ord = .before e.name := by simpa using hb
      simp only [this]; exact find_name h he
    · have : c.ord = .after e.name := by simpa using ha
      simp only [this]; exact find_name h he

theorem wf_of_nodupNames {es : List Elt} (h : nodupNames es) :
    Wf (parent es) (befores es) (afters es) es where
  closed := by
    intro c _ p hp
    unfold parent at hp
    cases hc : c.anchor with
    | none => simp [hc] at hp
    | some s => simp only [hc] at hp; exact List.mem_of_find?_eq_some hp
  kids := by
    intro e he c
    unfold befores afters
    simp only [List.mem_filter]
    rw [parent_eq_some h he]
    constructor
    · rintro (⟨hc, hb⟩ | ⟨hc, ha⟩)
      · exact ⟨hc, Or.inl hb⟩
      · exact ⟨hc, Or.inr ha⟩
    · rintro ⟨hc, hb | ha⟩
      · exact Or.inl ⟨hc, hb⟩
      · exact Or.inr ⟨hc, ha⟩
  preNodup := fun e => List.Pairwise.filter _ (nodup_of_nodupNames h)
  postNodup := fun e => List.Pairwise.filter _ (nodup_of_nodupNames h)
  disj := by
    intro e c hb ha
    unfold befores at hb; unfold afters at ha
    have h1 := (List.mem_filter.1 hb).2
    have h2 := (List.mem_filter.1 ha).2
    unfold isBefore at h1; unfold isAfter at h2
    have e1 : c.ord = .before e.name := by simpa using h1
    have e2 : c.ord = .after e.name := by simpa using h2
    rw [e1] at e2; cases e2

/-! ### the sorted root list -/
theorem insertRoot_perm (e : Elt × Int) : ∀ l, (insertRoot e l).Perm (e :: l)
  | [] => List.Perm.refl _
  | x :: xs => by
    unfold insertRoot
    split
    · exact List.Perm.refl _
    · exact ((insertRoot_perm e xs).cons x).trans (List.Perm.swap e x xs)

theorem foldl_insertRoot_perm : ∀ (l acc : List (Elt × Int)),
    (l.foldl (fun acc r => insertRoot r acc) acc).Perm (l.reverse ++ acc)
  | [], acc => by simp
  | r :: l, acc => by
    rw [List.foldl_cons]
    refine (foldl_insertRoot_perm l (insertRoot r acc)).trans ?_
    rw [List.reverse_cons, List.append_assoc]
    exact List.Perm.append_left _ (insertRoot_perm r acc)

theorem map_fst_filterMap : ∀ es : List Elt,
    (es.filterMap (fun e => e.rootValue.map (fun v => (e, v)))).map (·.1)
      = es.filter (fun e => e.rootValue.isSome)
  | [] => rfl
  | e :: es => by
    rw [List.filterMap_cons, List.filter_cons]
    cases hv : e.rootValue with
    | none => simpa [hv] using map_fst_filterMap es
    | some v => simp only [Option.map_some, List.map_cons, Option.isSome_some, if_true, map_fst_filterMap es]

theorem roots_perm (es : List Elt) :
    (roots es).Perm (es.filter (fun e => e.rootValue.isSome)) := by
  unfold roots
  have h := foldl_insertRoot_perm (es.filterMap (fun e => e.rootValue.map (fun v => (e, v)))) []
  rw [List.append_nil] at h
  exact ((h.trans (List.reverse_perm _)).map (·.1)).trans (List.Perm.of_eq (map_fst_filterMap es))

theorem mem_roots {es : List Elt} {r : Elt} : r ∈ roots es ↔ r ∈ es ∧ r.rootValue.isSome = true := by
  rw [(roots_perm es).mem_iff, List.mem_filter]

theorem roots_nodup {es : List Elt} (h : nodupNames es) : (roots es).Nodup :=
  (roots_perm es).nodup_iff.2 (List.Pairwise.filter _ (nodup_of_nodupNames h))

theorem root_parent {es : List Elt} {r : Elt} (h : r.rootValue.isSome = true) : parent es r = none := by
  unfold parent Elt.anchor
  unfold Elt.rootValue at h
  cases hr : r.ord <;> simp_all

theorem roots_spec {es : List Elt} : ∀ r ∈ roots es, r ∈ es ∧ parent es r = none :=
  fun r hr => ⟨(mem_roots.1 hr).1, root_parent (mem_roots.1 hr).2⟩

/-- **C16, never duplicates.** -/
theorem sortByOrder_nodup {es : List Elt} (h : nodupNames es) : (sortByOrder es).Nodup :=
  nodup_output (wf_of_nodupNames h) (roots_nodup h) roots_spec es.length

/-- every output element is an input element -/
theorem sortByOrder_sub {es : List Elt} (h : nodupNames es) : ∀ x ∈ sortByOrder es, x ∈ es := by
  intro x hx
  obtain ⟨r, hr, hxr⟩ := List.mem_flatMap.1 hx
  exact walk_sub (wf_of_nodupNames h) es.length r (roots_spec r hr).1 x hxr

theorem reachesRoot_up {es : List Elt} (h : nodupNames es) : ∀ n x, x ∈ es → reachesRoot es n x = true →
    ∃ j, j < n ∧ ∃ r ∈ roots es, up (parent es) j x = some r := by
  intro n
  induction n with
  | zero => intro x _ hx; simp [reachesRoot] at hx
  | succ n ih =>
    intro x hxm hx
    unfold reachesRoot at hx
    rcases (Bool.or_eq_true_iff).1 hx with hroot | hrec
    · exact ⟨0, by omega, x, mem_roots.2 ⟨hxm, hroot⟩, rfl⟩
    · cases hp : parent es x with
      | none => simp [hp] at hrec
      | some p =>
        simp only [hp] at hrec
        have hpm : p ∈ es := (wf_of_nodupNames h).closed x hxm p hp
        obtain ⟨j, hj, r, hr, hup⟩ := ih p hpm hrec
        exact ⟨j+1, by omega, r, hr, by rw [up_succ', hp]; simpa using hup⟩

/-- **C16, never loses:** when every `after`/`before` chain ends at an element with an order value,
    the output is a permutation of the input. -/
theorem sortByOrder_perm {es : List Elt} (h : nodupNames es) (ha : anchored es = true) :
    (sortByOrder es).Perm es := by
  apply perm_output (wf_of_nodupNames h) (nodup_of_nodupNames h) (roots_nodup h) roots_spec
  intro x hx
  have := List.all_eq_true.1 ha x hx
  exact reachesRoot_up h es.length x hx this

#print axioms sortByOrder_perm
#print axioms sortByOrder_nodup

/-- non-vacuity: the documentation example satisfies the hypotheses -/
example : anchored [⟨"trigram", .value (-1)⟩, ⟨"firstname", .none⟩, ⟨"lastname", .none⟩,
    ⟨"address", .after "birthdate"⟩, ⟨"birthdate", .none⟩, ⟨"age", .before "birthdate"⟩] = true := by decide

/-- the current code loses fields whose anchor is missing or cyclic (finding 17) -/
theorem C16_loses_counterexample :
    (sortByOrder [⟨"c", .none⟩, ⟨"e", .after "zzz"⟩, ⟨"f", .after "g"⟩, ⟨"g", .after "f"⟩]).map (·.name) = ["c"] := by
  decide

end Api
