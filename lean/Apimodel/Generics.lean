/-! Specialisation of generic classes (`apischema/typing.py`: `generic_mro`, `resolve_type_hints`).

A class of a single-inheritance hierarchy has its own parameters (`__parameters__`), the arguments it gives to its base (`__orig_bases__`) and the
fields it declares.  `resolveChain` is what `resolve_type_hints(X[args])` computes: walking up the hierarchy, the type arguments of each base are the
base arguments of the class below it under that class's substitution (its parameters zipped with its own arguments), and every class contributes its
declared fields under its substitution, base fields first.  Multiple inheritance and `Protocol` are outside the model. -/
namespace Api.Generics

inductive GTy where
  | var : String → GTy                 -- a type variable
  | con : String → GTy                 -- a closed type (`int`, `List[int]`, a class ...)
  | app : String → List GTy → GTy      -- `List[·]`, `Dict[str, ·]`, `Optional[·]`, `Tuple[·, ·]`
  deriving Repr, Inhabited

abbrev Subst := List (String × GTy)

def lookupS (σ : Subst) (v : String) : GTy :=
  match σ.find? (fun p => p.1 == v) with
  | some p => p.2
  | none => .var v                      -- `substitution.get(p, p)`

mutual
def subst (σ : Subst) : GTy → GTy
  | .var v => lookupS σ v
  | .con c => .con c
  | .app f as => .app f (substL σ as)
termination_by structural t => t
def substL (σ : Subst) : List GTy → List GTy
  | [] => []
  | t :: ts => subst σ t :: substL σ ts
termination_by structural ts => ts
end

mutual
def closed : GTy → Bool
  | .var _ => false
  | .con _ => true
  | .app _ as => closedL as
termination_by structural t => t
def closedL : List GTy → Bool
  | [] => true
  | t :: ts => closed t && closedL ts
termination_by structural ts => ts
end

mutual
/-- every variable of the term is one of `ps` -/
def within (ps : List String) : GTy → Bool
  | .var v => ps.contains v
  | .con _ => true
  | .app _ as => withinL ps as
termination_by structural t => t
def withinL (ps : List String) : List GTy → Bool
  | [] => true
  | t :: ts => within ps t && withinL ps ts
termination_by structural ts => ts
end

mutual
/-- Python spelling of a term (the driver's output, and what the counterexamples are stated on) -/
def render : GTy → String
  | .var v => v
  | .con c => c
  | .app f as => f ++ "[" ++ renderL as ++ "]"
termination_by structural t => t
def renderL : List GTy → String
  | [] => ""
  | t :: ts => render t ++ (if ts.isEmpty then "" else ", ") ++ renderL ts
termination_by structural ts => ts
end

def renderFields (fs : List (String × GTy)) : List (String × String) := fs.map (fun p => (p.1, render p.2))

structure GClass where
  name : String
  params : List String                  -- `__parameters__`, in the class's own order
  baseArgs : List GTy                   -- the arguments given to the base (over `params`)
  fields : List (String × GTy)          -- declared in this class (over `params`)
  deriving Repr, Inhabited

def substFields (σ : Subst) (fs : List (String × GTy)) : List (String × GTy) := fs.map (fun p => (p.1, subst σ p.2))

/-- the hierarchy from the specialised class up to the root; `args`: the type arguments of its head -/
def resolveChain : List GClass → List GTy → List (String × GTy)
  | [], _ => []
  | c :: rest, args =>
    resolveChain rest (substL (c.params.zip args) c.baseArgs) ++ substFields (c.params.zip args) c.fields

/-- well-formed class: base arguments and fields only use its parameters -/
def GClass.wf (c : GClass) : Bool := withinL c.params c.baseArgs && c.fields.all (fun p => within c.params p.2)

/-- well-formed chain: each class is well-formed and gives its base as many arguments as the base has parameters -/
def chainWf : List GClass → Bool
  | [] => true
  | [c] => c.wf
  | c :: d :: rest => c.wf && c.baseArgs.length == d.params.length && chainWf (d :: rest)

/-! the former computation: the parameters taken in their order of first appearance in the bases -/
mutual
def varsOf (acc : List String) : GTy → List String
  | .var v => if acc.contains v then acc else acc ++ [v]
  | .con _ => acc
  | .app _ as => varsOfL acc as
termination_by structural t => t
def varsOfL (acc : List String) : List GTy → List String
  | [] => acc
  | t :: ts => varsOfL (varsOf acc t) ts
termination_by structural ts => ts
end

/-- `_collect_type_parameters(origin.__orig_bases__)`: base arguments first, then an explicit `Generic[...]` (the class's own order) -/
def paramsByAppearance (c : GClass) : List String := varsOfL (varsOfL [] c.baseArgs) (c.params.map .var)

def resolveChainOld : List GClass → List GTy → List (String × GTy)
  | [], _ => []
  | c :: rest, args =>
    -- `_generic_mro` zipped the arguments with the order of appearance; `resolve_type_hints` (the fields) with `__parameters__`
    resolveChainOld rest (substL ((paramsByAppearance c).zip args) c.baseArgs) ++ substFields (c.params.zip args) c.fields

end Api.Generics

namespace Api.Generics

/-! ### fields re-annotated in a subclass

`resolve_type_hints` fills a dictionary while walking the hierarchy from the root down to the class: a name declared again in a subclass keeps the position of
its first declaration and takes the type of the *most derived* declaration. -/

/-- `hints[name] = tp` on an association list kept in insertion order -/
def setHint (hints : List (String × GTy)) (name : String) (tp : GTy) : List (String × GTy) :=
  if hints.any (fun p => p.1 == name) then hints.map (fun p => if p.1 == name then (p.1, tp) else p) else hints ++ [(name, tp)]

def hintsOf (fields : List (String × GTy)) : List (String × GTy) := fields.foldl (fun h p => setHint h p.1 p.2) []

/-- what `resolve_type_hints(X[args])` returns -/
def resolveHints (cs : List GClass) (args : List GTy) : List (String × GTy) := hintsOf (resolveChain cs args)

/-- the reading the seeded changes `C01-13` / `C13-14` produce: a name already resolved is skipped (the root's annotation wins) -/
def hintsOfFirstWins (fields : List (String × GTy)) : List (String × GTy) :=
  fields.foldl (fun h p => if h.any (fun q => q.1 == p.1) then h else h ++ [p]) []

end Api.Generics
