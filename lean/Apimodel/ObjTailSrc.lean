import Apimodel.Deser
import Apimodel.BExpr
/-! The statements that follow the field loop in `ObjectMethod.deserialize` (classes without aggregate fields), as the translator reads them. -/
namespace Api
open BExpr

inductive TAction where
  /-- every key of the data that is no alias of the class (and is not the discriminator) gets the `unexpected property` error -/
  | unexpected
  /-- ... is copied into the values unless it is the name of a declared field (TypedDict under additional_properties) -/
  | extras
  | unknown (src : String)
  deriving Repr

def tailTbl (ap td lenNeq : Bool) : List (String × Bool) :=
  [("self.aggregate_fields", false), ("len(data) != fields_count", lenNeq), ("self.additional_properties", ap), ("self.typed_dict", td), ("True", true)]

structure TailState where
  errs : List (Key × Err)
  vals : List (String × Val)
  bad : Bool := false        -- a statement the interpreter does not know

def runTAction (names aliases : List String) (kvs : List (String × Py)) (st : TailState) : TAction → TailState
  | .unexpected => { st with errs := addUnexpected (unexpectedKeys aliases kvs) st.errs }
  | .extras => { st with vals := st.vals ++ extraVals names aliases kvs }
  | .unknown _ => { st with bad := true }

def runTChain (tbl : List (String × Bool)) (names aliases : List String) (kvs : List (String × Py)) (st : TailState) :
    List (BExpr × TAction) → TailState
  | [] => st
  | (g, a) :: rest => if evalT tbl g then runTAction names aliases kvs st a else runTChain tbl names aliases kvs st rest

/-- `if self.aggregate_fields: … elif <outer>: <chain>` for a class without aggregate fields; `lenNeq` = `len(data) != fields_count` -/
def tailSrcB (agg outer : BExpr) (chain : List (BExpr × TAction)) (ap td lenNeq : Bool) (names aliases : List String) (kvs : List (String × Py))
    (st : TailState) : TailState :=
  if evalT (tailTbl ap td lenNeq) agg then { st with bad := true }
  else if evalT (tailTbl ap td lenNeq) outer then runTChain (tailTbl ap td lenNeq) names aliases kvs st chain
  else st

def tailSrc (agg outer : BExpr) (chain : List (BExpr × TAction)) (ap td : Bool) (names aliases : List String) (kvs : List (String × Py))
    (count : Nat) (st : TailState) : TailState :=
  tailSrcB agg outer chain ap td (kvs.length != count) names aliases kvs st

end Api
