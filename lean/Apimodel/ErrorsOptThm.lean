import Apimodel.ErrorsThm
/-! # C02 for `Optional[T]`: the errors of `OptionalMethod` are the violations of `T` and "expected null", own messages first

`OptionalMethod` raises `merge_errors(err, bad_type(data, NoneType))`: the messages of the value's error, then `expected type null`, then the
children of the value's error.  The specification side is `violationsOpt`; the theorem lifts any method whose errors are the specification's
(`ErrsOk`, proved for the index-keyed fragment by `errors_eq_violations`) to the `Optional` of its type. -/
namespace Api

def rootsOf (es : Errs) : Errs := es.filter (fun p => p.1.isEmpty)
def deepOf (es : Errs) : Errs := es.filter (fun p => !p.1.isEmpty)

/-- violations of a datum against `Optional[T]`: none for `null` or a datum that conforms to `T`; otherwise the violations located at the value
itself, `expected type null`, then the ones located below -/
def violationsOpt (ap : Bool) (cs : Constraints) (t : Ty) (d : Py) : Errs :=
  if d.isNull || conforms ap false cs t d then []
  else rootsOf (violations cs t d) ++ badT .null d ++ deepOf (violations cs t d)

theorem pre_nonempty (k : Key) (es : Errs) : ∀ p ∈ pre k es, p.1.isEmpty = false := by
  intro p hp; unfold pre at hp; obtain ⟨q, _, rfl⟩ := List.mem_map.1 hp; rfl

theorem flattenL_nonempty : ∀ (cs : List (Key × Err)) (p : Path × Rule), p ∈ flattenL cs → p.1.isEmpty = false
  | [], p, h => by rw [flattenL] at h; cases h
  | (k, e) :: cs, p, h => by
    rw [flattenL, List.mem_append] at h
    rcases h with h | h
    · exact pre_nonempty k _ p h
    · exact flattenL_nonempty cs p h

theorem filter_roots (ms : List Rule) (cs : List (Key × Err)) :
    rootsOf (ms.map (fun r => (([] : Path), r)) ++ flattenL cs) = ms.map (fun r => (([] : Path), r)) := by
  unfold rootsOf
  rw [List.filter_append]
  have h1 : (ms.map (fun r => (([] : Path), r))).filter (fun p => p.1.isEmpty) = ms.map (fun r => (([] : Path), r)) := by
    apply List.filter_eq_self.2; intro p hp; obtain ⟨r, _, rfl⟩ := List.mem_map.1 hp; rfl
  have h2 : (flattenL cs).filter (fun p => p.1.isEmpty) = [] := by
    apply List.filter_eq_nil_iff.2; intro p hp; simp [flattenL_nonempty cs p hp]
  rw [h1, h2, List.append_nil]

theorem filter_deep (ms : List Rule) (cs : List (Key × Err)) :
    deepOf (ms.map (fun r => (([] : Path), r)) ++ flattenL cs) = flattenL cs := by
  unfold deepOf
  rw [List.filter_append]
  have h1 : (ms.map (fun r => (([] : Path), r))).filter (fun p => !p.1.isEmpty) = [] := by
    apply List.filter_eq_nil_iff.2; intro p hp; obtain ⟨r, _, rfl⟩ := List.mem_map.1 hp; simp
  have h2 : (flattenL cs).filter (fun p => !p.1.isEmpty) = flattenL cs := by
    apply List.filter_eq_self.2; intro p hp; simp [flattenL_nonempty cs p hp]
  rw [h1, h2, List.nil_append]

theorem mergeKids_nil : ∀ (cs : List (Key × Err)), mergeKids cs [] = cs
  | [] => by rw [mergeKids]
  | (k, e) :: cs => by rw [mergeKids, mergeKids_nil cs]; rfl

/-- merging with an error that has messages only: its messages join the own messages, the children stay -/
theorem flatten_merge_msgs (e : Err) (rs : List Rule) :
    (e.merge (.ofMsgs rs)).flatten = rootsOf e.flatten ++ rs.map (fun r => (([] : Path), r)) ++ deepOf e.flatten := by
  cases e with
  | mk ms cs =>
    rw [Err.merge]
    simp only [Err.ofMsgs, Err.msgs, Err.children, addMissing, List.foldl_nil, mergeKids_nil]
    rw [Err.flatten, Err.flatten, filter_roots, filter_deep, List.map_append]

/-- **C02 for `Optional[T]`.** If `m` accepts exactly the conforming data of `T` and its errors are the violations of `T`, the errors of
`OptionalMethod(m)` on a JSON datum are: nothing for `null` or a conforming value, and otherwise the value's own messages, `expected type null,
found …`, then the value's located errors — a violation inside the value never hides behind the null alternative. -/
theorem errors_optional {m : Meth} {ap : Bool} {cs : Constraints} {t : Ty} (hm : ErrsOk m cs t)
    (hacc : ∀ d, d.wf = true → (run m d).isOk = conforms ap false cs t d) (d : Py) (hd : d.json = true) (hwf : d.wf = true) :
    (run (.optional m) d).errs = violationsOpt ap cs t d := by
  rw [run]
  unfold violationsOpt
  cases hn : d.isNull with
  | true => simp [Outcome.errs]
  | false =>
    have hv := hm.2 d hd
    have ha := hacc d hwf
    simp only [Bool.false_eq_true, if_false, Bool.false_or]
    rw [← hv, ← ha]
    cases hr : run m d with
    | ok v => simp [optionalTail, Outcome.errs, Outcome.isOk]
    | crash c =>
      have := hm.1 d (jsonX_of_json.1 d hd)
      rw [hr] at this; simp [Outcome.isCrash] at this
    | invalid e =>
      have hb : badType [.null] d = .invalid (.ofMsgs [.badType .null d.jclass?]) := rfl
      simp only [optionalTail, hb, Outcome.errs, Outcome.isOk, Bool.false_eq_true, if_false]
      rw [flatten_merge_msgs]
      have hj : ∃ c, d.jclass? = some c := by cases d <;> first | exact ⟨_, rfl⟩ | cases hd
      obtain ⟨c, hc⟩ := hj
      have hbt : badT .null d = [(([] : Path), Rule.badType .null (some c))] := by unfold badT; rw [hc]
      rw [hbt, hc]; rfl

/-- **C02, `Optional` of the index-keyed fragment**: for every type of the fragment of `errors_eq_violations` (primitives, lists, tuples, NewTypes,
annotations, any depth), every option record and every JSON datum with distinct keys, the errors `OptionalMethod` reports over the compiled
method are the specification's (acceptance by `accepts_iff_conforms`, errors by `errors_eq_violations`). -/
theorem C02_errors_optional (o : DOpts) (ho : OptsOk o) (cs : Constraints) (t : Ty) (ha : t.acc = true) (hn : t.nouq = true) (he : t.efrag = true)
    (hu : cs.unique = false) (d : Py) (hd : d.json = true) (hwf : d.wf = true) :
    (run (.optional (compile o cs t)) d).errs = violationsOpt o.additionalProperties cs t d :=
  errors_optional ((errors_eq_violations o ho).1 cs t ha hn he hu) ((accepts_iff_conforms o ho).1 cs t ha) d hd hwf

/-- non-vacuity: `Optional[int]` on a string, `Optional[List[int]]` on a list with an ill-typed element -/
example : (run (.optional .int) (.str "a")).errs = [([], .badType .int (some .str)), ([], .badType .null (some .str))] := by decide +kernel
example : violationsOpt false {} .int (.str "a") = [([], .badType .int (some .str)), ([], .badType .null (some .str))] := by decide +kernel
example : violationsOpt false {} (.list .int) (.list [.int 1, .str "a"])
    = [([], .badType .null (some .list)), ([.idx 1], .badType .int (some .str))] := by decide +kernel
example : violationsOpt false {} (.list .int) (.list [.int 1]) = [] := by decide +kernel

end Api
