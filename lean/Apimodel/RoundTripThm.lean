import Apimodel.AcceptThm
import Apimodel.Ser
/-!
# C05: deserialize ∘ serialize = id on typed values (index-keyed fragment)
-/
namespace Api

def onListVal (v : Val) (k : List Val → Bool) : Bool := match v with | .list xs => k xs | _ => false
def onTupleVal (v : Val) (k : List Val → Bool) : Bool := match v with | .tuple xs => k xs | _ => false

mutual
/-- `v` is a value of type `T` (fragment: primitives, lists, both tuple kinds, NewTypes) -/
def HasType : Ty → Val → Bool
  | .null, v => match v with | .null => true | _ => false
  | .bool, v => match v with | .bool _ => true | _ => false
  | .int, v => match v with | .int _ => true | _ => false
  | .float, v => match v with | .float _ => true | _ => false
  | .str, v => match v with | .str _ => true | _ => false
  | .list t, v => onListVal v (fun xs => xs.all (fun x => HasType t x))
  | .vtuple t, v => onTupleVal v (fun xs => xs.all (fun x => HasType t x))
  | .tuple ts, v => onTupleVal v (fun xs => hasTypeZip ts xs)
  | .newtype _ t, v => HasType t v
  | _, _ => false
termination_by structural t => t
def hasTypeZip : List Ty → List Val → Bool
  | [], [] => true
  | t :: ts, x :: xs => HasType t x && hasTypeZip ts xs
  | _, _ => false
termination_by structural ts => ts
end

/-- serializing `v` gives `j`, and deserializing `j` gives `v` back -/
def RT (so : SOpts) (m : Meth) (t : Ty) (v : Val) : Prop :=
  ∃ j, ser so t v = .ok j ∧ run m j = .ok v

theorem collect_ok (f : Py → Outcome Val) : ∀ (js : List Py) (vs : List Val) (i : Nat),
    All2 (fun j v => f j = .ok v) js vs → collect f i js = { vals := vs, errs := [], crash := Option.none }
  | _, _, _, .nil => rfl
  | _, _, i, .cons h rest => by
    rw [collect, h, collect_ok f _ _ (i+1) rest]; rfl

theorem runTuple_ok : ∀ (ms : List Meth) (js : List Py) (vs : List Val) (i : Nat),
    All2 (fun (mj : Meth × Py) v => run mj.1 mj.2 = .ok v) (ms.zip js) vs → ms.length = js.length →
    runTuple ms i js = { vals := vs, errs := [], crash := Option.none }
  | [], [], _, _, .nil, _ => by rw [runTuple]; all_goals (intros; simp_all)
  | m :: ms, j :: js, _, i, .cons h rest, hl => by
    rw [runTuple, h, runTuple_ok ms js _ (i+1) rest (by simpa using hl)]; rfl
  | [], _ :: _, _, _, _, hl => by simp at hl
  | _ :: _, [], _, _, _, hl => by simp at hl

theorem mapMO_ok {f : Val → Outcome Py} {g : Py → Outcome Val} : ∀ (vs : List Val),
    (∀ v ∈ vs, ∃ j, f v = .ok j ∧ g j = .ok v) →
    ∃ js, mapMO f vs = .ok js ∧ All2 (fun j v => g j = .ok v) js vs
  | [], _ => ⟨[], rfl, .nil⟩
  | v :: vs, h => by
    obtain ⟨j, hj, hg⟩ := h v (List.mem_cons_self ..)
    obtain ⟨js, hjs, hall⟩ := mapMO_ok vs (fun w hw => h w (List.mem_cons_of_mem _ hw))
    exact ⟨j :: js, by rw [mapMO, hj]; simp [bindO, hjs], .cons hg hall⟩

theorem listErrors_empty (js : List Py) : ({} : Constraints).listErrors js = some [] := by
  simp [Constraints.listErrors, optRule]

theorem run_list_ok {m : Meth} {js : List Py} {vs : List Val} (h : All2 (fun j v => run m j = .ok v) js vs) :
    run (.list {} m) (.list js) = .ok (.list vs) := by
  rw [run]
  simp only [onList, listErrors_empty, collect_ok _ js vs 0 h, finish]
  rfl

theorem hasNum_empty : ({} : Constraints).hasNum = false := rfl
theorem hasStr_empty : ({} : Constraints).hasStr = false := rfl

theorem run_prim_int (i : Int) : run .int (.int i) = .ok (.int i) := by
  rw [run]; simp [runInt, Constraints.numErrors, optRule, constrained]
theorem run_prim_float (f : Flt) : run (.float false) (.float f) = .ok (.float f) := by
  rw [run]; simp [runFloat, Constraints.numErrors, optRule, constrained]
theorem run_prim_str (s : String) : run .str (.str s) = .ok (.str s) := by
  rw [run]; simp [runStr, Constraints.strErrors, optRule, constrained]

/-- **C05, index-keyed fragment, copying methods.** -/
theorem roundtrip_nocopy_off (o : DOpts) (ho : OptsOk o) (hnc : o.noCopy = false) (so : SOpts) :
    (∀ cs t, cs = {} → ∀ v, HasType t v = true → RT so (compile o cs t) t v) ∧
    (∀ (fs : List (FieldInfo × Ty)), True) ∧
    (∀ cs ts, cs = {} → ∀ vs, hasTypeZip ts vs = true →
        ∃ js, serTuple so ts vs = .ok js ∧ (compileL o cs ts).length = js.length ∧
          All2 (fun (mj : Meth × Py) v => run mj.1 mj.2 = .ok v) ((compileL o cs ts).zip js) vs) := by
  have hq1 : o.quirks.floatAcceptsBool = false := by rw [ho.quirks]; rfl
  have hq2 : o.quirks.tupleDropsErrors = false := by rw [ho.quirks]; rfl
  have hsel : ∀ c m, listSel o c m = .list c m := by intro c m; unfold listSel; simp [hnc]
  apply compile.mutual_induct
  · intro cs _ v hv
    cases v <;> simp [HasType] at hv
    exact ⟨.null, by rw [ser]; rfl, by rw [compile, run]; rfl⟩
  · intro cs _ v hv
    cases v <;> simp [HasType] at hv
    exact ⟨.bool _, by rw [ser]; rfl, by rw [compile, run]; rfl⟩
  · intro cs h hc; subst hc; exact absurd h (by simp [hasNum_empty])
  · intro cs h _ v hv
    cases v <;> simp [HasType] at hv
    exact ⟨.int _, by rw [ser]; rfl, by rw [compile, if_neg h]; exact run_prim_int _⟩
  · intro cs h hc; subst hc; exact absurd h (by simp [hasNum_empty])
  · intro cs h _ v hv
    cases v <;> simp [HasType] at hv
    exact ⟨.float _, by rw [ser]; rfl, by rw [compile, if_neg h, hq1]; exact run_prim_float _⟩
  · intro cs h hc; subst hc; exact absurd h (by simp [hasStr_empty])
  · intro cs h _ v hv
    cases v <;> simp [HasType] at hv
    exact ⟨.str _, by rw [ser]; rfl, by rw [compile, if_neg h]; exact run_prim_str _⟩
  · intro cs _ v hv; simp [HasType] at hv
  · -- list
    intro cs t ih hc v hv; subst hc
    cases v <;> try (simp [HasType, onListVal] at hv; done)
    case list vs =>
      simp only [HasType, onListVal, List.all_eq_true] at hv
      obtain ⟨js, hjs, hall⟩ := mapMO_ok (f := fun x => ser so t x) (g := fun j => run (compile o {} t) j) vs
        (fun v hvm => ih rfl v (hv v hvm))
      refine ⟨.list js, ?_, ?_⟩
      · rw [ser]; simp [serColl, Val.items?, hjs, bindO]
      · rw [compile, hsel]; exact run_list_ok hall
  · intro cs t _ _ v hv; simp [HasType] at hv
  · intro cs t _ _ v hv; simp [HasType] at hv
  · -- vtuple
    intro cs t ih hc v hv; subst hc
    cases v <;> try (simp [HasType, onTupleVal] at hv; done)
    case tuple vs =>
      simp only [HasType, onTupleVal, List.all_eq_true] at hv
      obtain ⟨js, hjs, hall⟩ := mapMO_ok (f := fun x => ser so t x) (g := fun j => run (compile o {} t) j) vs
        (fun v hvm => ih rfl v (hv v hvm))
      refine ⟨.list js, ?_, ?_⟩
      · rw [ser]; simp [serColl, Val.items?, hjs, bindO]
      · rw [compile, hsel, run, run_list_ok hall]; rfl
  · -- tuple
    intro cs ts ih hc v hv; subst hc
    cases v <;> try (simp [HasType, onTupleVal] at hv; done)
    case tuple vs =>
      simp only [HasType, onTupleVal] at hv
      obtain ⟨js, hjs, hlen, hall⟩ := ih rfl vs hv
      refine ⟨.list js, ?_, ?_⟩
      · rw [ser]; simp [serTupleV, Val.items?, hjs, bindO]
      · rw [compile, hq2, run]
        simp only [onList]; unfold tupleBody
        rw [hlen]
        simp only [Nat.lt_irrefl, if_false, gt_iff_lt, listErrors_empty,
          runTuple_ok _ js vs 0 hall hlen, finish, Bool.false_eq_true]
        rfl
  · intro cs k v' _ _ _ v hv; simp [HasType] at hv
  · intro cs ts _ _ v hv; simp [HasType] at hv
  · intro cs vs _ v hv; simp [HasType] at hv
  · intro cs c ms _ v hv; simp [HasType] at hv
  · intro cs n t ih hc v hv
    rw [HasType] at hv
    obtain ⟨j, hj, hr⟩ := ih hc v hv
    exact ⟨j, by rw [ser]; exact hj, by rw [compile]; exact hr⟩
  · intro cs c t _ _ v hv; simp [HasType] at hv
  · intro cs ci fs _ _ v hv; simp [HasType] at hv
  · intro cs _ vs hv
    cases vs with
    | nil => exact ⟨[], by rw [serTuple], by rw [compileL]; rfl, by rw [compileL]; exact .nil⟩
    | cons x xs => simp [hasTypeZip] at hv
  · intro cs t ts iht ihts hc vs hv; subst hc
    cases vs with
    | nil => simp [hasTypeZip] at hv
    | cons x xs =>
      rw [hasTypeZip, Bool.and_eq_true] at hv
      obtain ⟨j, hj, hr⟩ := iht rfl x hv.1
      obtain ⟨js, hjs, hlen, hall⟩ := ihts rfl xs hv.2
      refine ⟨j :: js, ?_, ?_, ?_⟩
      · rw [serTuple, hj]; simp [bindO, hjs]
      · rw [compileL]; simp [hlen]
      · rw [compileL]; exact .cons hr hall
  · trivial
  · intros; trivial

/-- **C05, index-keyed fragment.** For every typed value of the fragment, every serialization option
    record, every deserialization option record with the two repairs — `no_copy` on or off, by
    `noCopy_independent` — serializing and deserializing gives the value back. -/
theorem C05_roundtrip_partial (o : DOpts) (ho : OptsOk o) (so : SOpts) (t : Ty) (hs : t.scope = true)
    (v : Val) (hv : HasType t v = true) :
    ∃ j, ser so t v = .ok j ∧ run (compile o {} t) j = .ok v := by
  have ho' : OptsOk { o with noCopy := false } := ⟨ho.fbod, ho.quirks⟩
  obtain ⟨j, hj, hr⟩ := (roundtrip_nocopy_off { o with noCopy := false } ho' rfl so).1 {} t rfl v hv
  refine ⟨j, hj, ?_⟩
  cases hn : o.noCopy
  · have : o = { o with noCopy := false } := by cases o; simp_all
    rw [this]; exact hr
  · have : o = { o with noCopy := true } := by cases o; simp_all
    rw [this, (noCopy_independent o).1 {} t hs j]; exact hr

example : HasType (.list (.tuple [.int, .vtuple .str])) (.list [.tuple [.int 1, .tuple [.str "a", .str "b"]]]) = true := by
  decide +kernel

end Api
