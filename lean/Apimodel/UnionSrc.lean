import Apimodel.Deser
/-!
# `DeserializationMethodVisitor.union`'s choice of method, as the translator reads it

`tools/extract.py` turns the final `if / elif / else` of the `factory` closure of `union()` into (guard, action) tokens
(`Generated.unionChain`), after checking that `alt_methods` and `method_by_cls` are built by the statements it knows.
`interpUnion` is the meaning of such a chain; `UnionSrcThm` proves it equal to the hand-written `unionSel` (strict) and
`unionSelC` (a coercer is set).
-/
namespace Api

inductive UCond where
  | classesDistinct        -- `len(method_by_cls) == len(alt_factories)`: every alternative has a class, all different
  | noFloatClass           -- `float not in method_by_cls`
  | noCoercerMethod        -- `not any(isinstance(x, CoercerMethod) for x in alt_methods)`
  | unknown (src : String)
  deriving Repr

inductive UGuard where
  | noneInTypesAndTwo      -- `NoneType in types and len(alt_methods) == 2`
  | conj (cs : List UCond)
  | otherwise
  | unknown (src : String)
  deriving Repr

inductive UAction where
  | optionalOfNonNone      -- `OptionalMethod(next(meth for fact, meth in zip(...) if fact.cls is not NoneType), self.coercer)`
  | byTypeTable            -- `UnionByTypeMethod(method_by_cls)`
  | sequential             -- `UnionMethod(alt_methods)`
  | unknown (src : String)
  deriving Repr

structure UnionCtx where
  /-- `Some env` when a coercer is set: every alternative that has a class is then a `CoercerMethod` -/
  coercer : Option CoerceEnv
  clss : List (Option JClass)
  hasNone : Bool
  ms : List Meth

def UCond.holds (x : UnionCtx) : UCond → Bool
  | .classesDistinct => (dedupCls (x.clss.filterMap id)).length == x.ms.length
  | .noFloatClass => !(x.clss.filterMap id).contains .float
  | .noCoercerMethod => !(x.coercer.isSome && x.clss.any Option.isSome)
  | .unknown _ => false

def UGuard.holds (x : UnionCtx) : UGuard → Bool
  | .noneInTypesAndTwo => x.hasNone && x.ms.length == 2
  | .conj cs => cs.all (UCond.holds x)
  | .otherwise => true
  | .unknown _ => true

def UAction.exec (x : UnionCtx) : UAction → Meth
  | .optionalOfNonNone =>
      match (x.clss.zip x.ms).find? (fun p => p.1 != some .null) with
      | some (_, m) => (match x.coercer with | some env => .optionalC env m | Option.none => .optional m)
      | Option.none => .fail "StopIteration"
  | .byTypeTable => .unionByType ((x.clss.filterMap id).zip x.ms)
  | .sequential => .union x.ms
  | .unknown src => .fail ("untranslated branch: " ++ src)

def interpUnion (chain : List (UGuard × UAction)) (x : UnionCtx) : Meth :=
  match chain with
  | [] => .fail "no branch"
  | (g, a) :: rest => if g.holds x then a.exec x else interpUnion rest x

end Api
