import Apimodel.FieldLoopSrc
import Apimodel.Generated.FieldLoop
/-! Source tie of the field loop of `ObjectMethod.deserialize` (C01, C02, C03): the chain regenerated from the working tree
(`Generated/FieldLoop.lean`), interpreted for one field, is the model's `stepField`, with the `dependent_required` error where the model's
`depViolated` / `depMissing` put it. -/
namespace Api
open BExpr

/-- the model's step, with the `missing property (required by ...)` error of an absent, non-required field at the place the source adds it -/
def stepFieldD (f : FieldInfo) (fbod : Bool) (r : Option (Outcome Val)) (reqBy : List String) (rest : FAcc) : FAcc :=
  match r with
  | Option.none =>
      if !f.required && !f.requiredBy.isEmpty && !reqBy.isEmpty
      then { rest with errs := setChild (.name f.alias) (.leaf (.missingRequiredBy reqBy)) rest.errs }
      else stepField f fbod Option.none rest
  | some x => stepField f fbod (some x) rest

/-- every atom of the chain (guards and error guards) is read by the table, and every action is a known one -/
theorem fieldLoop_covered (f : FieldInfo) (fbod p : Bool) (reqBy : List String) :
    chainCovered Generated.fieldLoop (loopTbl f fbod p reqBy) = true := by rfl

/-- C01 / C02 (source tie): the if / elif chain of the field loop is the model's step -/
theorem fieldLoop_matches_source (f : FieldInfo) (fbod : Bool) (r : Option (Outcome Val)) (reqBy : List String) (rest : FAcc) :
    stepFieldSrc Generated.fieldLoop f fbod r reqBy rest = stepFieldD f fbod r reqBy rest := by
  cases r with
  | none =>
      cases hr : f.required <;> cases hq : f.requiredBy.isEmpty <;> cases hb : reqBy.isEmpty <;>
        simp [stepFieldSrc, Generated.fieldLoop, evalT, eval, lookup, loopTbl, runAction, stepField, stepFieldD, hr, hq, hb]
  | some x =>
      cases x <;> cases hr : f.required <;> cases fbod <;>
        simp [stepFieldSrc, Generated.fieldLoop, evalT, eval, lookup, loopTbl, runAction, stepField, stepFieldD, hr]

theorem fieldLoopSimple_covered (f : FieldInfo) (fbod p : Bool) (reqBy : List String) :
    chainCovered Generated.fieldLoopSimple (loopTbl f fbod p reqBy) = true := by rfl

/-- C08 (source tie): the loop of `SimpleObjectMethod.deserialize` (selected only without fall-back and without `dependent_required`) gives the
errors, the count and the crash of the model's step; the values are not stored (the constructor receives the data) -/
theorem fieldLoopSimple_matches_source (f : FieldInfo) (r : Option (Outcome Val)) (reqBy : List String) (rest : FAcc) :
    let s := stepFieldSrc Generated.fieldLoopSimple f false r reqBy rest
    let m := stepField f false r rest
    s.errs = m.errs ∧ s.count = m.count ∧ s.crash = m.crash := by
  cases r with
  | none =>
      cases hr : f.required <;>
        simp [stepFieldSrc, Generated.fieldLoopSimple, evalT, eval, lookup, loopTbl, runAction, stepField, hr]
  | some x =>
      cases x <;> cases hr : f.required <;>
        simp [stepFieldSrc, Generated.fieldLoopSimple, evalT, eval, lookup, loopTbl, runAction, stepField, hr]

theorem requiredBy_ne_of_requiringPresent {f : FieldInfo} {kvs : List (String × Py)} (h : (requiringPresent f kvs).isEmpty = false) :
    f.requiredBy.isEmpty = false := by
  cases hq : f.requiredBy with
  | nil => rw [requiringPresent_nil hq] at h; simp at h
  | cons a l => rfl

/-- C02 (source tie): run on the data, the chain adds the `required by` error exactly on the fields the model calls `depViolated`, with the
names the model computes, and is `stepField` otherwise -/
theorem fieldLoop_dep (f : FieldInfo) (fbod : Bool) (kvs : List (String × Py)) (m : Py → Outcome Val) (rest : FAcc) :
    stepFieldSrc Generated.fieldLoop f fbod ((lookupKey kvs f.alias).map m) (requiringPresent f kvs) rest =
      if depViolated f kvs
      then { rest with errs := setChild (.name f.alias) (.leaf (.missingRequiredBy (requiringPresent f kvs))) rest.errs }
      else stepField f fbod ((lookupKey kvs f.alias).map m) rest := by
  rw [fieldLoop_matches_source]
  cases hl : lookupKey kvs f.alias with
  | some d => simp [stepFieldD, depViolated, hl]
  | none =>
      cases hr : f.required <;> cases hb : (requiringPresent f kvs).isEmpty
      · have := requiredBy_ne_of_requiringPresent hb
        simp [stepFieldD, depViolated, hl, hr, hb, this]
      · simp [stepFieldD, depViolated, hl, hr, hb]
      · simp [stepFieldD, depViolated, hl, hr, hb]
      · simp [stepFieldD, depViolated, hl, hr, hb]

end Api
