import Apimodel.Refs
/-!
# C17 (finite): the inlining builder terminates on every type graph
-/
namespace Api.Refs

def keys (r : Counts) : List String := r.map (·.1)
def Pos (r : Counts) : Prop := ∀ p ∈ r, 1 ≤ p.2

mutual
def refs : TyG → List String
  | .leaf => []
  | .ref n => [n]
  | .node ks => refsL ks
termination_by structural t => t
def refsL : List TyG → List String
  | [] => []
  | k :: ks => refs k ++ refsL ks
termination_by structural ks => ks
end

/-- position in the discovery order (length of the list when absent) -/
def rank : List String → String → Nat
  | [], _ => 0
  | k :: ks, n => if k = n then 0 else rank ks n + 1

theorem rank_lt_length : ∀ {l : List String} {n : String}, n ∈ l → rank l n < l.length
  | k :: ks, n, h => by
    rw [rank]
    by_cases hk : k = n
    · simp [hk]
    · rw [if_neg hk]
      have : n ∈ ks := by
        rcases List.mem_cons.1 h with rfl | h'
        · exact absurd rfl hk
        · exact h'
      have := rank_lt_length this
      simp; omega

theorem rank_append_mem : ∀ {l : List String} (s : List String) {n : String}, n ∈ l → rank (l ++ s) n = rank l n
  | k :: ks, s, n, h => by
    rw [List.cons_append, rank, rank]
    by_cases hk : k = n
    · simp [hk]
    · rw [if_neg hk, if_neg hk]
      have : n ∈ ks := by
        rcases List.mem_cons.1 h with rfl | h'
        · exact absurd rfl hk
        · exact h'
      rw [rank_append_mem s this]

theorem rank_append_not_mem : ∀ {l : List String} (s : List String) {n : String}, n ∉ l →
    l.length ≤ rank (l ++ s) n
  | [], s, n, _ => by simp
  | k :: ks, s, n, h => by
    rw [List.cons_append, rank]
    have hk : k ≠ n := fun hk => h (hk ▸ List.mem_cons_self ..)
    rw [if_neg hk]
    have := rank_append_not_mem s (fun hm => h (List.mem_cons_of_mem _ hm))
    simp; omega

theorem count_incr_self : ∀ (r : Counts) (n : String), count (incr r n) n = count r n + 1
  | [], n => by simp [incr, count]
  | (k, c) :: r, n => by
    rw [incr]
    by_cases hk : k = n
    · simp [hk, count]
    · simp [hk, count, count_incr_self r n]

theorem count_incr_ne : ∀ (r : Counts) {n m : String}, n ≠ m → count (incr r n) m = count r m
  | [], n, m, h => by simp [incr, count, h]
  | (k, c) :: r, n, m, h => by
    rw [incr]
    by_cases hk : k = n
    · subst hk; simp [count, h]
    · simp only [hk, if_false, count]
      by_cases hm : k = m
      · simp [hm]
      · simp [hm, count_incr_ne r h]

theorem count_le_incr (r : Counts) (n m : String) : count r m ≤ count (incr r n) m := by
  by_cases h : n = m
  · subst h; rw [count_incr_self]; omega
  · rw [count_incr_ne r h]; exact Nat.le_refl _

theorem keys_incr : ∀ (r : Counts) (n : String),
    keys (incr r n) = if n ∈ keys r then keys r else keys r ++ [n]
  | [], n => by simp [incr, keys]
  | (k, c) :: r, n => by
    rw [incr]
    by_cases hk : k = n
    · subst hk; simp [keys]
    · have ih := keys_incr r n
      simp only [keys] at ih ⊢
      simp only [hk, if_false, List.map_cons, List.mem_cons, ih]
      have hnk : ¬ n = k := fun h => hk h.symm
      simp only [hnk, false_or]
      split <;> simp_all

theorem pos_incr {r : Counts} (h : Pos r) (n : String) : Pos (incr r n) := by
  induction r with
  | nil => intro p hp; simp [incr] at hp; subst hp; exact Nat.le_refl _
  | cons a r ih =>
    obtain ⟨k, c⟩ := a
    intro p hp
    rw [incr] at hp
    by_cases hk : k = n
    · simp only [hk, if_true] at hp
      rcases List.mem_cons.1 hp with rfl | hp'
      · simp
      · exact h p (List.mem_cons_of_mem _ hp')
    · simp only [hk, if_false] at hp
      rcases List.mem_cons.1 hp with rfl | hp'
      · exact h _ (List.mem_cons_self ..)
      · exact ih (fun q hq => h q (List.mem_cons_of_mem _ hq)) p hp'

theorem count_pos_iff : ∀ {r : Counts}, Pos r → ∀ n, (0 < count r n ↔ n ∈ keys r)
  | [], _, n => by simp [count, keys]
  | (k, c) :: r, h, n => by
    have ih := count_pos_iff (r := r) (fun q hq => h q (List.mem_cons_of_mem _ hq)) n
    rw [count]
    by_cases hk : k = n
    · subst hk
      have := h (k, c) (List.mem_cons_self ..)
      simp [keys]; exact this
    · simp only [hk, if_false, keys, List.map_cons, List.mem_cons]
      have hnk : ¬ n = k := fun h => hk h.symm
      simp only [hnk, false_or]
      exact ih

/-! ### fuel: one unit per named type of the environment not yet met -/
def ekeys (e : Env) : List String := e.map (·.1)
def unvisited : Env → Counts → Nat
  | [], _ => 0
  | p :: e, r => (if p.1 ∈ keys r then 0 else 1) + unvisited e r

theorem unvisited_mono : ∀ (e : Env) {r r' : Counts}, (∀ x ∈ keys r, x ∈ keys r') →
    unvisited e r' ≤ unvisited e r
  | [], _, _, _ => Nat.le_refl _
  | p :: e, r, r', h => by
    have ih := unvisited_mono e h
    rw [unvisited, unvisited]
    by_cases hp : p.1 ∈ keys r
    · have hp' := h _ hp
      simp only [hp, hp', if_true]; omega
    · by_cases hp' : p.1 ∈ keys r'
      · simp only [hp, hp', if_true, if_false]; omega
      · simp only [hp, hp', if_false]; omega

theorem unvisited_lt : ∀ (e : Env) {r r' : Counts} {n : String}, (∀ x ∈ keys r, x ∈ keys r') →
    n ∈ ekeys e → n ∉ keys r → n ∈ keys r' → unvisited e r' < unvisited e r
  | [], _, _, _, _, hn, _, _ => by simp [ekeys] at hn
  | p :: e, r, r', n, h, hn, hr, hr' => by
    have hm := unvisited_mono e h
    rw [unvisited, unvisited]
    by_cases hpn : p.1 = n
    · subst hpn
      simp only [hr, hr', if_true, if_false]; omega
    · have hn' : n ∈ ekeys e := by
        simp only [ekeys, List.map_cons, List.mem_cons] at hn
        rcases hn with h1 | h2
        · exact absurd h1.symm hpn
        · exact h2
      have ih := unvisited_lt e h hn' hr hr'
      by_cases hp : p.1 ∈ keys r
      · have hp' := h _ hp
        simp only [hp, hp', if_true]; omega
      · by_cases hp' : p.1 ∈ keys r'
        · simp only [hp, hp', if_true, if_false]; omega
        · simp only [hp, hp', if_false]; omega

theorem body_leaf {e : Env} {n : String} (h : n ∉ ekeys e) : body e n = .leaf := by
  unfold body
  cases hf : e.find? (fun p => p.1 == n) with
  | none => rfl
  | some p =>
    exfalso
    have hm := List.mem_of_find?_eq_some hf
    have hk := List.find?_some hf
    simp at hk
    exact h (by simp only [ekeys, List.mem_map]; exact ⟨p, hm, hk⟩)

/-- what one traversal step guarantees about the counts before (`r`) and after (`r'`) -/
structure Post (e : Env) (r r' : Counts) (seen : List String) : Prop where
  pos : Pos r'
  ext : ∃ s, keys r' = keys r ++ s
  mono : ∀ n, count r n ≤ count r' n
  hit : ∀ c ∈ seen, count r c + 1 ≤ count r' c
  closed : ∀ q, q ∈ keys r' → q ∉ keys r → ∀ c ∈ refs (body e q),
    c ∈ keys r' ∧ (2 ≤ count r' c ∨ rank (keys r') q < rank (keys r') c)

theorem Post.refl {e : Env} {r : Counts} (h : Pos r) : Post e r r [] :=
  ⟨h, ⟨[], by simp⟩, fun _ => Nat.le_refl _, fun c hc => (by cases hc), fun q hq hnq => absurd hq hnq⟩

theorem Post.sub {e : Env} {r r' : Counts} {a : List String} (h : Post e r r' a) : ∀ x ∈ keys r, x ∈ keys r' := by
  obtain ⟨s, hs⟩ := h.ext
  intro x hx; rw [hs]; exact List.mem_append_left _ hx

theorem Post.trans {e : Env} {r r1 r2 : Counts} {a b : List String}
    (h1 : Post e r r1 a) (h2 : Post e r1 r2 b) : Post e r r2 (a ++ b) := by
  obtain ⟨s1, hs1⟩ := h1.ext
  obtain ⟨s2, hs2⟩ := h2.ext
  refine ⟨h2.pos, ⟨s1 ++ s2, by rw [hs2, hs1, List.append_assoc]⟩, fun n => Nat.le_trans (h1.mono n) (h2.mono n), ?_, ?_⟩
  · intro c hc
    rcases List.mem_append.1 hc with hc | hc
    · exact Nat.le_trans (h1.hit c hc) (h2.mono c)
    · have := h2.hit c hc; have := h1.mono c; omega
  · intro q hq hnq c hc
    by_cases hq1 : q ∈ keys r1
    · obtain ⟨hm, hor⟩ := h1.closed q hq1 hnq c hc
      refine ⟨h2.sub c hm, ?_⟩
      cases hor with
      | inl h => exact Or.inl (Nat.le_trans h (h2.mono c))
      | inr h => right; rw [hs2, rank_append_mem s2 hq1, rank_append_mem s2 hm]; exact h
    · exact h2.closed q hq hq1 c hc

mutual
/-- Lemma A: a traversal whose per-occurrence step satisfies `Post` satisfies `Post` on the whole tree -/
theorem walk_post {e : Env} {k : Nat} {onRef : String → Counts → Counts}
    (H : ∀ n r, Pos r → unvisited e r ≤ k → Post e r (onRef n r) [n]) :
    ∀ (t : TyG) (r : Counts), Pos r → unvisited e r ≤ k → Post e r (walk onRef t r) (refs t)
  | .leaf, r, hp, _ => by rw [walk, refs]; exact Post.refl hp
  | .ref n, r, hp, hf => by rw [walk, refs]; exact H n r hp hf
  | .node ks, r, hp, hf => by rw [walk, refs]; exact walkL_post H ks r hp hf
theorem walkL_post {e : Env} {k : Nat} {onRef : String → Counts → Counts}
    (H : ∀ n r, Pos r → unvisited e r ≤ k → Post e r (onRef n r) [n]) :
    ∀ (ks : List TyG) (r : Counts), Pos r → unvisited e r ≤ k → Post e r (walkL onRef ks r) (refsL ks)
  | [], r, hp, _ => by rw [walkL, refsL]; exact Post.refl hp
  | t :: ks, r, hp, hf => by
    rw [walkL, refsL]
    have h1 := walk_post H t r hp hf
    have hf1 : unvisited e (walk onRef t r) ≤ k := Nat.le_trans (unvisited_mono e h1.sub) hf
    exact Post.trans h1 (walkL_post H ks _ h1.pos hf1)
end

theorem post_seen {e : Env} {r : Counts} {n : String} (hp : Pos r) (hn : n ∈ keys r) : Post e r (incr r n) [n] := by
  have hk : keys (incr r n) = keys r := by rw [keys_incr, if_pos hn]
  refine ⟨pos_incr hp n, ⟨[], by rw [hk]; simp⟩, count_le_incr r n, ?_, ?_⟩
  · intro c hc; simp at hc; subst hc; rw [count_incr_self]; exact Nat.le_refl _
  · intro q hq hnq; rw [hk] at hq; exact absurd hq hnq

theorem post_new_terminal {e : Env} {r : Counts} {n : String} (hp : Pos r) (hn : n ∉ keys r)
    (hb : refs (body e n) = []) : Post e r (incr r n) [n] := by
  have hk : keys (incr r n) = keys r ++ [n] := by rw [keys_incr, if_neg hn]
  refine ⟨pos_incr hp n, ⟨[n], hk⟩, count_le_incr r n, ?_, ?_⟩
  · intro c hc; simp at hc; subst hc; rw [count_incr_self]; exact Nat.le_refl _
  · intro q hq hnq c hc
    rw [hk] at hq
    rcases List.mem_append.1 hq with h | h
    · exact absurd h hnq
    · simp at h; subst h; rw [hb] at hc; cases hc

/-- Lemma B: visiting a named occurrence -/
theorem visit_post (e : Env) : ∀ (k : Nat) (n : String) (r : Counts), Pos r → unvisited e r ≤ k →
    Post e r (visitN e k n r) [n]
  | 0, n, r, hp, hf => by
    rw [visitN]
    by_cases hn : n ∈ keys r
    · exact post_seen hp hn
    · apply post_new_terminal hp hn
      by_cases he : n ∈ ekeys e
      · -- impossible: an unvisited name of the environment needs fuel
        exfalso
        have hk : keys (incr r n) = keys r ++ [n] := by rw [keys_incr, if_neg hn]
        have := unvisited_lt e (r := r) (r' := incr r n) (fun x hx => by rw [hk]; exact List.mem_append_left _ hx)
          he hn (by rw [hk]; simp)
        omega
      · rw [body_leaf he, refs]
  | k+1, n, r, hp, hf => by
    rw [visitN]
    by_cases hn : n ∈ keys r
    · rw [if_pos ((count_pos_iff hp n).2 hn)]; exact post_seen hp hn
    · have hc0 : ¬ (0 < count r n) := fun h => hn ((count_pos_iff hp n).1 h)
      rw [if_neg (by simpa using hc0)]
      have hk1 : keys (incr r n) = keys r ++ [n] := by rw [keys_incr, if_neg hn]
      by_cases he : n ∈ ekeys e
      · have hsub : ∀ x ∈ keys r, x ∈ keys (incr r n) := fun x hx => by rw [hk1]; exact List.mem_append_left _ hx
        have hlt := unvisited_lt e hsub he hn (by rw [hk1]; simp)
        have P1 := walk_post (fun n' r' hp' hf' => visit_post e k n' r' hp' hf') (body e n) (incr r n) (pos_incr hp n)
          (by omega)
        obtain ⟨s', hs'⟩ := P1.ext
        refine ⟨P1.pos, ⟨[n] ++ s', by rw [hs', hk1, List.append_assoc]⟩,
          fun m => Nat.le_trans (count_le_incr r n m) (P1.mono m), ?_, ?_⟩
        · intro c hc; simp at hc; subst hc
          have := P1.mono c; rw [count_incr_self] at this; exact this
        · intro q hq hnq c hc
          by_cases hqn : q = n
          · subst hqn
            have hitc := P1.hit c hc
            have hck : c ∈ keys (walk (visitN e k) (body e q) (incr r q)) :=
              (count_pos_iff P1.pos c).1 (by omega)
            refine ⟨hck, ?_⟩
            by_cases hc1 : c ∈ keys (incr r q)
            · left
              have := (count_pos_iff (pos_incr hp q) c).2 hc1
              omega
            · right
              have hq1 : q ∈ keys (incr r q) := by rw [hk1]; simp
              rw [hs', rank_append_mem s' hq1]
              have h1 := rank_lt_length hq1
              have h2 := rank_append_not_mem s' hc1
              omega
          · have hq1 : q ∉ keys (incr r n) := by
              rw [hk1]; intro h
              rcases List.mem_append.1 h with h | h
              · exact hnq h
              · simp at h; exact hqn h
            exact P1.closed q hq hq1 c hc
      · have hb : body e n = .leaf := body_leaf he
        rw [hb, walk]
        exact post_new_terminal hp hn (by rw [hb, refs])

theorem unvisited_le_length : ∀ (e : Env) (r : Counts), unvisited e r ≤ e.length
  | [], _ => Nat.le_refl _
  | p :: e, r => by
    have := unvisited_le_length e r
    rw [unvisited]; split <;> simp <;> omega

/-- the final counts: every reachable name is closed under the discovery order -/
theorem extract_post (e : Env) (root : TyG) : Post e [] (extract e root) (refs root) :=
  walk_post (fun n r hp hf => visit_post e e.length n r hp hf) root []
    (fun p hp => by cases hp) (unvisited_le_length e [])

/-! ### the builder -/
mutual
theorem buildT_isSome {onRef : String → Option SchG} :
    ∀ (t : TyG), (∀ c ∈ refs t, (onRef c).isSome = true) → (buildT onRef t).isSome = true
  | .leaf, _ => by rw [buildT]; rfl
  | .ref n, h => by rw [buildT]; exact h n (by rw [refs]; simp)
  | .node ks, h => by
    rw [buildT]
    have := buildTL_isSome ks (by rw [refs] at h; exact h)
    cases hl : buildTL onRef ks with
    | none => rw [hl] at this; cases this
    | some ss => rfl
theorem buildTL_isSome {onRef : String → Option SchG} :
    ∀ (ks : List TyG), (∀ c ∈ refsL ks, (onRef c).isSome = true) → (buildTL onRef ks).isSome = true
  | [], _ => by rw [buildTL]; rfl
  | k :: ks, h => by
    rw [buildTL]
    rw [refsL] at h
    have h1 := buildT_isSome k (fun c hc => h c (List.mem_append_left _ hc))
    have h2 := buildTL_isSome ks (fun c hc => h c (List.mem_append_right _ hc))
    cases ha : buildT onRef k with
    | none => rw [ha] at h1; cases h1
    | some s =>
      cases hb : buildTL onRef ks with
      | none => rw [hb] at h2; cases h2
      | some ss => rfl
end

theorem buildN_sel {sel : List String} {e : Env} {c : String} (h : sel.contains c = true) :
    ∀ k, (buildN sel e k c).isSome = true
  | 0 => by rw [buildN, if_pos h]; rfl
  | k+1 => by rw [buildN, if_pos h]; rfl

/-- along inlinings the discovery rank strictly increases, so `|keys| - rank` units of fuel suffice -/
theorem buildN_terminates {e : Env} {R : Counts} {sel : List String}
    (hclosed : ∀ q ∈ keys R, ∀ c ∈ refs (body e q),
        c ∈ keys R ∧ (2 ≤ count R c ∨ rank (keys R) q < rank (keys R) c))
    (hsel : ∀ c ∈ keys R, 2 ≤ count R c → sel.contains c = true) :
    ∀ (fuel : Nat) (q : String), q ∈ keys R → (keys R).length - rank (keys R) q ≤ fuel →
      (buildN sel e fuel q).isSome = true
  | 0, q, hq, hf => by have := rank_lt_length hq; omega
  | f+1, q, hq, hf => by
    rw [buildN]
    split
    · rfl
    · apply buildT_isSome
      intro c hc
      obtain ⟨hck, hor⟩ := hclosed q hq c hc
      cases hor with
      | inl h2 => exact buildN_sel (hsel c hck h2) f
      | inr hlt =>
        have := rank_lt_length hck
        exact buildN_terminates hclosed hsel f c hck (by omega)

theorem selected_spec {allRefs : Bool} {R : Counts} {c : String} (hc : c ∈ keys R) (h2 : 2 ≤ count R c) :
    (selected allRefs R).contains c = true := by
  unfold selected
  simp only [List.contains_eq_mem, decide_eq_true_eq, List.mem_filter]
  refine ⟨hc, ?_⟩
  simp; right; omega

theorem selected_sub {allRefs : Bool} {R : Counts} {n : String} (h : n ∈ selected allRefs R) : n ∈ keys R := by
  unfold selected at h
  exact (List.mem_filter.1 h).1

/-- **C17 (finite).** On every type graph — shared, nested, recursive — the main schema and every
    definition are produced: the inlining builder never runs out of its `|names| + 1` units of fuel, i.e. the
    real builder does not recurse for ever. -/
theorem C17_finite (e : Env) (root : TyG) (allRefs : Bool) :
    (schema e root allRefs).main.isSome = true ∧
    ∀ p ∈ (schema e root allRefs).defs, p.2.isSome = true := by
  have P := extract_post e root
  have hclosed : ∀ q ∈ keys (extract e root), ∀ c ∈ refs (body e q),
      c ∈ keys (extract e root) ∧ (2 ≤ count (extract e root) c ∨
        rank (keys (extract e root)) q < rank (keys (extract e root)) c) :=
    fun q hq c hc => P.closed q hq (by simp [keys]) c hc
  have hsel : ∀ c ∈ keys (extract e root), 2 ≤ count (extract e root) c →
      (selected allRefs (extract e root)).contains c = true := fun c hc h2 => selected_spec hc h2
  have hlen : (keys (extract e root)).length = (extract e root).length := by simp [keys]
  have hT : ∀ c ∈ keys (extract e root),
      (buildN (selected allRefs (extract e root)) e ((extract e root).length + 1) c).isSome = true := by
    intro c hc
    apply buildN_terminates hclosed hsel _ c hc
    omega
  simp only [schema]
  refine ⟨buildT_isSome root (fun c hc => hT c ?_), ?_⟩
  · have := P.hit c hc
    exact (count_pos_iff P.pos c).1 (by omega)
  · intro p hp
    rw [List.mem_map] at hp
    obtain ⟨n, hn, rfl⟩ := hp
    exact buildT_isSome _ (fun c hc => hT c (hclosed n (selected_sub hn) c hc).1)

/-- a self-referential class and a two-cycle: both get definitions, and the builder stops -/
example : ((schema [("A", .node [.ref "A", .leaf])] (.ref "A") false).defs.map (·.1)) = ["A"] := by decide
example : ((schema [("A", .node [.ref "B"]), ("B", .node [.node [.ref "A", .leaf]])] (.ref "A") false).defs.map (·.1))
    = ["A"] := by decide

/-! ### each named type is defined once -/
mutual
theorem walk_inv {I : Counts → Prop} {onRef : String → Counts → Counts} (H : ∀ n r, I r → I (onRef n r)) :
    ∀ (t : TyG) (r : Counts), I r → I (walk onRef t r)
  | .leaf, r, h => by rw [walk]; exact h
  | .ref n, r, h => by rw [walk]; exact H n r h
  | .node ks, r, h => by rw [walk]; exact walkL_inv H ks r h
theorem walkL_inv {I : Counts → Prop} {onRef : String → Counts → Counts} (H : ∀ n r, I r → I (onRef n r)) :
    ∀ (ks : List TyG) (r : Counts), I r → I (walkL onRef ks r)
  | [], r, h => by rw [walkL]; exact h
  | t :: ks, r, h => by rw [walkL]; exact walkL_inv H ks _ (walk_inv H t r h)
end

theorem nodup_incr {r : Counts} (h : (keys r).Nodup) (n : String) : (keys (incr r n)).Nodup := by
  rw [keys_incr]
  split
  · exact h
  · next hn =>
    rw [List.nodup_append]
    refine ⟨h, by simp, ?_⟩
    intro a ha b hb; simp at hb; subst hb; intro hab; subst hab; exact hn ha

theorem visitN_nodup (e : Env) : ∀ (k : Nat) (n : String) (r : Counts), (keys r).Nodup → (keys (visitN e k n r)).Nodup
  | 0, n, r, h => by rw [visitN]; exact nodup_incr h n
  | k+1, n, r, h => by
    rw [visitN]
    split
    · exact nodup_incr h n
    · exact walk_inv (I := fun r => (keys r).Nodup) (fun n' r' h' => visitN_nodup e k n' r' h') _ _ (nodup_incr h n)

/-- **C17 (once).** `$defs` has one entry per name. -/
theorem C17_once (e : Env) (root : TyG) (allRefs : Bool) : ((schema e root allRefs).defs.map (·.1)).Nodup := by
  have hk : (keys (extract e root)).Nodup :=
    walk_inv (I := fun r => (keys r).Nodup) (fun n r h => visitN_nodup e e.length n r h) root [] (by simp [keys])
  simp only [schema, List.map_map]
  have : (List.map ((fun x => x.1) ∘ fun n => (n, buildT (buildN (selected allRefs (extract e root)) e ((extract e root).length + 1)) (body e n)))
      (selected allRefs (extract e root))) = selected allRefs (extract e root) := by
    simp [Function.comp_def]
  rw [this]
  unfold selected
  exact hk.sublist List.filter_sublist

/-- **C17 (`all_refs`).** With `all_refs` every name met is defined; without it, exactly those met more than once. -/
theorem C17_all_refs (e : Env) (root : TyG) (n : String) :
    (n ∈ selected true (extract e root) ↔ n ∈ keys (extract e root)) ∧
    (n ∈ selected false (extract e root) ↔ n ∈ keys (extract e root) ∧ 2 ≤ count (extract e root) n) := by
  unfold selected
  constructor
  · simp [keys]
  · simp only [List.mem_filter, keys, Bool.false_or, decide_eq_true_eq]
    constructor <;> intro h <;> exact ⟨h.1, by omega⟩

end Api.Refs
