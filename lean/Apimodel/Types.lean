import Apimodel.Basic
/-!
# Type grammar, options, typed values
-/
namespace Api

/-- a compiled start-anchored pattern from the harness's small regex language -/
inductive Pat where
  | prefix_ (s : String)           -- `^s`
  | lower                          -- `^[a-z]+$`
  | anyOf (alts : List String)     -- `^(a|b|c)$`
  deriving DecidableEq, Repr, Inhabited

def Pat.source : Pat → String
  | .prefix_ s => "^" ++ s
  | .lower => "^[a-z]+$"
  | .anyOf alts => "^(" ++ "|".intercalate alts ++ ")$"

def Pat.isMatch : Pat → String → Bool
  | .prefix_ p, s => p.isPrefixOf s
  | .lower, s => !s.isEmpty && s.all Char.isLower
  | .anyOf alts, s => alts.contains s

/-- `apischema.constraints.Constraints` -/
structure Constraints where
  min : Option Num := none
  max : Option Num := none
  excMin : Option Num := none
  excMax : Option Num := none
  multOf : Option Num := none
  minLen : Option Nat := none
  maxLen : Option Nat := none
  pattern : Option Pat := none
  minItems : Option Nat := none
  maxItems : Option Nat := none
  unique : Bool := false
  minProps : Option Nat := none
  maxProps : Option Nat := none
  deriving DecidableEq, Repr, Inhabited

def Constraints.empty : Constraints := {}

/-- default of a non-required field (value or factory result) -/
inductive Dflt where
  | lit (l : Lit) | emptyList | emptyDict
  deriving DecidableEq, Repr, Inhabited

/-- field of an object type, with everything deserialization looks at -/
structure FieldInfo where
  name : String
  /-- external name: dynamic aliaser ∘ class aliaser ∘ alias -/
  alias : String
  required : Bool
  /-- field-level `fall_back_on_default` (the option is or-ed in by `compile`) -/
  fbod : Bool := false
  dflt : Option Dflt := none
  /-- `dependent_required`: external names of the fields that require this one (`ObjectField.required_by`) -/
  requiredBy : List String := []
  deriving DecidableEq, Repr, Inhabited

inductive ObjKind where
  | dataclass | namedTuple | typedDict
  deriving DecidableEq, Repr, Inhabited

structure ClassInfo where
  name : String
  kind : ObjKind := .dataclass
  /-- `is_raw_dataclass(cls)` -/
  raw : Bool := true
  deriving DecidableEq, Repr, Inhabited

/-- finite type trees -/
inductive Ty where
  | null | bool | int | float | str
  | any
  | list (t : Ty) | set (t : Ty) | frozenset (t : Ty) | vtuple (t : Ty)
  | tuple (ts : List Ty)
  | mapping (k v : Ty)
  | union (ts : List Ty)
  | literal (vs : List Lit)
  | enum (cls : String) (members : List (String × Lit))
  | newtype (name : String) (t : Ty)
  | ann (c : Constraints) (t : Ty)
  | obj (c : ClassInfo) (fields : List (FieldInfo × Ty))
  deriving Repr, Inhabited

/-- known deviations of the code from the properties; `current` mirrors the pinned tree, each flag is
    cleared when the corresponding `fix:` commit lands -/
structure Quirks where
  /-- `TupleMethod` drops the result of `set_child_error` -/
  tupleDropsErrors : Bool := true
  /-- `FloatMethod` accepts `bool` through `isinstance(data, int)` -/
  floatAcceptsBool : Bool := true
  deriving DecidableEq, Repr, Inhabited

def Quirks.current : Quirks := {}
def Quirks.repaired : Quirks := { tupleDropsErrors := false, floatAcceptsBool := false }

/-- options of `deserialize` that the model covers -/
structure DOpts where
  additionalProperties : Bool := false
  fallBackOnDefault : Bool := false
  noCopy : Bool := true
  overrideCtor : Bool := false
  coerce : Bool := false
  quirks : Quirks := {}
  deriving DecidableEq, Repr, Inhabited

/-- typed result values (runtime class + content) -/
inductive Val where
  | null | bool (b : Bool) | int (i : Int) | float (f : Flt) | str (s : String)
  | list (xs : List Val) | tuple (xs : List Val)
  | set (xs : List Val) | frozenset (xs : List Val)
  | dict (kvs : List (Val × Val))
  /-- class instance; only the fields given in the data (defaults are the constructor's business) -/
  | obj (cls : String) (fields : List (String × Val))
  /-- NamedTuple instance (a `tuple`: hashable when its items are) -/
  | ntuple (cls : String) (fields : List (String × Val))
  | enumMember (cls : String) (member : String)
  /-- a non-JSON object returned as is (`Any`) -/
  | other (cls : String)
  deriving Repr, Inhabited

end Api
