import Apimodel.Aggregate
import Apimodel.Generated.AggSrc
/-! Theorems on the attribution of keys to aggregate fields (C01: "no unexpected property unless allowed", pattern / additional properties).

* `patLoop_first`: a key goes to pattern field `i` iff it was still unattributed and `i` is the *first* pattern that matches it;
* `patLoop_remain`: what is left matches no pattern;
* `patLoop_cover` / `patLoop_disjoint`: nothing is lost, nothing is attributed twice;
* `flatLoop_remain`: what the flattened fields leave is what none of them declares (among the keys of the datum);
* `attribute_unexpected`: without an additional-properties field, the unexpected keys are exactly the keys that are no alias, belong to no flattened
  class and match no pattern - and with one there is none. -/
namespace Api.Agg

theorem mem_sub {xs ys : List String} {k : String} : k ∈ sub xs ys ↔ k ∈ xs ∧ k ∉ ys := by
  simp [sub, List.mem_filter]

theorem patLoop_remain : ∀ (ps : List (String → Bool)) (r : List String) (k : String),
    k ∈ (patLoop ps r).2 ↔ k ∈ r ∧ ∀ p ∈ ps, p k = false
  | [], r, k => by simp [patLoop]
  | p :: ps, r, k => by
    simp only [patLoop]
    rw [patLoop_remain ps _ k]
    simp only [List.mem_filter, Bool.not_eq_true', List.mem_cons, forall_eq_or_imp]
    constructor
    · rintro ⟨⟨h1, h2⟩, h3⟩; exact ⟨h1, h2, h3⟩
    · rintro ⟨h1, h2, h3⟩; exact ⟨⟨h1, h2⟩, h3⟩

theorem firstIdx_none {ps : List (String → Bool)} {k : String} : firstIdx ps k = none ↔ ∀ p ∈ ps, p k = false := by
  induction ps with
  | nil => simp [firstIdx]
  | cons p ps ih =>
    simp only [firstIdx, List.mem_cons, forall_eq_or_imp]
    cases hp : p k with
    | true => simp
    | false => simp [ih]

/-- first match: the `i`-th group is made of the unattributed keys whose first matching pattern is the `i`-th -/
theorem patLoop_first : ∀ (ps : List (String → Bool)) (r : List String) (i : Nat) (k : String),
    (∃ g, (patLoop ps r).1[i]? = some g ∧ k ∈ g) ↔ k ∈ r ∧ firstIdx ps k = some i
  | [], r, i, k => by simp [patLoop, firstIdx]
  | p :: ps, r, 0, k => by
    simp only [patLoop, List.getElem?_cons_zero, Option.some.injEq, exists_eq_left', List.mem_filter, firstIdx]
    cases hp : p k with
    | true => simp
    | false =>
      simp only [Bool.false_eq_true, and_false, if_false, false_iff, not_and]
      intro _ h
      cases hf : firstIdx ps k with
      | none => simp [hf] at h
      | some j => simp [hf] at h
  | p :: ps, r, i + 1, k => by
    simp only [patLoop, List.getElem?_cons_succ, firstIdx]
    rw [patLoop_first ps _ i k]
    simp only [List.mem_filter, Bool.not_eq_true']
    cases hp : p k with
    | true => simp
    | false =>
      simp only [and_true, Bool.false_eq_true, if_false]
      cases hf : firstIdx ps k with
      | none => simp
      | some j => simp

/-- nothing is lost -/
theorem patLoop_cover (ps : List (String → Bool)) (r : List String) (k : String) :
    k ∈ r ↔ (k ∈ (patLoop ps r).2 ∨ ∃ (i : Nat) (g : List String), (patLoop ps r).1[i]? = some g ∧ k ∈ g) := by
  constructor
  · intro hk
    cases hf : firstIdx ps k with
    | none => exact Or.inl ((patLoop_remain ps r k).2 ⟨hk, firstIdx_none.1 hf⟩)
    | some i => exact Or.inr ⟨i, (patLoop_first ps r i k).2 ⟨hk, hf⟩⟩
  · rintro (h | ⟨i, h⟩)
    · exact ((patLoop_remain ps r k).1 h).1
    · exact ((patLoop_first ps r i k).1 h).1

/-- nothing is attributed twice: a key of a group is not left over, and belongs to no other group -/
theorem patLoop_disjoint (ps : List (String → Bool)) (r : List String) (k : String) (i : Nat)
    (h : ∃ g, (patLoop ps r).1[i]? = some g ∧ k ∈ g) :
    k ∉ (patLoop ps r).2 ∧ ∀ j, (∃ g, (patLoop ps r).1[j]? = some g ∧ k ∈ g) → j = i := by
  have hi := (patLoop_first ps r i k).1 h
  constructor
  · intro hr
    have := firstIdx_none.2 ((patLoop_remain ps r k).1 hr).2
    rw [this] at hi; exact absurd hi.2 (by simp)
  · intro j hj
    have hj' := (patLoop_first ps r j k).1 hj
    rw [hi.2] at hj'; exact (Option.some.inj hj'.2).symm

theorem flatLoop_remain (keys : List String) : ∀ (fls : List (List String)) (r : List String) (k : String),
    k ∈ (flatLoop keys fls r).2 ↔ k ∈ r ∧ ∀ fl ∈ fls, ¬ (k ∈ fl ∧ k ∈ keys)
  | [], r, k => by simp [flatLoop]
  | fl :: fls, r, k => by
    simp only [flatLoop]
    rw [flatLoop_remain keys fls _ k, mem_sub]
    simp only [List.mem_filter, List.contains_iff_mem, List.mem_cons, forall_eq_or_imp, decide_eq_true_eq]
    constructor
    · rintro ⟨⟨h1, h2⟩, h3⟩; exact ⟨h1, h2, h3⟩
    · rintro ⟨h1, h2, h3⟩; exact ⟨⟨h1, h2⟩, h3⟩

/-- what the flattened fields take: the keys of the datum among their own aliases (whatever the earlier fields took) -/
theorem flatLoop_takes (keys : List String) : ∀ (fls : List (List String)) (r : List String) (i : Nat) (k : String),
    (∃ g, (flatLoop keys fls r).1[i]? = some g ∧ k ∈ g) ↔ ∃ fl, fls[i]? = some fl ∧ k ∈ fl ∧ k ∈ keys
  | [], r, i, k => by simp [flatLoop]
  | fl :: fls, r, 0, k => by simp [flatLoop, List.mem_filter]
  | fl :: fls, r, i + 1, k => by
    simp only [flatLoop, List.getElem?_cons_succ]
    exact flatLoop_takes keys fls _ i k

/-- C01 (aggregate part): the unexpected keys -/
theorem attrib_unexpected (s : Spec) (pats : List (String → Bool)) (keys : List String) (k : String) :
    k ∈ (attrib s pats keys).unexpected ↔
      s.additional = false ∧ k ∈ keys ∧ k ∉ s.aliases ∧ (∀ fl ∈ s.flattened, k ∉ fl) ∧ ∀ p ∈ pats, p k = false := by
  unfold attrib
  cases s.additional with
  | true => simp
  | false =>
    simp only [Bool.false_eq_true, if_false, true_and]
    rw [patLoop_remain, flatLoop_remain, mem_sub]
    constructor
    · rintro ⟨⟨⟨h1, h2⟩, h3⟩, h4⟩
      exact ⟨h1, h2, fun fl hfl hk => h3 fl hfl ⟨hk, h1⟩, h4⟩
    · rintro ⟨h1, h2, h3, h4⟩
      exact ⟨⟨⟨h1, h2⟩, fun fl hfl hk => h3 fl hfl hk.1⟩, h4⟩

/-- ... and the keys given to the additional-properties field are those same keys -/
theorem attrib_additional (s : Spec) (pats : List (String → Bool)) (keys : List String) (k : String) (h : s.additional = true) :
    (∃ g, (attrib s pats keys).additional = some g ∧ k ∈ g) ↔
      k ∈ keys ∧ k ∉ s.aliases ∧ (∀ fl ∈ s.flattened, k ∉ fl) ∧ ∀ p ∈ pats, p k = false := by
  unfold attrib
  simp only [h, if_true, Option.some.injEq, exists_eq_left']
  rw [patLoop_remain, flatLoop_remain, mem_sub]
  constructor
  · rintro ⟨⟨⟨h1, h2⟩, h3⟩, h4⟩
    exact ⟨h1, h2, fun fl hfl hk => h3 fl hfl ⟨hk, h1⟩, h4⟩
  · rintro ⟨h1, h2, h3, h4⟩
    exact ⟨⟨⟨h1, h2⟩, fun fl hfl hk => h3 fl hfl hk.1⟩, h4⟩

/-- non-vacuity: two overlapping patterns (`^p_x` before `^p_`), a flattened class declaring `x` and `p_z`, no additional field -/
example :
    let a := attrib { aliases := ["a"], flattened := [["x", "p_z"]], additional := false }
      [fun k => k.startsWith "p_x", fun k => k.startsWith "p_"] ["a", "p_x1", "p_y", "p_z", "zz", "x"]
    a.flattened = [["x", "p_z"]] ∧ a.matched = [["p_x1"], ["p_y"]] ∧ a.unexpected = ["zz"] := by decide +kernel

/-- Source tie: the aggregate branch of the working tree is the three steps of `attrib`, in this order - the flattened fields read the *datum*
(`if alias in data`) and remove what they took from `remain`; the pattern fields read `remain` and remove what they matched; the additional field takes
`remain`; otherwise (`elif remain`) what is left is unexpected - starting from `data.keys() - self.all_aliases`. -/
theorem agg_steps_pinned :
    Generated.agg_remain0 = "data.keys() - self.all_aliases" ∧
    Generated.agg_steps = [
      ["for flattened_field in self.flattened_fields", "{alias: data[alias] for alias in flattened_field.aliases if alias in data}", "remain.difference_update(flattened)"],
      ["for pattern_field in self.pattern_fields", "{key: data[key] for key in remain if pattern_field.pattern.match(key)}", "remain.difference_update(matched)"],
      ["if self.additional_field is not None", "{key: data[key] for key in remain}", "NONE", "elif remain"]] := by
  refine ⟨?_, ?_⟩ <;> decide +kernel

end Api.Agg
