import Apimodel.PyEq
/-!
# Serialization (stage 1): result of the compiled `SerializationMethod` on a typed value.
Options: exclude_none, exclude_defaults, additional_properties (TypedDict), aliases precomputed.
No conversions, serialized methods, pass-through options, check_type.
-/
namespace Api

structure SOpts where
  excludeNone : Bool := false
  excludeDefaults : Bool := false
  additionalProperties : Bool := false
  deriving DecidableEq, Repr, Inhabited

/-- field description used by serialization -/
structure SField where
  name : String
  alias : String
  required : Bool
  dflt : Option Dflt := none
  /-- `is_union_of(field.type, NoneType)` -/
  optional : Bool := false
  deriving DecidableEq, Repr, Inhabited

/-- runtime class test used by union alternatives (`expected_class`) -/
inductive RClass where
  | none | bool | int | float | str | list | tuple | set | frozenset | collection | mapping
  | cls (name : String) | enumCls (name : String) | object
  deriving DecidableEq, Repr, Inhabited

def Val.isInstance : Val → RClass → Bool
  | _, .object => true
  | .null, .none => true
  | .bool _, .bool => true
  | .bool _, .int => true               -- `bool` is a subclass of `int`
  | .int _, .int => true
  | .float _, .float => true
  | .str _, .str => true
  | .list _, .list => true
  | .tuple _, .tuple => true
  | .ntuple _ _, .tuple => true
  | .set _, .set => true
  | .frozenset _, .frozenset => true
  | .list _, .collection | .tuple _, .collection | .ntuple _ _, .collection
  | .set _, .collection | .frozenset _, .collection => true
  | .dict _, .mapping => true
  | .obj c _, .cls c' => c == c'
  | .ntuple c _, .cls c' => c == c'
  | .enumMember c _, .enumCls c' => c == c'
  | _, _ => false

/-- JSON-shaped output, as `Py` -/
abbrev JOut := Py

def litToPy : Lit → Py
  | .null => .null | .bool b => .bool b | .int i => .int i | .float f => .float f | .str s => .str s

/-- a value that is already JSON data, returned as is (`IdentityMethod`) -/
def valAtom? : Val → Option Py
  | .null => some .null | .bool b => some (.bool b) | .int i => some (.int i)
  | .float f => some (.float f) | .str s => some (.str s)
  | _ => Option.none

def Dflt.toPyVal (d : Dflt) : Val :=
  match d with
  | .lit .null => .null | .lit (.bool b) => .bool b | .lit (.int i) => .int i
  | .lit (.float f) => .float f | .lit (.str s) => .str s
  | .emptyList => .list [] | .emptyDict => .dict []

/-- `ComplexField.update_result`'s decision for one field value (no skip_if / Undefined / unset) -/
def omitted (o : SOpts) (f : SField) (v : Val) : Bool :=
  let dfltNone := f.dflt == some (.lit .null)
  let skipNone := (f.optional && o.excludeNone) || (dfltNone && o.excludeDefaults)
  let skipDefault := o.excludeDefaults && f.dflt.isSome && !dfltNone
  (skipNone && (v matches .null)) ||
  (skipDefault && (match f.dflt with | some d => v.pyEq d.toPyVal | Option.none => false))

end Api

namespace Api

mutual
/-- the Python object itself, seen as data (what `IdentityMethod` returns) -/
def rawPy : Val → Py
  | .null => .null | .bool b => .bool b | .int i => .int i | .float f => .float f | .str s => .str s
  | .list xs => .list (rawPyL xs)
  | .tuple _ => .other "tuple"
  | .set _ => .other "set"
  | .frozenset _ => .other "frozenset"
  | .dict kvs => .dictNS (rawPyK kvs)
  | .obj c _ => .other c
  | .ntuple c _ => .other c
  | .enumMember c _ => .other c
  | .other c => .other c
termination_by structural v => v
def rawPyL : List Val → List Py
  | [] => []
  | x :: xs => rawPy x :: rawPyL xs
termination_by structural xs => xs
def rawPyK : List (Val × Val) → List (Py × Py)
  | [] => []
  | (k, v) :: kvs => (rawPy k, rawPy v) :: rawPyK kvs
termination_by structural kvs => kvs
end

/-- a dict result with string keys when possible -/
def mkDict (kvs : List (Py × Py)) : Py :=
  if kvs.all (fun kv => match kv.1 with | .str _ => true | _ => false)
  then .dict (kvs.filterMap (fun kv => match kv.1 with | .str s => some (s, kv.2) | _ => Option.none))
  else .dictNS kvs

/-- items of any iterable value (`list(obj)` / `for elt in obj`) -/
def Val.items? : Val → Option (List Val)
  | .list xs | .tuple xs | .set xs | .frozenset xs => some xs
  | .ntuple _ fs => some (fs.map (·.2))
  | .dict kvs => some (kvs.map (·.1))
  | .str _ => Option.none           -- never generated at a collection position
  | _ => Option.none

def Val.field? (v : Val) (n : String) : Option Val :=
  match v with
  | .obj _ fs | .ntuple _ fs => (fs.find? (fun kv => kv.1 == n)).map (·.2)
  | _ => Option.none

def Val.tdGet? (v : Val) (n : String) : Option Val :=
  match v with
  | .dict kvs => (kvs.find? (fun kv => match kv.1 with | .str s => s == n | _ => false)).map (·.2)
  | _ => Option.none

def bindO {α β} (r : Outcome α) (f : α → Outcome β) : Outcome β :=
  match r with | .ok a => f a | .invalid e => .invalid e | .crash c => .crash c

def mapMO {α β} (f : α → Outcome β) : List α → Outcome (List β)
  | [] => .ok []
  | x :: xs => bindO (f x) (fun y => bindO (mapMO f xs) (fun ys => .ok (y :: ys)))

def Ty.stripAnn : Ty → Ty
  | .ann _ t => t.stripAnn
  | t => t

/-- `is_union_of(tp, NoneType)` -/
def Ty.isOptionalUnion (t : Ty) : Bool :=
  match t.stripAnn with
  | .null => true
  | .union ts => ts.any (fun a => match a with | .null => true | _ => false)
  | _ => false

/-- `expected_class(tp)`; `none` = `TypeError` (e.g. a `Literal` member) -/
def Ty.expectedClass : Ty → Option RClass
  | .null => some .none | .bool => some .bool | .int => some .int | .float => some .float
  | .str => some .str | .any => some .object
  | .list _ => some .list | .set _ => some .set | .frozenset _ => some .frozenset
  | .vtuple _ | .tuple _ => some .tuple
  | .mapping _ _ => some .mapping
  | .newtype _ t => t.expectedClass
  | .ann _ t => t.expectedClass
  | .enum c _ => some (.enumCls c)
  | .obj ci _ => some (if ci.kind == .typedDict then .mapping else .cls ci.name)
  | .literal _ => Option.none
  | .union _ => Option.none

/-- serialization of a value whose static type is `Any`, for JSON-ish runtime classes -/
def serAnyAtom (v : Val) : Option Py := valAtom? v

/-- one object field -/
def serFieldStep (o : SOpts) (td : Bool) (f : FieldInfo) (opt : Bool) (v? : Option Val)
    (ser : Val → Outcome Py) (rest : Outcome (List (String × Py))) : Outcome (List (String × Py)) :=
  match v? with
  | Option.none => if td && !f.required then rest else .crash "AttributeError"
  | some v =>
    let sf : SField := { name := f.name, alias := f.alias, required := f.required, dflt := f.dflt, optional := opt }
    -- a TypedDict field has default `Undefined`: only the `exclude_none` rule can apply
    if omitted o (if td then { sf with dflt := Option.none } else sf) v then rest
    else bindO (ser v) (fun j => bindO rest (fun js => .ok ((f.alias, j) :: js)))

/-- first alternative whose class matches and whose method does not raise -/
def unionPick (v : Val) (alts : List (Option RClass × (Val → Outcome Py))) : Outcome Py :=
  match alts with
  | [] => .crash "TypeCheckError"
  | (c, f) :: rest =>
    match c with
    | Option.none => .crash "TypeError"
    | some c => if v.isInstance c then
        (match f v with
         | .ok j => .ok j
         | .crash c => if c.startsWith "ModelScope" then .crash c else unionPick v rest
         | _ => unionPick v rest)
      else unionPick v rest

/-- a fixed-length tuple alternative of a union is wrapped in `CheckedTupleMethod`: a value of another length raises
    `TypeError`, and the union moves on to the next alternative -/
def tupleLen? : Ty → Option Nat
  | .tuple ts => some ts.length
  | .newtype _ t => tupleLen? t
  | .ann _ t => tupleLen? t
  | _ => Option.none

def lenGuard (t : Ty) (f : Val → Outcome Py) (v : Val) : Outcome Py :=
  match tupleLen? t with
  | some n => (match v.items? with
      | some xs => if xs.length == n then f v else .crash "TypeError"
      | Option.none => f v)
  | Option.none => f v

def isIdentityTy : Ty → Bool
  | .null | .bool | .int | .float | .str => true
  | .literal vs => vs.all (fun l => match l with | .int _ | .str _ | .bool _ => true | _ => false)
  | .ann _ t => isIdentityTy t
  | .newtype _ t => isIdentityTy t
  | _ => false

def serAny (v : Val) : Outcome Py :=
  match valAtom? v with
  | some p => .ok p
  | Option.none => .crash "ModelScope:any"
def serEnum (ms : List (String × Lit)) (v : Val) : Outcome Py :=
  match v with
  | .enumMember _ m => match ms.find? (fun p => p.1 == m) with
    | some (_, l) => .ok (litToPy l)
    | Option.none => .crash "AttributeError"
  | _ => .crash "AttributeError"
def serColl (v : Val) (f : Val → Outcome Py) : Outcome Py :=
  match v.items? with
  | some xs => bindO (mapMO f xs) (fun js => .ok (.list js))
  | Option.none => .crash "TypeError"
def serTupleV (v : Val) (k : List Val → Outcome (List Py)) : Outcome Py :=
  match v.items? with
  | some xs => bindO (k xs) (fun js => .ok (.list js))
  | Option.none => .crash "TypeError"
def serMap (v : Val) (fk fv : Val → Outcome Py) : Outcome Py :=
  match v with
  | .dict kvs => bindO (mapMO (fun kv => bindO (fk kv.1) (fun k => bindO (fv kv.2) (fun x => .ok (k, x)))) kvs)
      (fun js => .ok (mkDict js))
  | _ => .crash "AttributeError"
def serObj (o : SOpts) (ci : ClassInfo) (v : Val) (fields : Outcome (List (String × Py))) (names : List String) : Outcome Py :=
  bindO fields (fun js =>
    if ci.kind == .typedDict && o.additionalProperties then
      match v with
      | .dict kvs =>
        let extra := kvs.filterMap (fun kv => match kv.1 with
          | .str s => if names.contains s || js.any (fun j => j.1 == s) then Option.none
                      else (valAtom? kv.2).map (fun p => (s, p))
          | _ => Option.none)
        .ok (.dict (js ++ extra))
      | _ => .ok (.dict js)
    else .ok (.dict js))
def unionBody (all : List Ty) (v : Val) (alts : List (Option RClass × (Val → Outcome Py))) : Outcome Py :=
  if alts.any (fun a => a.1.isNone) then .crash "TypeError"
  else if all.all isIdentityTy then .ok (rawPy v)
  else if all.length == 2 && all.any (fun t => match t with | .null => true | _ => false) then
    (match v with
     | .null => .ok .null
     | _ => match (all.zip alts).find? (fun p => match p.1 with | .null => false | _ => true) with
       | some (_, (_, f)) => f v
       | Option.none => .crash "StopIteration")
  else unionPick v alts


mutual
def ser (o : SOpts) : Ty → Val → Outcome Py
  | .null, v | .bool, v | .int, v | .float, v | .str, v => .ok (rawPy v)
  | .literal _, v => .ok (rawPy v)
  | .any, v => serAny v
  | .enum _ ms, v => serEnum ms v
  | .newtype _ t, v => ser o t v
  | .ann _ t, v => ser o t v
  | .list t, v | .set t, v | .frozenset t, v | .vtuple t, v => serColl v (fun x => ser o t x)
  | .tuple ts, v => serTupleV v (fun xs => serTuple o ts xs)
  | .mapping k t, v => serMap v (fun x => ser o k x) (fun x => ser o t x)
  | .union ts, v => unionBody ts v (altsOf o ts)
  | .obj ci fs, v => serObj o ci v (serFields o (ci.kind == .typedDict) fs v) (namesF fs)
termination_by structural t => t
def serTuple (o : SOpts) : List Ty → List Val → Outcome (List Py)
  | t :: ts, x :: xs => bindO (ser o t x) (fun j => bindO (serTuple o ts xs) (fun js => .ok (j :: js)))
  | [], _ => .ok []
  | _ :: _, [] => .crash "IndexError"
termination_by structural ts => ts
def serFields (o : SOpts) (td : Bool) : List (FieldInfo × Ty) → Val → Outcome (List (String × Py))
  | [], _ => .ok []
  | (f, t) :: fs, v =>
      serFieldStep o td f t.isOptionalUnion (if td then v.tdGet? f.name else v.field? f.name)
        (fun x => ser o t x) (serFields o td fs v)
termination_by structural fs => fs
def namesF : List (FieldInfo × Ty) → List String
  | [] => []
  | (f, _) :: fs => f.name :: namesF fs
termination_by structural fs => fs
def altsOf (o : SOpts) : List Ty → List (Option RClass × (Val → Outcome Py))
  | [] => []
  | t :: ts => (t.expectedClass, lenGuard t (fun x => ser o t x)) :: altsOf o ts
termination_by structural ts => ts
end



-- building the serialization method raises `TypeError` as soon as some union anywhere in the type
-- has a member without expected class (a `Literal`)
mutual
def Ty.serFailure? : Ty → Option String
  | .union ts => if ts.any (fun t => t.expectedClass.isNone) then some "TypeError" else serFailureL ts
  | .list t | .set t | .frozenset t | .vtuple t | .newtype _ t | .ann _ t => t.serFailure?
  | .tuple ts => serFailureL ts
  | .mapping k v => (k.serFailure?).orElse (fun _ => v.serFailure?)
  | .obj _ fs => serFailureF fs
  | _ => Option.none
termination_by structural t => t
def serFailureL : List Ty → Option String
  | [] => Option.none
  | t :: ts => (t.serFailure?).orElse (fun _ => serFailureL ts)
termination_by structural ts => ts
def serFailureF : List (FieldInfo × Ty) → Option String
  | [] => Option.none
  | (_, t) :: fs => (t.serFailure?).orElse (fun _ => serFailureF fs)
termination_by structural fs => fs
end

/-- `serialize(T, v, **options)` -/
def serialize (o : SOpts) (t : Ty) (v : Val) : Outcome Py :=
  match t.serFailure? with
  | some exn => .crash exn
  | Option.none => ser o t v


end Api
