import Apimodel.Constraints
import Apimodel.Err
/-!
# Deserialization: method trees (`apischema/deserialization/methods.py`) and their compilation
(`DeserializationMethodVisitor`). Mirrors the code as it is, failure modes included.
Stage 1: strict mode, no validators / conversions / discriminators / aggregate fields.
-/
namespace Api

inductive Ctor where
  | noCtor        -- TypedDict: returns the dict
  | raw           -- `cls(**fields)`
  | fields        -- `FieldsConstructor` (override_dataclass_constructors)
  deriving DecidableEq, Repr, Inhabited

/-- what CPython's `int(str)`, `float(str)` and `str(float)` return on the strings / floats of a run
    (oracle data supplied with the datum — anything absent is a `ValueError`), and the boolean word
    table (generated from `coercion.py`) -/
structure CoerceEnv where
  intOf : List (String × Int) := []
  floatOf : List (String × Flt) := []
  reprOf : List (Flt × String) := []
  boolWords : List (String × Bool) := []
  /-- `LiteralMethod.types` (a tuple made from a *set* of classes: the order is the interpreter's; the
      harness reads it off the same construction) -/
  litTypes : List (List Lit × List JClass) := []
  deriving Repr, Inhabited

inductive Meth where
  | none | bool | int | float (acceptBool : Bool) | str
  | cint (c : Constraints) | cfloat (acceptBool : Bool) (c : Constraints) | cstr (c : Constraints)
  | any (c : Constraints)
  | listCheckOnly (c : Constraints) (m : Meth)
  | list (c : Constraints) (m : Meth)
  | set (c : Constraints) (m : Meth)
  | frozenset (m : Meth)
  | vtuple (m : Meth)
  | tuple (dropErrors : Bool) (c : Constraints) (ms : List Meth)
  | literal (vs : List Lit) (enum : Option (String × List String))
  | mappingCheckOnly (c : Constraints) (k v : Meth)
  | mapping (c : Constraints) (k v : Meth)
  | simpleObj (ci : ClassInfo) (ctor : Ctor) (fields : List (FieldInfo × Meth))
  | obj (ci : ClassInfo) (ctor : Ctor) (c : Constraints) (ap : Bool) (fields : List (FieldInfo × Meth))
  | optional (m : Meth)
  /-- `CoercerMethod(coercer, cls, method)` with the default coercer -/
  | coerced (env : CoerceEnv) (cls : JClass) (m : Meth)
  /-- `OptionalMethod(value_method, coercer)` with the default coercer -/
  | optionalC (env : CoerceEnv) (m : Meth)
  /-- `LiteralMethod` with the default coercer -/
  | literalC (env : CoerceEnv) (vs : List Lit) (enum : Option (String × List String))
  | unionByType (tbl : List (JClass × Meth))
  | union (ms : List Meth)
  /-- building the method raised (observed when the method is first used) -/
  | fail (exn : String)
  deriving Repr, Inhabited

/-! ## helpers, one per Python helper -/

/-- `bad_type(data, *expected)`; since the repair of row 6 the class of a datum that is not an instance of
    the seven JSON classes is named in the message (`found = none` here) instead of raising `TypeError` -/
def badType (exps : List JClass) (d : Py) : Outcome Val :=
  .invalid (.ofMsgs (exps.map (fun e => .badType e d.jclass?)))

/-- accumulated state of a container loop -/
structure Acc where
  vals : List Val := []
  errs : List (Key × Err) := []
  crash : Option String := Option.none
  deriving Inhabited

/-- one iteration: the leftmost non-`ValidationError` exception escapes the loop -/
def stepAcc (k : Key) (r : Outcome Val) (rest : Acc) : Acc :=
  match r with
  | .crash c => { crash := some c }
  | .ok v => { rest with vals := v :: rest.vals }
  | .invalid e => { rest with vals := Val.null :: rest.vals, errs := setChild k e rest.errs }

/-- `SetMethod` loop: `values.add(v)` raises `TypeError` at the first unhashable value -/
def stepSet (k : Key) (r : Outcome Val) (rest : Acc) : Acc :=
  match r with
  | .ok v => if v.hashable then stepAcc k r rest else { crash := some "TypeError" }
  | r => stepAcc k r rest

def collectSet (f : Py → Outcome Val) : Nat → List Py → Acc
  | _, [] => {}
  | i, x :: xs => stepSet (.idx i) (f x) (collectSet f (i+1) xs)

def collect (f : Py → Outcome Val) : Nat → List Py → Acc
  | _, [] => {}
  | i, x :: xs => stepAcc (.idx i) (f x) (collect f (i+1) xs)

/-- `validate_constraints(data, constraints, children)` then `return value` -/
def finish (own : Option (List Rule)) (acc : Acc) (mk : List Val → Outcome Val) : Outcome Val :=
  match acc.crash with
  | some c => .crash c
  | Option.none =>
    match own with
    | Option.none => .crash "TypeError"
    | some [] => if acc.errs.isEmpty then mk acc.vals else .invalid (.mk [] acc.errs)
    | some rs => .invalid (.mk rs acc.errs)

def onList (d : Py) (k : List Py → Outcome Val) : Outcome Val :=
  match d with | .list xs => k xs | _ => badType [.list] d

/-- scalar with own constraints -/
def constrained (rs : List Rule) (v : Val) : Outcome Val :=
  match rs with | [] => .ok v | rs => .invalid (.ofMsgs rs)

def runNone (d : Py) : Outcome Val := match d with | .null => .ok .null | _ => badType [.null] d
def runBool (d : Py) : Outcome Val := match d with | .bool b => .ok (.bool b) | _ => badType [.bool] d
def runInt (c : Constraints) (d : Py) : Outcome Val :=
  match d with
  | .int i => constrained (c.numErrors (.int i)) (.int i)
  | _ => badType [.int] d
/-- `float(i)` followed by the constraints -/
def intAsFloat (c : Constraints) (i : Int) : Outcome Val :=
  match intToFlt i with
  | some f => constrained (c.numErrors (.flt f)) (.float f)
  | Option.none => .crash "OverflowError"

/-- `FloatMethod`: `isinstance(data, int)` also lets `bool` through (current code) -/
def runFloat (acceptBool : Bool) (c : Constraints) (d : Py) : Outcome Val :=
  match d with
  | .float f => constrained (c.numErrors (.flt f)) (.float f)
  | .int i => intAsFloat c i
  | .bool b =>
      if acceptBool then
        let f : Flt := .fin (if b then 1 else 0); constrained (c.numErrors (.flt f)) (.float f)
      else badType [.float] d
  | _ => badType [.float] d
def runStr (c : Constraints) (d : Py) : Outcome Val :=
  match d with
  | .str s => constrained (c.strErrors s) (.str s)
  | _ => badType [.str] d

/-- `AnyMethod`: constraints selected by the exact class of the datum -/
def runAny (c : Constraints) (d : Py) : Outcome Val :=
  match d with
  | .int i => constrained (c.numErrors (.int i)) (asVal d)
  | .float f => constrained (c.numErrors (.flt f)) (asVal d)
  | .str s => constrained (c.strErrors s) (asVal d)
  | .list xs => match c.listErrors xs with
      | some rs => constrained rs (asVal d)
      | Option.none => .crash "TypeError"
  | .dict kvs => constrained (c.dictErrors kvs.length) (asVal d)
  | .dictNS kvs => constrained (c.dictErrors kvs.length) (asVal d)
  | _ => .ok (asVal d)

/-- `SetMethod` result: `values.add(v)`; unhashable element → `TypeError` -/
def mkSet (vs : List Val) : Outcome Val :=
  if vs.all Val.hashable then .ok (.set (vs.foldl (fun s v => setAdd v s) []))
  else .crash "TypeError"

def mapVal (r : Outcome Val) (f : Val → Outcome Val) : Outcome Val :=
  match r with | .ok v => f v | r => r

def listToTuple (v : Val) : Outcome Val :=
  match v with | .list xs => .ok (.tuple xs) | v => .ok v
def listToFrozenset (v : Val) : Outcome Val :=
  match v with
  | .list xs => if xs.all Val.hashable then .ok (.frozenset (xs.foldl (fun s v => setAdd v s) []))
                else .crash "TypeError"
  | v => .ok v

/-- `LiteralMethod`: `value_map[data]` -/
def runLiteral (vs : List Lit) (en : Option (String × List String)) (d : Py) : Outcome Val :=
  if !d.hashable then badType (dedupClasses ((dedupLits vs).map Lit.jclass)) d
  else
    match lastMatch vs 0 Option.none with
    | some (i, l) =>
        match en with
        | some (cls, names) => .ok (.enumMember cls (names.getD i ""))
        | Option.none => .ok l.toVal
    | Option.none =>
        match d with
        | .other _ => .invalid (.leaf (.oneOf (dedupLits vs)))
        | _ => .invalid (.leaf (.oneOf (dedupLits vs)))
where
  /-- `dict(zip(keys, values))`: of several equal keys the last value wins -/
  lastMatch : List Lit → Nat → Option (Nat × Lit) → Option (Nat × Lit)
    | [], _, acc => acc
    | l :: ls, i, acc => lastMatch ls (i+1) (if litMatches d l then some (i, l) else acc)
  /-- keys of `value_map` (`dict(zip(...))` keeps the first of equal keys, the last value) -/
  dedupLits (ls : List Lit) : List Lit :=
    ls.foldl (fun acc l => if acc.any (fun a => litEq a l) then acc else acc ++ [l]) []
  litEq (a b : Lit) : Bool :=
    match a, b with
    | .null, .null => true
    | .str x, .str y => x == y
    | a, b => match a.asNum?, b.asNum? with
      | some x, some y => x.eq y
      | _, _ => false
  dedupClasses (cs : List JClass) : List JClass :=
    cs.foldl (fun acc c => if acc.contains c then acc else acc ++ [c]) []

def Py.isNull : Py → Bool | .null => true | _ => false

def lookupKey (kvs : List (String × Py)) (k : String) : Option Py :=
  (kvs.find? (fun kv => kv.1 == k)).map (·.2)

/-- one item of a mapping loop (both `MappingCheckOnly` and `MappingMethod`, since the repair of row 30): the key is
    deserialized, then the value, and their errors are merged under the item's key (`keyFirst` is kept in the signature
    for the callers; it no longer matters) -/
def stepItem (_keyFirst : Bool) (k : String) (rk rv : Outcome Val) (rest : Acc) : Acc :=
  match rk, rv with
  | .crash c, _ => { crash := some c }
  | _, .crash c => { crash := some c }
  | .invalid ek, .invalid ev => { rest with errs := setChild (.name k) (ek.merge ev) rest.errs }
  | .invalid e, .ok _ => { rest with errs := setChild (.name k) e rest.errs }
  | .ok _, .invalid e => { rest with errs := setChild (.name k) e rest.errs }
  | .ok _, .ok _ => rest

def collectItems (keyFirst : Bool) (fk fv : Py → Outcome Val) : List (String × Py) → Acc
  | [] => {}
  | (k, v) :: kvs => stepItem keyFirst k (fk (.str k)) (fv v) (collectItems keyFirst fk fv kvs)

/-- the resulting dict of `MappingMethod` (all items valid) -/
def mkItems (fk fv : Py → Outcome Val) (kvs : List (String × Py)) : List (Val × Val) :=
  kvs.filterMap (fun kv => match fk (.str kv.1), fv kv.2 with
    | .ok k, .ok v => some (k, v)
    | _, _ => Option.none)

def finishMap (own : List Rule) (acc : Acc) (v : Val) : Outcome Val :=
  match acc.crash with
  | some c => .crash c
  | Option.none =>
    match own with
    | [] => if acc.errs.isEmpty then .ok v else .invalid (.mk [] acc.errs)
    | rs => .invalid (.mk rs acc.errs)

def onDict (d : Py) (k : List (String × Py) → Outcome Val) : Outcome Val :=
  match d with
  | .dict kvs => k kvs
  | .dictNS _ => .crash "ModelScope:dictNS"
  | _ => badType [.dict] d

/-- field loop state of the object methods -/
structure FAcc where
  vals : List (String × Val) := []
  errs : List (Key × Err) := []
  count : Nat := 0
  crash : Option String := Option.none
  deriving Inhabited

/-- one iteration of the field loop (`ObjectMethod` and `SimpleObjectMethod` alike) -/
def stepField (f : FieldInfo) (fbod : Bool) (r : Option (Outcome Val)) (rest : FAcc) : FAcc :=
  match r with
  | some (.crash c) => { crash := some c }
  | some (.ok v) => { rest with vals := (f.name, v) :: rest.vals, count := rest.count + 1 }
  | some (.invalid e) =>
      if f.required || !fbod then { rest with errs := setChild (.name f.alias) e rest.errs, count := rest.count + 1 }
      else { rest with count := rest.count + 1 }
  | Option.none =>
      if f.required then { rest with errs := setChild (.name f.alias) (.leaf .missing) rest.errs }
      else rest

/-- unexpected keys: `data.keys() - all_aliases` -/
def unexpectedKeys (aliases : List String) (kvs : List (String × Py)) : List String :=
  (kvs.filter (fun kv => !aliases.contains kv.1)).map (·.1)

def addUnexpected (ks : List String) (errs : List (Key × Err)) : List (Key × Err) :=
  ks.foldl (fun a k => setChild (.name k) (.leaf .unexpected) a) errs

/-- what the constructor receives / what a TypedDict result contains -/
def rawVals (kvs : List (String × Py)) : List (String × Val) := kvs.map (fun kv => (kv.1, asVal kv.2))

def Dflt.toVal : Dflt → Val
  | .lit .null => .null | .lit (.bool b) => .bool b | .lit (.int i) => .int i
  | .lit (.float f) => .float f | .lit (.str s) => .str s
  | .emptyList => .list [] | .emptyDict => .dict []

/-- the argument (or default) the constructor ends up with for one field -/
def pickField (fields : List (String × Val)) (f : FieldInfo) : Option (String × Val) :=
  match fields.find? (fun kv => kv.1 == f.name) with
  | some kv => some kv
  | Option.none => f.dflt.map (fun d => (f.name, d.toVal))

/-- `cls(**fields)` (absent fields take their default) / the dict itself for a TypedDict -/
def construct (ci : ClassInfo) (infos : List FieldInfo) (fields : List (String × Val)) : Val :=
  match ci.kind with
  | .typedDict => .dict (fields.map (fun kv => (.str kv.1, kv.2)))
  | .namedTuple => .ntuple ci.name (infos.filterMap (pickField fields))
  | .dataclass => .obj ci.name (infos.filterMap (pickField fields))

/-- tail of `SimpleObjectMethod.deserialize` -/
def finishSimple (ci : ClassInfo) (infos : List FieldInfo) (aliases : List String) (acc : FAcc) (kvs : List (String × Py)) : Outcome Val :=
  match acc.crash with
  | some c => .crash c
  | Option.none =>
    let errs := if kvs.length != acc.count && ci.kind != .typedDict
                then addUnexpected (unexpectedKeys aliases kvs) acc.errs else acc.errs
    if errs.isEmpty then .ok (construct ci infos (rawVals kvs)) else .invalid (.mk [] errs)

/-- `sorted(field.required_by & data.keys())` -/
def requiringPresent (f : FieldInfo) (kvs : List (String × Py)) : List String :=
  ((f.requiredBy.filter (fun a => (lookupKey kvs a).isSome)).eraseDups).mergeSort (fun a b => decide (a ≤ b))

/-- is this field absent although a field that requires it (`dependent_required`) is present -/
def depViolated (f : FieldInfo) (kvs : List (String × Py)) : Bool :=
  (lookupKey kvs f.alias).isNone && !f.required && !(requiringPresent f kvs).isEmpty

/-- the `missing property (required by [...])` errors of the field loop: one child per violated field -/
def depMissing : List FieldInfo → List (String × Py) → List (String × List String)
  | [], _ => []
  | f :: fs, kvs => if depViolated f kvs then (f.alias, requiringPresent f kvs) :: depMissing fs kvs else depMissing fs kvs

def addDepMissing (ms : List (String × List String)) (errs : List (Key × Err)) : List (Key × Err) :=
  ms.foldl (fun a m => setChild (.name m.1) (.leaf (.missingRequiredBy m.2)) a) errs

/-! ### `dependent_required` -/
theorem requiringPresent_nil {f : FieldInfo} (h : f.requiredBy = []) (kvs : List (String × Py)) :
    requiringPresent f kvs = [] := by
  unfold requiringPresent; rw [h]; simp

theorem depViolated_false {f : FieldInfo} (h : f.requiredBy = []) (kvs : List (String × Py)) :
    depViolated f kvs = false := by
  unfold depViolated; rw [requiringPresent_nil h]; simp

/-- no `dependent_required` on the class: the field loop adds no such error -/
theorem depMissing_nil : ∀ {infos : List FieldInfo}, (∀ f ∈ infos, f.requiredBy = []) →
    ∀ kvs, depMissing infos kvs = []
  | [], _, _ => rfl
  | f :: fs, h, kvs => by
    rw [depMissing, depViolated_false (h f (List.mem_cons_self ..))]
    exact depMissing_nil (fun g hg => h g (List.mem_cons_of_mem _ hg)) kvs

/-- the additional keys of a TypedDict under `additional_properties`: the keys of the datum that are no alias of the class, copied as they are -
except those spelled like a declared field's own name (an additional key never takes the place of a declared field: row 76) -/
def extraVals (names aliases : List String) (kvs : List (String × Py)) : List (String × Val) :=
  (unexpectedKeys aliases kvs).filterMap (fun k => if names.contains k then Option.none else (lookupKey kvs k).map (fun v => (k, asVal v)))

/-- tail of `ObjectMethod.deserialize` (no aggregate fields, no validators) -/
def finishObj (ci : ClassInfo) (infos : List FieldInfo) (own : List Rule) (ap : Bool) (aliases : List String) (acc : FAcc)
    (kvs : List (String × Py)) : Outcome Val :=
  match acc.crash with
  | some c => .crash c
  | Option.none =>
    let extra := unexpectedKeys aliases kvs
    let errs := addDepMissing (depMissing infos kvs)
                  (if kvs.length != acc.count && !ap then addUnexpected extra acc.errs else acc.errs)
    let vals := if kvs.length != acc.count && ap && ci.kind == .typedDict
                then acc.vals ++ extraVals (infos.map (·.name)) aliases kvs
                else acc.vals
    if errs.isEmpty && own.isEmpty then .ok (construct ci infos vals) else .invalid (.mk own errs)

/-- `OptionalMethod` failure: `merge_errors(err, bad_type(data, NoneType))` -/
def optionalTail (d : Py) (r : Outcome Val) : Outcome Val :=
  match r with
  | .invalid e =>
      match badType [.null] d with
      | .invalid b => .invalid (e.merge b)
      | other => other
  | r => r

/-- fold step of `UnionMethod` -/
def unionStep (r : Outcome Val) (rest : Option Err → Outcome Val) (err : Option Err) : Outcome Val :=
  match r with
  | .invalid e => rest (some (mergeOpt err e))
  | r => r

def unionEnd (err : Option Err) : Outcome Val :=
  match err with | some e => .invalid e | Option.none => .crash "AssertionError"

/-- `UnionByTypeMethod` failure of the selected method -/
def byTypeTail (others : List JClass) (d : Py) (r : Outcome Val) : Outcome Val :=
  match r with
  | .invalid e =>
      match badType others d with
      | .invalid b => .invalid (e.merge b)
      | other => other
  | r => r

/-- body of `TupleMethod.deserialize` after the `isinstance` test.
    Current code: the result of `set_child_error(elt_errors, i, err)` is dropped, so element
    errors never reach `validate_constraints` and failed positions stay `None`. -/
def tupleBody (dropErrors : Bool) (c : Constraints) (n : Nat) (xs : List Py) (acc : Acc) : Outcome Val :=
  if xs.length < n then .invalid (.leaf (.minItems n))
  else if xs.length > n then .invalid (.leaf (.maxItems n))
  else finish (c.listErrors xs) (if dropErrors then { acc with errs := [] } else acc) (fun vs => .ok (.tuple vs))

/-! ## `coercion.coerce` -/

def failAs {α β} (r : Outcome α) (dflt : Outcome β) : Outcome β :=
  match r with | .invalid e => .invalid e | .crash x => .crash x | .ok _ => dflt

def badTypeP (c : JClass) (d : Py) : Outcome Py := failAs (badType [c] d) (.crash "unreachable")

def assoc? {α β} [BEq α] (k : α) : List (α × β) → Option β
  | [] => Option.none
  | (a, b) :: rest => if a == k then some b else assoc? k rest

/-- `isinstance(data, cls)` for the seven JSON classes (`bool` is an `int`) -/
def Py.isInstance (d : Py) (c : JClass) : Bool :=
  match c, d with
  | .null, .null => true
  | .bool, .bool _ => true
  | .int, .int _ => true | .int, .bool _ => true
  | .float, .float _ => true
  | .str, .str _ => true
  | .list, .list _ => true
  | .dict, .dict _ => true | .dict, .dictNS _ => true
  | _, _ => false

/-- `int(float)`: truncation; `nan` → `ValueError`, infinities → `OverflowError`; the coercer turns both
    into `bad_type` (since the repair of rows 4 / 39) -/
def truncFlt (f : Flt) : Outcome Py :=
  match f with
  | .fin q => .ok (.int (Int.tdiv q.num q.den))
  | _ => .invalid (.ofMsgs [.badType .int (some .float)])

/-- `str(f)` / `repr(f)` of a float: total in Python; the oracle table of the environment lists the floats of the datum
    (filled by the harness from the real `repr`), any other float is given a fixed placeholder -/
def reprFlt (env : CoerceEnv) (f : Flt) : String := (assoc? f env.reprOf).getD "<float>"

/-- the default coercer (`coercion.coerce`) after the repair of rows 4 / 39: every failed conversion is a
    `bad_type` (`ValueError`, `TypeError`, `OverflowError`, `KeyError` of the word table are all caught; the
    `''`-test is guarded by `isinstance(data, str)`) -/
def coerce (env : CoerceEnv) (c : JClass) (d : Py) : Outcome Py :=
  match c with
  | .null =>
      match d with
      | .null => .ok .null
      | .str s => if s == "" then .ok .null else badTypeP .null d
      | _ => badTypeP .null d
  | .bool =>
      match d with
      | .bool _ => .ok d
      | .str s => match assoc? s.toLower env.boolWords with
          | some b => .ok (.bool b)
          | Option.none => badTypeP .bool d
      | .int i => .ok (.bool (i != 0))
      | _ => badTypeP .bool d
  | .int =>
      match d with
      | .int _ | .bool _ => .ok d
      | .float f => truncFlt f
      | .str s => match assoc? s env.intOf with
          | some i => .ok (.int i)
          | Option.none => badTypeP .int d
      | _ => badTypeP .int d
  | .float =>
      match d with
      | .float _ => .ok d
      | .int i => match intToFlt i with
          | some f => .ok (.float f)
          | Option.none => badTypeP .float d
      | .str s => match assoc? s env.floatOf with
          | some f => .ok (.float f)
          | Option.none => badTypeP .float d
      | _ => badTypeP .float d
  | .str =>
      match d with
      | .str _ => .ok d
      | .int i => .ok (.str (toString i))
      | .float f => .ok (.str (reprFlt env f))
      | _ => badTypeP .str d
  | c => if d.isInstance c then .ok d else badTypeP c d

/-- `LiteralMethod` with a coercer (after the repair of row 5): on a miss, the datum is coerced to each class
    of `types` in turn (a tuple made from a *set* of classes: the order is the interpreter's, the harness
    reads it off the same construction); a coerced value that is a literal is returned, a coerced value that
    is not (`KeyError`) moves on to the next class, and so does a class the datum cannot be coerced to (repair of row 80: the coercer's
    `ValidationError` used to escape, so the outcome depended on the order of the set) -/
def tryLitClasses (env : CoerceEnv) (vs : List Lit) (en : Option (String × List String)) (d : Py) :
    List JClass → Outcome Val
  | [] => runLiteral vs en d
  | c :: cs =>
      match coerce env c d with
      | .ok d' =>
          (match runLiteral.lastMatch d' vs 0 Option.none with
           | some _ => runLiteral vs en d'
           | Option.none => tryLitClasses env vs en d cs)
      | .invalid _ => tryLitClasses env vs en d cs
      | .crash x => .crash x

def runLiteralC (env : CoerceEnv) (vs : List Lit) (en : Option (String × List String)) (d : Py) : Outcome Val :=
  if !d.hashable then runLiteral vs en d
  else
    match runLiteral.lastMatch d vs 0 Option.none with
    | some _ => runLiteral vs en d
    | Option.none =>
        match assoc? vs env.litTypes with
        | Option.none => runLiteral vs en d
        | some cs => tryLitClasses env vs en d cs

def bindPy (r : Outcome Py) (k : Py → Outcome Val) : Outcome Val :=
  match r with | .ok d => k d | .invalid e => .invalid e | .crash x => .crash x

/-- `OptionalMethod` with a coercer: `coercer(NoneType, data)` is tried inside the `except` clause; when the datum is not coercible to `None`
    either, the value method's error is merged with `bad_type(data, NoneType)` as without coercion (repair of row 65) -/
def optionalTailC (env : CoerceEnv) (d : Py) (r : Outcome Val) : Outcome Val :=
  match r with
  | .invalid e => match coerce env .null d with
      | .ok _ => .ok .null
      | .invalid _ => optionalTail d (.invalid e)
      | .crash x => .crash x
  | r => r

/-! ## running a method tree -/
mutual
def run : Meth → Py → Outcome Val
  | .none, d => runNone d
  | .bool, d => runBool d
  | .int, d => runInt {} d
  | .float ab, d => runFloat ab {} d
  | .str, d => runStr {} d
  | .cint c, d => runInt c d
  | .cfloat ab c, d => runFloat ab c d
  | .cstr c, d => runStr c d
  | .any c, d => runAny c d
  | .listCheckOnly c m, d => onList d (fun xs =>
      finish (c.listErrors xs) (collect (fun x => run m x) 0 xs) (fun _ => .ok (asVal d)))
  | .list c m, d => onList d (fun xs =>
      finish (c.listErrors xs) (collect (fun x => run m x) 0 xs) (fun vs => .ok (.list vs)))
  | .set c m, d => onList d (fun xs =>
      finish (c.listErrors xs) (collectSet (fun x => run m x) 0 xs) mkSet)
  | .frozenset m, d => mapVal (run m d) listToFrozenset
  | .vtuple m, d => mapVal (run m d) listToTuple
  | .tuple dropE c ms, d => onList d (fun xs => tupleBody dropE c ms.length xs (runTuple ms 0 xs))
  | .literal vs en, d => runLiteral vs en d
  | .mappingCheckOnly c km vm, d => onDict d (fun kvs =>
      finishMap (c.dictErrors kvs.length)
        (collectItems true (fun x => run km x) (fun x => run vm x) kvs) (asVal d))
  | .mapping c km vm, d => onDict d (fun kvs =>
      finishMap (c.dictErrors kvs.length)
        (collectItems false (fun x => run km x) (fun x => run vm x) kvs)
        (.dict (mkItems (fun x => run km x) (fun x => run vm x) kvs)))
  | .simpleObj ci _ fs, d => onDict d (fun kvs =>
      finishSimple ci (infosM fs) (aliasesM fs) (runFields false fs kvs) kvs)
  | .obj ci _ c ap fs, d => onDict d (fun kvs =>
      finishObj ci (infosM fs) (c.dictErrors kvs.length) ap (aliasesM fs) (runFields true fs kvs) kvs)
  | .optional m, d => if d.isNull then .ok .null else optionalTail d (run m d)
  | .coerced env c m, d => bindPy (coerce env c d) (fun d' => run m d')
  | .optionalC env m, d => if d.isNull then .ok .null else optionalTailC env d (run m d)
  | .literalC env vs en, d => runLiteralC env vs en d
  | .unionByType tbl, d =>
      match d.jclass? with
      | Option.none => badType (tbl.map (·.1)) d   -- KeyError → bad_type (total since the repair of row 6)
      | some c => runByType tbl tbl c d
  | .union ms, d => runUnion ms d Option.none
  | .fail exn, _ => .crash exn
termination_by structural m => m
def runTuple : List Meth → Nat → List Py → Acc
  | m :: ms, i, x :: xs => stepAcc (.idx i) (run m x) (runTuple ms (i+1) xs)
  | _, _, _ => {}
termination_by structural ms => ms
/-- field loop; `useFbod = false` for `SimpleObjectMethod` (which is only built without fall-back) -/
def runFields (useFbod : Bool) : List (FieldInfo × Meth) → List (String × Py) → FAcc
  | [], _ => {}
  | (f, m) :: fs, kvs =>
      stepField f (useFbod && f.fbod) ((lookupKey kvs f.alias).map (fun x => run m x))
        (runFields useFbod fs kvs)
termination_by structural fs => fs
def aliasesM : List (FieldInfo × Meth) → List String
  | [] => []
  | (f, _) :: fs => f.alias :: aliasesM fs
termination_by structural fs => fs
def infosM : List (FieldInfo × Meth) → List FieldInfo
  | [] => []
  | (f, _) :: fs => f :: infosM fs
termination_by structural fs => fs
def runUnion : List Meth → Py → Option Err → Outcome Val
  | [], _, err => unionEnd err
  | m :: ms, d, err => unionStep (run m d) (fun e => runUnion ms d e) err
termination_by structural ms => ms
/-- dispatch on `type(data)`; `all` is the whole table (for the `bad_type` messages) -/
def runByType : List (JClass × Meth) → List (JClass × Meth) → JClass → Py → Outcome Val
  | [], all, _, d => badType (all.map (·.1)) d
  | (c', m) :: rest, all, c, d =>
      if c' = c then byTypeTail ((all.map (·.1)).filter (· != c)) d (run m d)
      else runByType rest all c d
termination_by structural tbl => tbl
end

/-! ## compilation: `DeserializationMethodVisitor` -/

-- `CHECK_ONLY_METHODS` / `check_only`
mutual
def Meth.checkOnly : Meth → Bool
  | .none | .bool | .int | .str | .cint _ | .cstr _ => true
  | .listCheckOnly _ _ | .mappingCheckOnly _ _ _ => true
  | .optional m => m.checkOnly
  | .union ms => checkOnlyL ms
  | .unionByType tbl => checkOnlyT tbl
  | _ => false
termination_by structural m => m
def checkOnlyL : List Meth → Bool
  | [] => true
  | m :: ms => m.checkOnly && checkOnlyL ms
termination_by structural ms => ms
def checkOnlyT : List (JClass × Meth) → Bool
  | [] => true
  | (_, m) :: ms => m.checkOnly && checkOnlyT ms
termination_by structural ms => ms
end

/-- the `cls` of the factory built for a type (`_factory(factory, cls)`) -/
def Ty.factoryCls : Ty → Option JClass
  | .null => some .null | .bool => some .bool | .int => some .int | .float => some .float
  | .str => some .str
  | .list _ | .set _ | .frozenset _ | .vtuple _ | .tuple _ => some .list
  | .mapping _ _ | .obj _ _ => some .dict
  | .newtype _ t => t.factoryCls
  | .ann _ t => t.factoryCls
  | .any | .union _ | .literal _ | .enum _ _ => Option.none

def listSel (o : DOpts) (c : Constraints) (m : Meth) : Meth :=
  if o.noCopy && m.checkOnly then .listCheckOnly c m else .list c m

def mappingSel (o : DOpts) (c : Constraints) (k v : Meth) : Meth :=
  if o.noCopy && k.checkOnly && v.checkOnly then .mappingCheckOnly c k v else .mapping c k v

def simpleOk : List (FieldInfo × Meth) → Bool
  | [] => true
  | (f, m) :: fs => m.checkOnly && f.alias == f.name && !f.fbod && f.requiredBy.isEmpty && simpleOk fs

def ctorOf (o : DOpts) (ci : ClassInfo) : Ctor :=
  if ci.kind == .typedDict then .noCtor
  else if o.overrideCtor && ci.raw && ci.kind == .dataclass then .fields else .raw

/-- `object()`'s choice between `SimpleObjectMethod` and `ObjectMethod` -/
def objSel (o : DOpts) (ci : ClassInfo) (c : Constraints) (fs : List (FieldInfo × Meth)) : Meth :=
  let td := ci.kind == .typedDict
  if !c.hasDict && (td == o.additionalProperties) && (!td || o.noCopy) && simpleOk fs
  then .simpleObj ci (ctorOf o ci) fs
  else .obj ci (ctorOf o ci) c o.additionalProperties fs

def dedupCls (cs : List JClass) : List JClass :=
  cs.foldl (fun acc c => if acc.contains c then acc else acc ++ [c]) []

/-- `union()`'s choice between `OptionalMethod`, `UnionByTypeMethod`, `UnionMethod` -/
def unionSel (clss : List (Option JClass)) (hasNone : Bool) (ms : List Meth) : Meth :=
  let known := clss.filterMap id
  if hasNone && ms.length == 2 then
    match (clss.zip ms).find? (fun p => p.1 != some .null) with
    | some (_, m) => .optional m
    | Option.none => .fail "StopIteration"      -- `next(...)` over an empty generator
  else if (dedupCls known).length == ms.length && !known.contains .float then
    -- `dict(zip(classes, methods))`; not used when an alternative is `float`, which also accepts `int` data
    .unionByType (known.zip ms)
  else .union ms

def Ty.isNull : Ty → Bool | .null => true | _ => false

def withFbod (o : DOpts) (f : FieldInfo) : FieldInfo := { f with fbod := f.fbod || o.fallBackOnDefault }

mutual
/-- `cs`: constraints merged in from enclosing `Annotated[..., schema(...)]` / per-call `schema` -/
def compile (o : DOpts) : Constraints → Ty → Meth
  | _, .null => .none
  | _, .bool => .bool
  | cs, .int => if cs.hasNum then .cint cs else .int
  | cs, .float => if cs.hasNum then .cfloat o.quirks.floatAcceptsBool cs else .float o.quirks.floatAcceptsBool
  | cs, .str => if cs.hasStr then .cstr cs else .str
  | cs, .any => .any cs
  | cs, .list t => listSel o cs (compile o {} t)
  | cs, .set t => .set cs (compile o {} t)
  | cs, .frozenset t => .frozenset (listSel o cs (compile o {} t))
  | cs, .vtuple t => .vtuple (listSel o cs (compile o {} t))
  | cs, .tuple ts => .tuple o.quirks.tupleDropsErrors cs (compileL o {} ts)
  | cs, .mapping k v => mappingSel o cs (compile o {} k) (compile o {} v)
  | cs, .union ts => unionSel (clsL ts) (anyNull ts) (compileL o cs ts)
  | _, .literal vs => .literal vs Option.none
  | _, .enum cls members => .literal (members.map (·.2)) (some (cls, members.map (·.1)))
  | cs, .newtype _ t => compile o cs t
  | cs, .ann c t => compile o (c.merge cs) t
  | cs, .obj ci fs => objSel o ci cs (compileF o fs)
termination_by structural _ t => t
def compileL (o : DOpts) : Constraints → List Ty → List Meth
  | _, [] => []
  | cs, t :: ts => compile o cs t :: compileL o cs ts
termination_by structural _ ts => ts
def compileF (o : DOpts) : List (FieldInfo × Ty) → List (FieldInfo × Meth)
  | [] => []
  | (f, t) :: fs => (withFbod o f, compile o {} t) :: compileF o fs
termination_by structural fs => fs
def clsL : List Ty → List (Option JClass)
  | [] => []
  | t :: ts => t.factoryCls :: clsL ts
termination_by structural ts => ts
def anyNull : List Ty → Bool
  | [] => false
  | t :: ts => t.isNull || anyNull ts
termination_by structural ts => ts
end

/-! ## compilation with a coercer -/

/-- `union()` when a coercer is set: alternatives with a class are `CoercerMethod`s, so the by-type table
    is never chosen -/
def unionSelC (env : CoerceEnv) (clss : List (Option JClass)) (hasNone : Bool) (ms : List Meth) : Meth :=
  if hasNone && ms.length == 2 then
    match (clss.zip ms).find? (fun p => p.1 != some .null) with
    | some (_, m) => .optionalC env m
    | Option.none => .fail "StopIteration"
  else .union ms

mutual
def compileC (o : DOpts) (env : CoerceEnv) : Constraints → Ty → Meth
  | _, .null => .coerced env .null .none
  | _, .bool => .coerced env .bool .bool
  | cs, .int => .coerced env .int (if cs.hasNum then .cint cs else .int)
  | cs, .float => .coerced env .float
      (if cs.hasNum then .cfloat o.quirks.floatAcceptsBool cs else .float o.quirks.floatAcceptsBool)
  | cs, .str => .coerced env .str (if cs.hasStr then .cstr cs else .str)
  | cs, .any => .any cs
  | cs, .list t => .coerced env .list (listSel o cs (compileC o env {} t))
  | cs, .set t => .coerced env .list (.set cs (compileC o env {} t))
  | cs, .frozenset t => .coerced env .list (.frozenset (listSel o cs (compileC o env {} t)))
  | cs, .vtuple t => .coerced env .list (.vtuple (listSel o cs (compileC o env {} t)))
  | cs, .tuple ts => .coerced env .list (.tuple o.quirks.tupleDropsErrors cs (compileCL o env {} ts))
  | cs, .mapping k v => .coerced env .dict (mappingSel o cs (compileC o env {} k) (compileC o env {} v))
  | cs, .union ts => unionSelC env (clsL ts) (anyNull ts) (compileCL o env cs ts)
  | _, .literal vs => .literalC env vs Option.none
  | _, .enum cls members => .literalC env (members.map (·.2)) (some (cls, members.map (·.1)))
  | cs, .newtype _ t => compileC o env cs t
  | cs, .ann c t => compileC o env (c.merge cs) t
  | cs, .obj ci fs => .coerced env .dict (objSel o ci cs (compileCF o env fs))
termination_by structural _ t => t
def compileCL (o : DOpts) (env : CoerceEnv) : Constraints → List Ty → List Meth
  | _, [] => []
  | cs, t :: ts => compileC o env cs t :: compileCL o env cs ts
termination_by structural _ ts => ts
def compileCF (o : DOpts) (env : CoerceEnv) : List (FieldInfo × Ty) → List (FieldInfo × Meth)
  | [] => []
  | (f, t) :: fs => (withFbod o f, compileC o env {} t) :: compileCF o env fs
termination_by structural fs => fs
end

mutual
/-- an exception raised while the method tree is being built surfaces at the first use -/
def Meth.failure? : Meth → Option String
  | .fail exn => some exn
  | .listCheckOnly _ m | .list _ m | .set _ m | .frozenset m | .vtuple m | .optional m
  | .coerced _ _ m | .optionalC _ m => m.failure?
  | .tuple _ _ ms | .union ms => failureL ms
  | .mappingCheckOnly _ k v | .mapping _ k v => (k.failure?).orElse (fun _ => v.failure?)
  | .simpleObj _ _ fs | .obj _ _ _ _ fs => failureF fs
  | .unionByType tbl => failureT tbl
  | _ => Option.none
termination_by structural m => m
def failureL : List Meth → Option String
  | [] => Option.none
  | m :: ms => (m.failure?).orElse (fun _ => failureL ms)
termination_by structural ms => ms
def failureF : List (FieldInfo × Meth) → Option String
  | [] => Option.none
  | (_, m) :: ms => (m.failure?).orElse (fun _ => failureF ms)
termination_by structural ms => ms
def failureT : List (JClass × Meth) → Option String
  | [] => Option.none
  | (_, m) :: ms => (m.failure?).orElse (fun _ => failureT ms)
termination_by structural ms => ms
end

/-- `deserialize(T, data, **options)` (`schema=` folded into `cs`) -/
def deserialize (o : DOpts) (cs : Constraints) (t : Ty) (d : Py) : Outcome Val :=
  let m := compile o cs t
  match m.failure? with
  | some exn => .crash exn
  | Option.none => run m d

/-- `deserialize(T, data, coerce=True, **options)` -/
def deserializeC (o : DOpts) (env : CoerceEnv) (cs : Constraints) (t : Ty) (d : Py) : Outcome Val :=
  let m := compileC o env cs t
  match m.failure? with
  | some exn => .crash exn
  | Option.none => run m d

end Api
