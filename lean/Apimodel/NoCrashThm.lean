import Apimodel.UnionThm
/-!
# C03 (no crash): on JSON data a compiled method returns a value or a `ValidationError`, never another exception
-/
namespace Api

mutual
/-- what `json.loads` can produce, with integers that fit a double (`float(10**400)` overflows: row 12) -/
def Py.json : Py → Bool
  | .null | .bool _ | .float _ | .str _ => true
  | .int i => (intToFlt i).isSome
  | .list xs => jsonL xs
  | .dict kvs => jsonK kvs
  | .dictNS _ | .other _ => false
termination_by structural d => d
def jsonL : List Py → Bool
  | [] => true
  | x :: xs => x.json && jsonL xs
termination_by structural xs => xs
def jsonK : List (String × Py) → Bool
  | [] => true
  | (_, v) :: kvs => v.json && jsonK kvs
termination_by structural kvs => kvs
end

theorem jsonL_mem : ∀ {xs : List Py}, jsonL xs = true → ∀ x ∈ xs, x.json = true
  | [], _, x, hx => by cases hx
  | y :: ys, h, x, hx => by
    rw [jsonL, Bool.and_eq_true] at h
    rcases List.mem_cons.1 hx with rfl | hm
    · exact h.1
    · exact jsonL_mem h.2 x hm

theorem jsonK_mem : ∀ {kvs : List (String × Py)}, jsonK kvs = true → ∀ kv ∈ kvs, kv.2.json = true
  | [], _, x, hx => by cases hx
  | (k, v) :: ys, h, x, hx => by
    rw [jsonK, Bool.and_eq_true] at h
    rcases List.mem_cons.1 hx with rfl | hm
    · exact h.1
    · exact jsonK_mem h.2 x hm


mutual
/-- the same, where a *leaf* may also be any object that is not an instance of the JSON classes (tuple, bytes, a set,
    `object()`, ...): since the repair of row 6 `bad_type` names its class instead of raising, so such data are rejected
    like any ill-typed datum -/
def Py.jsonX : Py → Bool
  | .null | .bool _ | .float _ | .str _ | .other _ => true
  | .int i => (intToFlt i).isSome
  | .list xs => jsonXL xs
  | .dict kvs => jsonXK kvs
  | .dictNS _ => false
termination_by structural d => d
def jsonXL : List Py → Bool
  | [] => true
  | x :: xs => x.jsonX && jsonXL xs
termination_by structural xs => xs
def jsonXK : List (String × Py) → Bool
  | [] => true
  | (_, v) :: kvs => v.jsonX && jsonXK kvs
termination_by structural kvs => kvs
end

theorem jsonXL_mem : ∀ {xs : List Py}, jsonXL xs = true → ∀ x ∈ xs, x.jsonX = true
  | [], _, x, hx => by cases hx
  | y :: ys, h, x, hx => by
    rw [jsonXL, Bool.and_eq_true] at h
    rcases List.mem_cons.1 hx with rfl | hm
    · exact h.1
    · exact jsonXL_mem h.2 x hm

theorem jsonXK_mem : ∀ {kvs : List (String × Py)}, jsonXK kvs = true → ∀ kv ∈ kvs, kv.2.jsonX = true
  | [], _, x, hx => by cases hx
  | (k, v) :: ys, h, x, hx => by
    rw [jsonXK, Bool.and_eq_true] at h
    rcases List.mem_cons.1 hx with rfl | hm
    · exact h.1
    · exact jsonXK_mem h.2 x hm

/-- JSON data are in the extended domain -/
theorem jsonX_of_json :
    (∀ d : Py, d.json = true → d.jsonX = true) ∧ (∀ kvs, jsonK kvs = true → jsonXK kvs = true) ∧
    (∀ xs, jsonL xs = true → jsonXL xs = true) := by
  apply Py.json.mutual_induct
  · intro _; rw [Py.jsonX]
  · intro b _; rw [Py.jsonX]
  · intro f _; rw [Py.jsonX]
  · intro s _; rw [Py.jsonX]
  · intro i h; rw [Py.json] at h; rw [Py.jsonX]; exact h
  · intro xs ih h; rw [Py.json] at h; rw [Py.jsonX]; exact ih h
  · intro kvs ih h; rw [Py.json] at h; rw [Py.jsonX]; exact ih h
  · intro kvs h; rw [Py.json] at h; cases h
  · intro c h; rw [Py.json] at h; cases h
  · intro _; rw [jsonXL]
  · intro x xs ih1 ih2 h; rw [jsonL, Bool.and_eq_true] at h; rw [jsonXL, ih1 h.1, ih2 h.2]; rfl
  · intro _; rw [jsonXK]
  · intro k v kvs ih1 ih2 h; rw [jsonK, Bool.and_eq_true] at h; rw [jsonXK, ih1 h.1, ih2 h.2]; rfl

theorem nc_badType {exps d} (h : d.jsonX = true) : (badType exps d).isCrash = false := by
  cases d <;> first | rfl | cases h

theorem nc_constrained (rs v) : (constrained rs v).isCrash = false := by
  unfold constrained; cases rs <;> rfl

/-- never anything but a value or a `ValidationError`, on JSON data -/
def NC (m : Meth) : Prop := ∀ d, d.jsonX = true → (run m d).isCrash = false

theorem collect_nocrash (f : Py → Outcome Val) : ∀ (xs : List Py) (i : Nat),
    (∀ x ∈ xs, (f x).isCrash = false) → (collect f i xs).crash = Option.none
  | [], _, _ => rfl
  | x :: xs, i, h => by
    have hx := h x (List.mem_cons_self ..)
    have ih := collect_nocrash f xs (i+1) (fun y hy => h y (List.mem_cons_of_mem _ hy))
    rw [collect]
    cases hr : f x with
    | ok v => simp [stepAcc, ih]
    | invalid e => simp [stepAcc, ih]
    | crash c => rw [hr] at hx; cases hx

theorem nc_finish {own acc} {mk : List Val → Outcome Val} (ha : acc.crash = Option.none) (ho : own.isSome = true)
    (hmk : ∀ vs, (mk vs).isCrash = false) : (finish own acc mk).isCrash = false := by
  unfold finish
  rw [ha]
  cases own with
  | none => cases ho
  | some rs =>
    cases rs with
    | nil => simp only; split <;> first | exact hmk _ | rfl
    | cons r rs => rfl

theorem listErrors_isSome (c : Constraints) (xs : List Py) (hu : c.unique = false) : (c.listErrors xs).isSome = true := by
  unfold Constraints.listErrors; simp [hu]

theorem nc_listLike {c : Constraints} {m : Meth} (hu : c.unique = false) (hm : NC m)
    (mk : Py → List Val → Outcome Val) (hmk : ∀ d vs, (mk d vs).isCrash = false) (d : Py) (hd : d.jsonX = true) :
    (onList d (fun xs => finish (c.listErrors xs) (collect (fun x => run m x) 0 xs) (mk d))).isCrash = false := by
  cases d <;> try (first | exact nc_badType hd | cases hd)
  case list xs =>
    rw [Py.jsonX] at hd
    exact nc_finish (collect_nocrash _ xs 0 (fun x hx => hm x (jsonXL_mem hd x hx))) (listErrors_isSome c xs hu) (hmk _)

theorem nc_listSel {o : DOpts} {c : Constraints} {m : Meth} (hu : c.unique = false) (hm : NC m) : NC (listSel o c m) := by
  intro d hd
  unfold listSel; split
  · rw [run]; exact nc_listLike hu hm (fun d _ => .ok (asVal d)) (fun _ _ => rfl) d hd
  · rw [run]; exact nc_listLike hu hm (fun _ vs => .ok (.list vs)) (fun _ _ => rfl) d hd

theorem nc_mapVal_tuple {r : Outcome Val} (h : r.isCrash = false) : (mapVal r listToTuple).isCrash = false := by
  cases r with
  | ok v => cases v <;> rfl
  | invalid e => rfl
  | crash c => cases h

theorem runTuple_nocrash : ∀ (ms : List Meth) (xs : List Py) (i : Nat),
    (∀ m ∈ ms, NC m) → jsonXL xs = true → (runTuple ms i xs).crash = Option.none
  | [], xs, i, _, _ => by cases xs <;> simp [runTuple]
  | m :: ms, [], i, _, _ => by simp [runTuple]
  | m :: ms, x :: xs, i, h, hx => by
    rw [jsonXL, Bool.and_eq_true] at hx
    rw [runTuple]
    have ih := runTuple_nocrash ms xs (i+1) (fun m' hm' => h m' (List.mem_cons_of_mem _ hm')) hx.2
    have hm := h m (List.mem_cons_self ..) x hx.1
    cases hr : run m x with
    | ok v => simp [stepAcc, ih]
    | invalid e => simp [stepAcc, ih]
    | crash c => rw [hr] at hm; cases hm

theorem collectItems_nocrash (kf : Bool) (fk fv : Py → Outcome Val) : ∀ (kvs : List (String × Py)),
    (∀ kv ∈ kvs, (fk (.str kv.1)).isCrash = false ∧ (fv kv.2).isCrash = false) →
    (collectItems kf fk fv kvs).crash = Option.none
  | [], _ => rfl
  | (k, v) :: kvs, h => by
    have ih := collectItems_nocrash kf fk fv kvs (fun kv hkv => h kv (List.mem_cons_of_mem _ hkv))
    obtain ⟨h1, h2⟩ := h (k, v) (List.mem_cons_self ..)
    rw [collectItems]
    unfold stepItem
    cases kf <;> cases hk : fk (.str k) <;> cases hv : fv v <;> simp_all [Outcome.isCrash]

theorem nc_finishMap {own acc v} (ha : acc.crash = Option.none) : (finishMap own acc v).isCrash = false := by
  unfold finishMap; rw [ha]
  cases own with
  | nil => simp only; split <;> rfl
  | cons r rs => rfl

theorem nc_mappingSel {o : DOpts} {c : Constraints} {km vm : Meth} (hk : NC km) (hv : NC vm) : NC (mappingSel o c km vm) := by
  intro d hd
  have key : ∀ (kf : Bool) (v : List (String × Py) → Val), (onDict d (fun kvs => finishMap (c.dictErrors kvs.length)
      (collectItems kf (fun x => run km x) (fun x => run vm x) kvs) (v kvs))).isCrash = false := by
    intro kf v
    cases d <;> try (first | exact nc_badType hd | cases hd)
    case dict kvs =>
      rw [Py.jsonX] at hd
      exact nc_finishMap (collectItems_nocrash kf _ _ kvs (fun kv hkv => ⟨hk _ rfl, hv _ (jsonXK_mem hd kv hkv)⟩))
  unfold mappingSel; split
  · rw [run]; exact key true (fun _ => asVal d)
  · rw [run]; exact key false _

theorem lookupKey_json {kvs : List (String × Py)} {k : String} {x : Py} (hj : jsonXK kvs = true)
    (h : lookupKey kvs k = some x) : x.jsonX = true := by
  unfold lookupKey at h
  cases hf : kvs.find? (fun kv => kv.1 == k) with
  | none => rw [hf] at h; cases h
  | some kv =>
    rw [hf] at h
    have := jsonXK_mem hj kv (List.mem_of_find?_eq_some hf)
    simp at h; rw [← h]; exact this

theorem runFields_nocrash (u : Bool) : ∀ (fs : List (FieldInfo × Meth)) (kvs : List (String × Py)),
    (∀ p ∈ fs, NC p.2) → jsonXK kvs = true → (runFields u fs kvs).crash = Option.none
  | [], _, _, _ => by rw [runFields]
  | (f, m) :: fs, kvs, h, hj => by
    have ih := runFields_nocrash u fs kvs (fun p hp => h p (List.mem_cons_of_mem _ hp)) hj
    have hm := h (f, m) (List.mem_cons_self ..)
    rw [runFields]
    unfold stepField
    cases hl : lookupKey kvs f.alias with
    | none => first | (simp only [Option.map_none]; split <;> simp [ih]) | simp [ih]
    | some x =>
      have hx := hm x (lookupKey_json hj hl)
      simp only [Option.map_some]
      cases hr : run m x with
      | ok v => simp [ih]
      | invalid e => simp only; split <;> simp [ih]
      | crash c => rw [hr] at hx; cases hx

theorem nc_objSel {o : DOpts} {ci : ClassInfo} {c : Constraints} {fs : List (FieldInfo × Meth)}
    (h : ∀ p ∈ fs, NC p.2) : NC (objSel o ci c fs) := by
  intro d hd
  unfold objSel; dsimp only; split
  · rw [run]
    cases d <;> try (first | exact nc_badType hd | cases hd)
    case dict kvs =>
      rw [Py.jsonX] at hd
      simp only [onDict]; unfold finishSimple
      rw [runFields_nocrash false fs kvs h hd]
      simp only; (repeat' split) <;> rfl
  · rw [run]
    cases d <;> try (first | exact nc_badType hd | cases hd)
    case dict kvs =>
      rw [Py.jsonX] at hd
      simp only [onDict]; unfold finishObj
      rw [runFields_nocrash true fs kvs h hd]
      simp only; (repeat' split) <;> rfl

theorem nc_optional {m : Meth} (hm : NC m) : NC (.optional m) := by
  intro d hd
  rw [run]; split
  · rfl
  · unfold optionalTail
    have h1 := hm d hd
    have h2 := nc_badType (exps := [.null]) hd
    cases hr : run m d with
    | ok v => rfl
    | crash c => rw [hr] at h1; cases h1
    | invalid e =>
      simp only
      cases hb : badType [JClass.null] d with
      | ok v => rfl
      | invalid b => rfl
      | crash c => rw [hb] at h2; cases h2

theorem nc_literal (vs en) : NC (.literal vs en) := by
  intro d hd
  rw [run]; unfold runLiteral
  split
  · exact nc_badType hd
  · split
    · split <;> rfl
    · split <;> rfl

/-! ### no crash of the two general union methods -/
theorem runUnion_nc : ∀ (ms : List Meth) (d : Py) (err : Option Err),
    (∀ m ∈ ms, (run m d).isCrash = false) → (ms ≠ [] ∨ err.isSome = true) → (runUnion ms d err).isCrash = false
  | [], d, err, _, hne => by
    rw [runUnion]; unfold unionEnd
    cases err with
    | none => rcases hne with h | h <;> simp at h
    | some e => rfl
  | m :: ms, d, err, h, _ => by
    rw [runUnion]
    have hm := h m (List.mem_cons_self ..)
    unfold unionStep
    cases hr : run m d with
    | ok v => rfl
    | crash c => rw [hr] at hm; cases hm
    | invalid e => exact runUnion_nc ms d _ (fun m' hm' => h m' (List.mem_cons_of_mem _ hm')) (Or.inr rfl)

theorem nc_union {ms : List Meth} (hne : ms ≠ []) (h : ∀ m ∈ ms, NC m) : NC (.union ms) := by
  intro d hd; rw [run]
  exact runUnion_nc ms d Option.none (fun m hm => h m hm d hd) (Or.inl hne)

theorem nc_byTypeTail {others d r} (hr : r.isCrash = false) : (byTypeTail others d r).isCrash = false := by
  unfold byTypeTail
  cases r with
  | ok v => rfl
  | crash c => cases hr
  | invalid e => simp only [badType]; rfl

theorem runByType_nc : ∀ (rest all : List (JClass × Meth)) (c : JClass) (d : Py),
    (∀ p ∈ rest, (run p.2 d).isCrash = false) → (runByType rest all c d).isCrash = false
  | [], all, c, d, _ => by rw [runByType]; rfl
  | (c', m) :: rest, all, c, d, h => by
    rw [runByType]
    split
    · exact nc_byTypeTail (h (c', m) (List.mem_cons_self ..))
    · exact runByType_nc rest all c d (fun p hp => h p (List.mem_cons_of_mem _ hp))

theorem nc_unionByType {tbl : List (JClass × Meth)} (h : ∀ p ∈ tbl, NC p.2) : NC (.unionByType tbl) := by
  intro d hd; rw [run]
  cases hc : d.jclass? with
  | none => rfl
  | some c => exact runByType_nc tbl tbl c d (fun p hp => h p hp d hd)

/-- whichever method `union()` selects, it does not crash when the alternatives do not (and `next(...)` finds the
    alternative that is not `None` when `OptionalMethod` is chosen) -/
theorem nc_unionSel {clss : List (Option JClass)} {hasNone : Bool} {ms : List Meth} (hne : ms ≠ [])
    (hfind : ((clss.zip ms).find? (fun p => p.1 != some .null)).isSome = true)
    (h : ∀ m ∈ ms, NC m) : NC (unionSel clss hasNone ms) := by
  unfold unionSel
  simp only
  split
  · split
    · next p m hf =>
      have := List.mem_of_find?_eq_some hf
      exact nc_optional (h m (List.of_mem_zip this).2)
    · next hf => rw [hf] at hfind; cases hfind
  · split
    · exact nc_unionByType (fun p hp => h p.2 (List.of_mem_zip hp).2)
    · exact nc_union hne h

theorem merge_unique' {c cs : Constraints} (h1 : c.unique = false) (h2 : cs.unique = false) :
    (c.merge cs).unique = false := by
  show (c.unique || cs.unique) = false
  rw [h1, h2]; rfl

mutual
-- no `uniqueItems` constraint anywhere (on unhashable items it is a `TypeError`)
def Ty.nouq : Ty → Bool
  | .list t | .vtuple t | .set t | .frozenset t | .newtype _ t => t.nouq
  | .ann c t => !c.unique && t.nouq
  | .tuple ts | .union ts => nouqL ts
  | .mapping k v => k.nouq && v.nouq
  | .obj _ fs => nouqF fs
  | _ => true
termination_by structural t => t
def nouqL : List Ty → Bool
  | [] => true
  | t :: ts => t.nouq && nouqL ts
termination_by structural ts => ts
def nouqF : List (FieldInfo × Ty) → Bool
  | [] => true
  | (_, t) :: fs => t.nouq && nouqF fs
termination_by structural fs => fs
end

theorem nc_prim_int (c : Constraints) : ∀ d, d.jsonX = true → (runInt c d).isCrash = false := by
  intro d hd; cases d <;> first | exact nc_constrained _ _ | exact nc_badType hd | cases hd
theorem nc_prim_str (c : Constraints) : ∀ d, d.jsonX = true → (runStr c d).isCrash = false := by
  intro d hd; cases d <;> first | exact nc_constrained _ _ | exact nc_badType hd | cases hd
theorem nc_prim_float (c : Constraints) : ∀ d, d.jsonX = true → (runFloat false c d).isCrash = false := by
  intro d hd
  cases d <;> try (first | exact nc_constrained _ _ | exact nc_badType hd | cases hd)
  case int i =>
    rw [Py.jsonX] at hd
    show (intAsFloat c i).isCrash = false
    unfold intAsFloat
    cases hi : intToFlt i with
    | none => rw [hi] at hd; cases hd
    | some f => exact nc_constrained _ _
theorem nc_any (c : Constraints) (hu : c.unique = false) : ∀ d, d.jsonX = true → (runAny c d).isCrash = false := by
  intro d hd
  cases d <;> try (first | exact nc_constrained _ _ | rfl | cases hd)
  case list xs =>
    have := listErrors_isSome c xs hu
    cases hl : c.listErrors xs with
    | none => rw [hl] at this; cases this
    | some rs => simp only [runAny, hl]; exact nc_constrained _ _

/-- **C03 (no crash), version 2.** For every type of the scope `Ty.accU` (unions of any shape at any depth) without
    `uniqueItems`, every inherited constraint set, every option record with the two repairs, and every JSON datum
    (integers within the range of a double; tuples / bytes allowed as leaves), the compiled method returns a value or
    a `ValidationError`: whichever of `OptionalMethod`, `UnionByTypeMethod`, `UnionMethod` is selected. -/
theorem no_crashU (o : DOpts) (ho : OptsOk o) :
    (∀ cs t, t.accU = true → t.nouq = true → cs.unique = false → NC (compile o cs t)) ∧
    (∀ fs, accUF fs = true → nouqF fs = true → ∀ p ∈ compileF o fs, NC p.2) ∧
    (∀ cs ts, accUL ts = true → nouqL ts = true → cs.unique = false → ∀ m ∈ compileL o cs ts, NC m) := by
  have hq1 : o.quirks.floatAcceptsBool = false := by rw [ho.quirks]; rfl
  have hq2 : o.quirks.tupleDropsErrors = false := by rw [ho.quirks]; rfl
  apply compile.mutual_induct
  · intro cs _ _ _ d hd; rw [compile, run]; cases d <;> first | rfl | exact nc_badType hd | cases hd
  · intro cs _ _ _ d hd; rw [compile, run]; cases d <;> first | rfl | exact nc_badType hd | cases hd
  · intro cs h _ _ _ d hd; rw [compile, if_pos h, run]; exact nc_prim_int _ d hd
  · intro cs h _ _ _ d hd; rw [compile, if_neg h, run]; exact nc_prim_int _ d hd
  · intro cs h _ _ _ d hd; rw [compile, if_pos h, hq1, run]; exact nc_prim_float _ d hd
  · intro cs h _ _ _ d hd; rw [compile, if_neg h, hq1, run]; exact nc_prim_float _ d hd
  · intro cs h _ _ _ d hd; rw [compile, if_pos h, run]; exact nc_prim_str _ d hd
  · intro cs h _ _ _ d hd; rw [compile, if_neg h, run]; exact nc_prim_str _ d hd
  · intro cs _ _ hu d hd; rw [compile, run]; exact nc_any cs hu d hd
  · intro cs t ih ha hn hu; rw [Ty.accU] at ha; rw [Ty.nouq] at hn
    rw [compile]; exact nc_listSel hu (ih ha hn rfl)
  · intro cs t _ ha; rw [Ty.accU] at ha; cases ha
  · intro cs t _ ha; rw [Ty.accU] at ha; cases ha
  · intro cs t ih ha hn hu; rw [Ty.accU] at ha; rw [Ty.nouq] at hn
    rw [compile]; intro d hd; rw [run]
    exact nc_mapVal_tuple (nc_listSel hu (ih ha hn rfl) d hd)
  · -- tuple
    intro cs ts ih ha hn hu; rw [Ty.accU] at ha; rw [Ty.nouq] at hn
    rw [compile, hq2]; intro d hd; rw [run]
    cases d <;> try (first | exact nc_badType hd | cases hd)
    case list xs =>
      rw [Py.jsonX] at hd
      simp only [onList]; unfold tupleBody
      split
      · rfl
      · split
        · rfl
        · exact nc_finish (runTuple_nocrash _ xs 0 (ih ha hn rfl) hd) (listErrors_isSome cs xs hu) (fun _ => rfl)
  · intro cs k v ihk ihv ha hn hu
    rw [Ty.accU, Bool.and_eq_true] at ha; rw [Ty.nouq, Bool.and_eq_true] at hn
    rw [compile]; exact nc_mappingSel (ihk ha.1 hn.1 rfl) (ihv ha.2 hn.2 rfl)
  · -- unions of any shape
    intro cs ts ih ha hn hu; rw [Ty.accU] at ha; rw [Ty.nouq] at hn
    simp only [Bool.and_eq_true, Bool.not_eq_true', Bool.not_eq_eq_eq_not, Bool.not_true] at ha
    rw [compile]
    have hne : compileL o cs ts ≠ [] := by
      cases ts with
      | nil => simp at ha
      | cons t ts => rw [compileL]; exact List.cons_ne_nil _ _
    exact nc_unionSel hne (find_nonNull o cs ts ha.1.2 ha.2) (ih ha.1.1 hn hu)
  · intro cs vs _ _ _; rw [compile]; exact nc_literal _ _
  · intro cs c ms _ _ _; rw [compile]; exact nc_literal _ _
  · intro cs n t ih ha hn hu; rw [Ty.accU] at ha; rw [Ty.nouq] at hn; rw [compile]; exact ih ha hn hu
  · intro cs c t ih ha hn hu; rw [Ty.accU] at ha; rw [Ty.nouq] at hn
    simp only [Bool.and_eq_true, Bool.not_eq_true'] at hn
    rw [compile]; exact ih ha hn.2 (merge_unique' hn.1 hu)
  · intro cs ci fs ih ha hn _
    rw [Ty.accU, Bool.and_eq_true] at ha; rw [Ty.nouq] at hn
    rw [compile]; exact nc_objSel (ih ha.2 hn)
  · intro cs _ _ _ m hm; rw [compileL] at hm; cases hm
  · intro cs t ts iht ihts ha hn hu m hm
    rw [accUL, Bool.and_eq_true] at ha; rw [nouqL, Bool.and_eq_true] at hn
    rw [compileL] at hm
    rcases List.mem_cons.1 hm with rfl | hm'
    · exact iht ha.1 hn.1 hu
    · exact ihts ha.2 hn.2 hu m hm'
  · intro _ _ p hp; rw [compileF] at hp; cases hp
  · intro f t fs iht ihfs ha hn p hp
    rw [accUF] at ha; simp only [Bool.and_eq_true, Bool.not_eq_true'] at ha
    rw [nouqF, Bool.and_eq_true] at hn
    rw [compileF] at hp
    rcases List.mem_cons.1 hp with rfl | hp'
    · exact iht ha.1.2 hn.1 rfl
    · exact ihfs ha.2 hn.2 p hp'


/-- **C03 (no crash), version 1**: the statement over `Ty.acc` (a union is only `Optional[T]`) -/
theorem no_crash (o : DOpts) (ho : OptsOk o) :
    (∀ cs t, t.acc = true → t.nouq = true → cs.unique = false → NC (compile o cs t)) ∧
    (∀ fs, accF fs = true → nouqF fs = true → ∀ p ∈ compileF o fs, NC p.2) ∧
    (∀ cs ts, accL ts = true → nouqL ts = true → cs.unique = false → ∀ m ∈ compileL o cs ts, NC m) :=
  ⟨fun cs t ha => (no_crashU o ho).1 cs t (acc_accU.1 t ha),
   fun fs ha => (no_crashU o ho).2.1 fs (acc_accU.2.1 fs ha),
   fun cs ts ha => (no_crashU o ho).2.2 cs ts (acc_accU.2.2.2 ts ha)⟩

/-- entry point -/
theorem C03_no_crashU (o : DOpts) (ho : OptsOk o) (t : Ty) (ha : t.accU = true) (hn : t.nouq = true)
    (d : Py) (hd : d.jsonX = true) : (deserialize o {} t d).isCrash = false := by
  unfold deserialize
  simp only [(compile_noFailU o).1 {} t ha]
  exact (no_crashU o ho).1 {} t ha hn rfl d hd

theorem C03_no_crash (o : DOpts) (ho : OptsOk o) (t : Ty) (ha : t.acc = true) (hn : t.nouq = true)
    (d : Py) (hd : d.jsonX = true) : (deserialize o {} t d).isCrash = false :=
  C03_no_crashU o ho t (acc_accU.1 t ha) hn d hd

/-- in particular on JSON data -/
theorem C03_no_crash_json (o : DOpts) (ho : OptsOk o) (t : Ty) (ha : t.acc = true) (hn : t.nouq = true)
    (d : Py) (hd : d.json = true) : (deserialize o {} t d).isCrash = false :=
  C03_no_crash o ho t ha hn d (jsonX_of_json.1 d hd)

/-- non-vacuity of the extended domain: a tuple inside a list where integers are expected is rejected, not a crash -/
example : (Py.list [.int 1, .other "tuple"]).jsonX = true ∧
    (deserialize { quirks := Quirks.repaired } {} (.list .int) (.list [.int 1, .other "tuple"])).isCrash = false := by decide +kernel

/-- outside the hypotheses the tree still crashes (rows 8 of DESIGN section 6, recorded as known findings KF08a / KF08b):
    an integer beyond the doubles where `float` is expected, unhashable elements where a set is built.
    (A non-JSON object such as a tuple no longer crashes since the repair of row 6: `bad_type` is total.) -/
theorem C03_crash_counterexamples :
    (deserialize {} {} .float (.int (10 ^ 400))).isCrash = true
    ∧ (deserialize {} {} (.set (.list .int)) (.list [.list [.int 1]])).isCrash = true
    ∧ (deserialize {} {} .int (.other "tuple")).isCrash = false := by decide +kernel

end Api
