import Apimodel.ObjTailSrc
import Apimodel.Generated.ObjTail
/-! Source tie of the end of `ObjectMethod.deserialize` (C01, C02): unexpected keys and TypedDict extras, as written, are what `finishObj` computes. -/
namespace Api
open BExpr

theorem tail_covered (ap td n : Bool) :
    covered (tailTbl ap td n) Generated.tail_aggGuard = true ∧ covered (tailTbl ap td n) Generated.tail_outer = true ∧
    Generated.tail_chain.all (fun ga => covered (tailTbl ap td n) ga.1 && (match ga.2 with | .unknown _ => false | _ => true)) = true := by
  cases ap <;> cases td <;> cases n <;> decide +kernel

/-- the decisions of the tail, on Booleans -/
theorem tail_core (ap td n : Bool) (names aliases : List String) (kvs : List (String × Py)) (st : TailState) :
    tailSrcB Generated.tail_aggGuard Generated.tail_outer Generated.tail_chain ap td n names aliases kvs st =
      (if n && !ap then runTAction names aliases kvs st .unexpected else if n && ap && td then runTAction names aliases kvs st .extras else st) := by
  cases ap <;> cases td <;> cases n <;> rfl

/-- C01 / C02 (source tie): after the field loop, the errors and the values are those of the model's `finishObj` (before the
`dependent_required` errors, which the source adds inside the loop: `fieldLoop_dep`) -/
theorem tail_matches_source (ci : ClassInfo) (infos : List FieldInfo) (ap : Bool) (aliases : List String) (acc : FAcc) (kvs : List (String × Py)) :
    let st := tailSrc Generated.tail_aggGuard Generated.tail_outer Generated.tail_chain ap (ci.kind == .typedDict) (infos.map (·.name)) aliases kvs acc.count
                ⟨acc.errs, acc.vals, false⟩
    st.bad = false ∧
    st.errs = (if kvs.length != acc.count && !ap then addUnexpected (unexpectedKeys aliases kvs) acc.errs else acc.errs) ∧
    st.vals = (if kvs.length != acc.count && ap && ci.kind == .typedDict
               then acc.vals ++ extraVals (infos.map (·.name)) aliases kvs
               else acc.vals) := by
  simp only [tailSrc, tail_core]
  cases (kvs.length != acc.count) <;> cases ap <;> cases (ci.kind == .typedDict) <;> simp [runTAction]

/-- the parts taken as given -/
theorem tail_pinned :
    Generated.tail_aggSrc = "self.aggregate_fields = bool(self.flattened_fields or self.pattern_fields or self.additional_field is not None)\nself.field_names = {f.name for f in self.fields}" ∧
    Generated.tail_end = "elif field_errors or errors: raise ValidationError(errors or [], field_errors or {}) | return self.constructor.construct(values)" := by
  refine ⟨?_, ?_⟩ <;> decide +kernel

end Api
