import Apimodel.UnionThm
/-!
# C14: coercion only widens acceptance

`compileC` is the method tree built when a coercer is set; `compile` the strict one.
-/
namespace Api

/-! ### `coerce` leaves a datum of the expected class alone, and only ever rewrites primitives -/

theorem coerce_instance (env : CoerceEnv) (c : JClass) (d : Py) (h : d.isInstance c = true) :
    coerce env c d = .ok d := by
  cases c <;> cases d <;> first | rfl | cases h

def Py.isPrim : Py → Bool
  | .null | .bool _ | .int _ | .float _ | .str _ => true
  | _ => false

/-- **C14 (what may be converted).** Whatever `coerce` returns is the datum itself or a primitive made
    from a primitive. -/
theorem coerce_prim (env : CoerceEnv) (c : JClass) (d d' : Py) (h : coerce env c d = .ok d') :
    d' = d ∨ (d.isPrim = true ∧ d'.isPrim = true) := by
  cases c <;> cases d <;> simp only [coerce, badTypeP, failAs, truncFlt] at h <;>
    first
    | (cases h <;> first | exact Or.inl rfl | exact Or.inr ⟨rfl, rfl⟩)
    | (split at h <;> cases h <;> first | exact Or.inl rfl | exact Or.inr ⟨rfl, rfl⟩)
    | (split at h <;> split at h <;> cases h <;> first | exact Or.inl rfl | exact Or.inr ⟨rfl, rfl⟩)

/-- the documented table of conversions: `''` to `None`; a boolean word or an integer to `bool`; a string or a float to
    `int`; a string or an integer to `float`; a number to `str`.  Nothing else - in particular no `bool` where a number
    is expected - is ever converted. -/
def inCoerceTable (env : CoerceEnv) : JClass → Py → Bool
  | .null, .str s => s == ""
  | .bool, .str s => (assoc? s.toLower env.boolWords).isSome
  | .bool, .int _ => true
  | .int, .float _ | .int, .str _ => true
  | .float, .int _ | .float, .str _ => true
  | .str, .int _ | .str, .float _ => true
  | _, _ => false

/-- **C14 (the table).** A datum that `coerce` accepts is returned as it is, or is one of the documented
    (expected class, datum) conversions. -/
theorem C14_coerce_table (env : CoerceEnv) (c : JClass) (d d' : Py) (h : coerce env c d = .ok d') :
    d' = d ∨ inCoerceTable env c d = true := by
  cases c <;> cases d <;>
    first
    | exact Or.inr rfl
    | (rw [coerce_instance env _ _ rfl] at h; cases h; exact Or.inl rfl)
    | (simp only [coerce, badTypeP, failAs, badType, Py.isInstance] at h; cases h; done)
    | (simp only [coerce, badTypeP, failAs] at h
       split at h
       · exact Or.inr (by simp_all [inCoerceTable])
       · cases h)

/-- a boolean is converted to no number, and no number other than an integer to a boolean -/
example (env : CoerceEnv) : (coerce env .float (.bool true)).isOk = false ∧ (coerce env .bool (.float (.fin 1))).isOk = false ∧
    coerce env .int (.bool true) = .ok (.bool true) := ⟨rfl, rfl, rfl⟩

theorem run_coerced_ok {env c m d d'} (h : coerce env c d = .ok d') :
    run (.coerced env c m) d = run m d' := by
  rw [run, h]; rfl

/-! ### monotonicity -/

/-- everything `m` accepts, `m'` accepts -/
def Mono (m m' : Meth) : Prop := ∀ d, d.wf = true → (run m d).isOk = true → (run m' d).isOk = true

theorem Mono.refl (m : Meth) : Mono m m := fun _ _ h => h
theorem Mono.trans {a b c : Meth} (h1 : Mono a b) (h2 : Mono b c) : Mono a c := fun d hw h => h2 d hw (h1 d hw h)

theorem mono_coerced_inst {env : CoerceEnv} {c : JClass} {m : Meth}
    (h : ∀ d, (run m d).isOk = true → d.isInstance c = true) : Mono m (.coerced env c m) := by
  intro d _ hd
  rw [run_coerced_ok (coerce_instance env c d (h d hd))]; exact hd

theorem listOk_inst {c d p} (h : listOk c d p = true) : d.isInstance .list = true := by
  cases d <;> first | rfl | cases h
theorem tupleOk_inst {c d n p} (h : tupleOk c d n p = true) : d.isInstance .list = true := by
  cases d <;> first | rfl | cases h
theorem dictOk_inst {c d p} (h : dictOk c d p = true) : d.isInstance .dict = true := by
  cases d <;> first | rfl | cases h

theorem listOk_mono {c d} {p q : Py → Bool} (h : ∀ xs, d = .list xs → ∀ x ∈ xs, p x = true → q x = true)
    (hp : listOk c d p = true) : listOk c d q = true := by
  cases d <;> try (cases hp)
  case list xs =>
    simp only [listOk, Bool.and_eq_true, List.all_eq_true] at hp ⊢
    exact ⟨hp.1, fun x hx => h xs rfl x hx (hp.2 x hx)⟩

theorem dictOk_mono {c d} {p q : List (String × Py) → Bool} (h : ∀ x, p x = true → q x = true)
    (hp : dictOk c d p = true) : dictOk c d q = true := by
  cases d <;> try (cases hp)
  case dict kvs =>
    simp only [dictOk, Bool.and_eq_true] at hp ⊢
    exact ⟨hp.1, h kvs hp.2⟩

abbrev MonoL := All2 Mono

theorem zipOkM_mono {ms ms' : List Meth} (h : MonoL ms ms') : ∀ xs, wfL xs = true → zipOkM ms xs = true → zipOkM ms' xs = true := by
  induction h with
  | nil => intro xs _ _; cases xs <;> rfl
  | cons hm _ ih =>
    intro xs hw hx
    cases xs with
    | nil => rfl
    | cons x xs =>
      rw [wfL, Bool.and_eq_true] at hw
      simp only [zipOkM, Bool.and_eq_true] at hx ⊢
      exact ⟨hm x hw.1 hx.1, ih xs hw.2 hx.2⟩

theorem mono_listSel {o : DOpts} {c : Constraints} {m m' : Meth} (h : Mono m m') :
    Mono (listSel o c m) (listSel o c m') := by
  intro d hw hd
  rw [isOk_listSel] at hd ⊢
  refine listOk_mono (fun xs hxs x hx => ?_) hd
  subst hxs; rw [Py.wf] at hw
  exact h x (wfL_mem hw x hx)

theorem isOk_optionalC_of (env : CoerceEnv) (m : Meth) (d : Py) (h : d.isNull = true ∨ (run m d).isOk = true) :
    (run (.optionalC env m) d).isOk = true := by
  rw [run]
  by_cases hn : d.isNull = true
  · rw [if_pos hn]; rfl
  · rw [if_neg hn]
    cases h with
    | inl h => exact absurd h hn
    | inr h =>
      cases hr : run m d with
      | ok v => rfl
      | invalid e => rw [hr] at h; cases h
      | crash x => rw [hr] at h; cases h

theorem runLiteralC_of_ok (env : CoerceEnv) (vs en d) (h : (runLiteral vs en d).isOk = true) :
    runLiteralC env vs en d = runLiteral vs en d := by
  rw [isOk_runLiteral, Bool.and_eq_true] at h
  unfold runLiteralC
  simp only [h.1, Bool.not_true, Bool.false_eq_true, if_false]
  have hm := lastMatch_isSome d vs 0 Option.none
  rw [h.2] at hm
  cases hl : runLiteral.lastMatch d vs 0 Option.none with
  | some p => rfl
  | none => rw [hl] at hm; cases hm

-- the object-free fragment; unions in the `Optional` shape
mutual
def Ty.cfrag : Ty → Bool
  | .set _ | .frozenset _ => false
  | .obj _ fs => distinctStrs (aliasesOf fs) && cfragF fs
  | .list t | .vtuple t | .newtype _ t | .ann _ t => t.cfrag
  | .tuple ts => cfragL ts
  | .mapping k v => k.cfrag && v.cfrag
  | .union ts => cfragOpt ts
  | _ => true
termination_by structural t => t
def cfragL : List Ty → Bool
  | [] => true
  | t :: ts => t.cfrag && cfragL ts
termination_by structural ts => ts
def cfragOpt : List Ty → Bool
  | [t, .null] => t.cfrag && (t.factoryCls != some .null)
  | _ => false
termination_by structural ts => ts
def cfragF : List (FieldInfo × Ty) → Bool
  | [] => true
  | (f, t) :: fs => !f.fbod && t.cfrag && cfragF fs
termination_by structural fs => fs
end

/-! ### objects -/
abbrev MonoF := All2 (fun (a b : FieldInfo × Meth) => a.1 = b.1 ∧ Mono a.2 b.2)

theorem isOk_objSel_M {o : DOpts} {ci c} {ms : List (FieldInfo × Meth)} (hnf : NoFbod ms)
    (ha : (aliasesM ms).Nodup) (d : Py) (hw : d.wf = true) :
    (run (objSel o ci c ms) d).isOk
      = dictOk c d (fun kvs => fieldsOkM ms kvs && noUnexpected o.additionalProperties (aliasesM ms) kvs
                                && depOk (infosM ms) kvs) := by
  unfold objSel
  simp only
  split
  · rename_i hcond
    simp only [Bool.and_eq_true, Bool.not_eq_true', beq_iff_eq] at hcond
    obtain ⟨⟨⟨hc, htd⟩, _⟩, hsimple⟩ := hcond
    rw [run]
    cases d <;> simp [onDict, dictOk, isOk_badType]
    case dict kvs =>
      rw [Py.wf, Bool.and_eq_true] at hw
      have hk : (keysOf kvs).Nodup := keysK_eq kvs ▸ nodup_of_distinctStrs hw.1
      rw [isOk_finishSimple hnf hk ha, dictErrors_nil hc, htd, depOk_of_noDeps (simpleOk_noDeps hsimple) kvs]
      simp
  · rw [run]
    cases d <;> simp [onDict, dictOk, isOk_badType]
    case dict kvs =>
      rw [Py.wf, Bool.and_eq_true] at hw
      have hk : (keysOf kvs).Nodup := keysK_eq kvs ▸ nodup_of_distinctStrs hw.1
      rw [isOk_finishObj hnf hk ha]

theorem monoF_aliases {ms ms' : List (FieldInfo × Meth)} (h : MonoF ms ms') : aliasesM ms' = aliasesM ms := by
  induction h with
  | nil => rfl
  | @cons a b l1 l2 hab _ ih =>
    obtain ⟨f, m⟩ := a; obtain ⟨f', m'⟩ := b
    simp only at hab
    rw [aliasesM_cons, aliasesM_cons, ih, hab.1]

theorem monoF_infos {ms ms' : List (FieldInfo × Meth)} (h : MonoF ms ms') : infosM ms' = infosM ms := by
  induction h with
  | nil => rfl
  | @cons a b l1 l2 hab _ ih =>
    obtain ⟨f, m⟩ := a; obtain ⟨f', m'⟩ := b
    simp only at hab
    rw [infosM, infosM, ih, hab.1]

theorem monoF_nofbod {ms ms' : List (FieldInfo × Meth)} (h : MonoF ms ms') (hn : NoFbod ms) : NoFbod ms' := by
  induction h with
  | nil => intro fm hfm; cases hfm
  | @cons a b l1 l2 hab _ ih =>
    intro fm hfm
    rcases List.mem_cons.1 hfm with rfl | hm
    · rw [← hab.1]; exact hn a (List.mem_cons_self ..)
    · exact ih (fun x hx => hn x (List.mem_cons_of_mem _ hx)) fm hm

theorem fieldsOkM_mono {ms ms' : List (FieldInfo × Meth)} (h : MonoF ms ms') (kvs : List (String × Py))
    (hw : wfK kvs = true) (hok : fieldsOkM ms kvs = true) : fieldsOkM ms' kvs = true := by
  induction h with
  | nil => rfl
  | @cons a b l1 l2 hab _ ih =>
    obtain ⟨f, m⟩ := a; obtain ⟨f', m'⟩ := b
    simp only at hab
    rw [fieldsOkM_cons, Bool.and_eq_true] at hok ⊢
    refine ⟨?_, ih hok.2⟩
    rw [← hab.1]
    have h1 := hok.1
    unfold fieldOk0 at h1 ⊢
    cases hl : lookupKey kvs f.alias with
    | none => rw [hl] at h1; exact h1
    | some x => rw [hl] at h1; exact hab.2 x (lookupKey_wf hw hl) h1

theorem mono_objSel {o : DOpts} {ci c} {ms ms' : List (FieldInfo × Meth)} (h : MonoF ms ms') (hnf : NoFbod ms)
    (ha : (aliasesM ms).Nodup) : Mono (objSel o ci c ms) (objSel o ci c ms') := by
  intro d hw hd
  have ha' : (aliasesM ms').Nodup := (monoF_aliases h) ▸ ha
  rw [isOk_objSel_M hnf ha d hw] at hd
  rw [isOk_objSel_M (monoF_nofbod h hnf) ha' d hw, monoF_aliases h, monoF_infos h]
  cases d <;> try (cases hd)
  case dict kvs =>
    rw [Py.wf, Bool.and_eq_true] at hw
    simp only [dictOk, Bool.and_eq_true] at hd ⊢
    exact ⟨hd.1, ⟨fieldsOkM_mono h kvs hw.2 hd.2.1.1, hd.2.1.2⟩, hd.2.2⟩

theorem compileF_infos (o : DOpts) (hf : o.fallBackOnDefault = false) : ∀ (fs : List (FieldInfo × Ty)), cfragF fs = true →
    aliasesM (compileF o fs) = aliasesOf fs ∧ NoFbod (compileF o fs)
  | [], _ => ⟨by rw [compileF, aliasesOf]; rfl, fun fm h => by rw [compileF] at h; cases h⟩
  | (f, t) :: fs, h => by
    rw [cfragF] at h; simp only [Bool.and_eq_true, Bool.not_eq_true'] at h
    obtain ⟨ih1, ih2⟩ := compileF_infos o hf fs h.2
    rw [compileF, aliasesM_cons, aliasesOf, ih1, withFbod_id hf]
    refine ⟨rfl, fun fm hfm => ?_⟩
    rcases List.mem_cons.1 hfm with rfl | hm
    · exact h.1.1
    · exact ih2 fm hm

theorem cfragOpt_cases {ts : List Ty} (h : cfragOpt ts = true) :
    ∃ t, ts = [t, .null] ∧ t.cfrag = true ∧ (t.factoryCls != some JClass.null) = true := by
  unfold cfragOpt at h
  split at h
  · next t => rw [Bool.and_eq_true] at h; exact ⟨t, rfl, h.1, h.2⟩
  · cases h

/-- **C14 (monotonicity), object-free fragment.** Every datum accepted by the strict method is accepted
    by the method built with the default coercer — for every word table, every `int(str)` /
    `float(str)` / `repr` oracle, every class order of literal types, every inherited constraint set,
    `no_copy`, `additional_properties`. -/
theorem C14_monotone_partial (o : DOpts) (ho : OptsOk o) (env : CoerceEnv) :
    (∀ cs t, t.cfrag = true → Mono (compile o cs t) (compileC o env cs t)) ∧
    (∀ (fs : List (FieldInfo × Ty)), cfragF fs = true → MonoF (compileF o fs) (compileCF o env fs)) ∧
    (∀ cs ts, cfragL ts = true → MonoL (compileL o cs ts) (compileCL o env cs ts)) := by
  have hq1 : o.quirks.floatAcceptsBool = false := by rw [ho.quirks]; rfl
  have hq2 : o.quirks.tupleDropsErrors = false := by rw [ho.quirks]; rfl
  apply compile.mutual_induct
  · intro cs _; rw [compile, compileC]
    apply mono_coerced_inst; intro d hd; rw [run, isOk_runNone] at hd
    cases d <;> first | rfl | cases hd
  · intro cs _; rw [compile, compileC]
    apply mono_coerced_inst; intro d hd; rw [run, isOk_runBool] at hd
    cases d <;> first | rfl | cases hd
  · intro cs h _; rw [compile, compileC, if_pos h]
    apply mono_coerced_inst; intro d hd; rw [run, isOk_runInt] at hd
    cases d <;> first | rfl | cases hd
  · intro cs h _; rw [compile, compileC, if_neg h]
    apply mono_coerced_inst; intro d hd; rw [run, isOk_runInt] at hd
    cases d <;> first | rfl | cases hd
  · -- float, constrained
    intro cs h _; rw [compile, compileC, if_pos h, hq1]
    intro d _ hd
    cases d with
    | float f => rw [run_coerced_ok (coerce_instance env .float _ rfl)]; exact hd
    | int i =>
      rw [run, runFloat, intAsFloat] at hd
      rw [run, coerce]
      cases hi : intToFlt i with
      | none => rw [hi] at hd; cases hd
      | some f => rw [hi] at hd; simp only [bindPy]; rw [run, runFloat]; exact hd
    | _ => rw [run, isOk_runFloat] at hd; cases hd
  · intro cs h _; rw [compile, compileC, if_neg h, hq1]
    intro d _ hd
    cases d with
    | float f => rw [run_coerced_ok (coerce_instance env .float _ rfl)]; exact hd
    | int i =>
      rw [run, runFloat, intAsFloat] at hd
      rw [run, coerce]
      cases hi : intToFlt i with
      | none => rw [hi] at hd; cases hd
      | some f => rw [hi] at hd; simp only [bindPy]; rw [run, runFloat]; exact hd
    | _ => rw [run, isOk_runFloat] at hd; cases hd
  · intro cs h _; rw [compile, compileC, if_pos h]
    apply mono_coerced_inst; intro d hd; rw [run, isOk_runStr] at hd
    cases d <;> first | rfl | cases hd
  · intro cs h _; rw [compile, compileC, if_neg h]
    apply mono_coerced_inst; intro d hd; rw [run, isOk_runStr] at hd
    cases d <;> first | rfl | cases hd
  · intro cs _; rw [compile, compileC]; exact Mono.refl _
  · -- list
    intro cs t ih hs; rw [Ty.cfrag] at hs; rw [compile, compileC]
    refine Mono.trans (mono_listSel (ih hs)) (mono_coerced_inst ?_)
    intro d hd; rw [isOk_listSel] at hd; exact listOk_inst hd
  · intro cs t _ hs; rw [Ty.cfrag] at hs; cases hs
  · intro cs t _ hs; rw [Ty.cfrag] at hs; cases hs
  · -- vtuple
    intro cs t ih hs; rw [Ty.cfrag] at hs; rw [compile, compileC]
    have h1 : Mono (.vtuple (listSel o cs (compile o {} t))) (.vtuple (listSel o cs (compileC o env {} t))) := by
      intro d hw hd
      rw [run, isOk_mapVal_tuple] at hd ⊢
      exact mono_listSel (ih hs) d hw hd
    refine Mono.trans h1 (mono_coerced_inst ?_)
    intro d hd; rw [run, isOk_mapVal_tuple, isOk_listSel] at hd; exact listOk_inst hd
  · -- tuple
    intro cs ts ih hs; rw [Ty.cfrag] at hs; rw [compile, compileC, hq2]
    have hl := ih hs
    have h1 : Mono (.tuple false cs (compileL o {} ts)) (.tuple false cs (compileCL o env {} ts)) := by
      intro d hw hd
      rw [isOk_tuple] at hd ⊢
      rw [← hl.length_eq]
      cases d <;> try (cases hd)
      case list xs =>
        rw [Py.wf] at hw
        simp only [tupleOk, Bool.and_eq_true] at hd ⊢
        exact ⟨hd.1, zipOkM_mono hl xs hw hd.2⟩
    refine Mono.trans h1 (mono_coerced_inst ?_)
    intro d hd; rw [isOk_tuple] at hd; exact tupleOk_inst hd
  · -- mapping
    intro cs k v ihk ihv hs; rw [Ty.cfrag, Bool.and_eq_true] at hs; rw [compile, compileC]
    have h1 : Mono (mappingSel o cs (compile o {} k) (compile o {} v))
                   (mappingSel o cs (compileC o env {} k) (compileC o env {} v)) := by
      intro d hw hd
      rw [isOk_mappingSel] at hd ⊢
      cases d <;> try (cases hd)
      case dict kvs =>
        rw [Py.wf, Bool.and_eq_true] at hw
        simp only [dictOk, Bool.and_eq_true, List.all_eq_true] at hd ⊢
        exact ⟨hd.1, fun kv hkv => ⟨ihk hs.1 _ rfl (hd.2 kv hkv).1, ihv hs.2 _ (wfK_mem hw.2 kv hkv) (hd.2 kv hkv).2⟩⟩
    refine Mono.trans h1 (mono_coerced_inst ?_)
    intro d hd; rw [isOk_mappingSel] at hd; exact dictOk_inst hd
  · -- Optional
    intro cs ts ih hs; rw [Ty.cfrag] at hs
    obtain ⟨t, rfl, hacc, hcls⟩ := cfragOpt_cases hs
    have hl := ih (by rw [cfragL, cfragL, cfragL]; simp [hacc, Ty.cfrag])
    rw [compile, compileC, compileL, compileL, compileL, compileCL, compileCL, compileCL,
      clsL, clsL, clsL, anyNull, anyNull, anyNull]
    have hsel : unionSel [t.factoryCls, Ty.null.factoryCls] (t.isNull || (Ty.null.isNull || false))
        [compile o cs t, compile o cs Ty.null] = .optional (compile o cs t) := by
      unfold unionSel; simp [Ty.isNull, hcls]
    have hselC : unionSelC env [t.factoryCls, Ty.null.factoryCls] (t.isNull || (Ty.null.isNull || false))
        [compileC o env cs t, compileC o env cs Ty.null] = .optionalC env (compileC o env cs t) := by
      unfold unionSelC; simp [Ty.isNull, hcls]
    rw [hsel, hselC]
    intro d hw hd
    rw [isOk_optional, Bool.or_eq_true] at hd
    apply isOk_optionalC_of
    cases hl with
    | cons hm _ => exact hd.imp id (hm d hw)
  · intro cs vs _ d _ hd; rw [compile, run] at hd; rw [compileC, run]
    rw [runLiteralC_of_ok env _ _ _ hd]; exact hd
  · intro cs c ms _ d _ hd; rw [compile, run] at hd; rw [compileC, run]
    rw [runLiteralC_of_ok env _ _ _ hd]; exact hd
  · intro cs n t ih hs; rw [Ty.cfrag] at hs; rw [compile, compileC]; exact ih hs
  · intro cs c t ih hs; rw [Ty.cfrag] at hs; rw [compile, compileC]; exact ih hs
  · -- dataclass / NamedTuple / TypedDict
    intro cs ci fs ih hs
    rw [Ty.cfrag, Bool.and_eq_true] at hs
    rw [compile, compileC]
    obtain ⟨hal, hnf⟩ := compileF_infos o ho.fbod fs hs.2
    have hnd : (aliasesM (compileF o fs)).Nodup := hal ▸ nodup_of_distinctStrs hs.1
    refine Mono.trans (mono_objSel (ih hs.2) hnf hnd) (mono_coerced_inst ?_)
    intro d hd
    cases d <;> first
      | rfl
      | (exfalso; revert hd; unfold objSel; simp only; split <;> (rw [run]; simp [onDict, isOk_badType]))
  · intro cs _; rw [compileL, compileCL]; exact All2.nil
  · intro cs t ts iht ihts hs
    rw [cfragL, Bool.and_eq_true] at hs
    rw [compileL, compileCL]; exact All2.cons (iht hs.1) (ihts hs.2)
  · intro _; rw [compileF, compileCF]; exact All2.nil
  · intro f t fs iht ihfs hs
    rw [cfragF] at hs; simp only [Bool.and_eq_true, Bool.not_eq_true'] at hs
    rw [compileF, compileCF]
    exact All2.cons ⟨rfl, iht hs.1.2⟩ (ihfs hs.2)

/-- the witness of row 39 (`Union[int, List[str]]`, `[]`: `int([])` raised `TypeError` under coercion on the
    pinned tree) after the repair of the coercer: accepted in both modes -/
theorem C14_union_witness_repaired :
    (deserialize {} {} (.union [.int, .list .str]) (.list [])).isOk = true
    ∧ (deserializeC {} {} {} (.union [.int, .list .str]) (.list [])).isOk = true := by decide +kernel

end Api
