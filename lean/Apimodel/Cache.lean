/-!
# C09: caches never go stale — abstract machine

`Point`s are the places where configuration can be changed (one per (registry, mutator) and per
(settings class, attribute)); `Query`s are observations (`deserialize(T, d)`, `serialize`, schemas).
The wiring (`resets`) is generated from the source; `reads`, `key` and `compute` are parameters.
-/
namespace Api.Cache

abbrev Point := Nat
abbrev Query := Nat
abbrev Key := Nat
abbrev Cfg := Point → Nat

structure World where
  /-- the mutation path of this point calls `cache.reset()` (from the generated table) -/
  resets : Point → Bool
  /-- the computation of `q` may look at point `p` -/
  reads : Query → Point → Bool
  /-- the `lru_cache` key of an observation (type object + option values) -/
  key : Query → Key
  /-- what a cold start computes -/
  compute : Cfg → Query → Nat

/-- the result of a query depends on the points it reads only -/
def World.Local (w : World) : Prop :=
  ∀ q c c', (∀ p, w.reads q p = true → c p = c' p) → w.compute c q = w.compute c' q
/-- equal cache keys, equal computations (`Union[A, B]` vs `Union[B, A]` breaks this) -/
def World.KeyFaithful (w : World) : Prop :=
  ∀ q q' c, w.key q = w.key q' → w.compute c q = w.compute c q'

inductive Op where
  | mutate (p : Point) (v : Nat)
  | observe (q : Query)
  /-- `lru_cache` eviction, at any time -/
  | evict (k : Key)
  /-- explicit `apischema.cache.reset()` -/
  | reset
  deriving Repr, DecidableEq

structure State where
  cfg : Cfg
  cache : List (Key × Nat)

def set (c : Cfg) (p : Point) (v : Nat) : Cfg := fun p' => if p' = p then v else c p'

def lookup (k : Key) : List (Key × Nat) → Option Nat
  | [] => none
  | (k', r) :: rest => if k' = k then some r else lookup k rest

def step (w : World) (s : State) : Op → State × Option Nat
  | .mutate p v => ({ cfg := set s.cfg p v, cache := if w.resets p then [] else s.cache }, none)
  | .observe q =>
      match lookup (w.key q) s.cache with
      | some r => (s, some r)
      | none => let r := w.compute s.cfg q
                ({ s with cache := (w.key q, r) :: s.cache }, some r)
  | .evict k => ({ s with cache := s.cache.filter (fun e => e.1 != k) }, none)
  | .reset => ({ s with cache := [] }, none)

/-- the cold-start specification: no cache at all -/
def specStep (w : World) (c : Cfg) : Op → Cfg × Option Nat
  | .mutate p v => (set c p v, none)
  | .observe q => (c, some (w.compute c q))
  | .evict _ => (c, none)
  | .reset => (c, none)

def trace (w : World) : State → List Op → List (Option Nat)
  | _, [] => []
  | s, op :: ops => (step w s op).2 :: trace w (step w s op).1 ops

def specTrace (w : World) : Cfg → List Op → List (Option Nat)
  | _, [] => []
  | c, op :: ops => (specStep w c op).2 :: specTrace w (specStep w c op).1 ops

/-- every cached entry is what a recomputation under the current configuration gives -/
def Inv (w : World) (s : State) : Prop :=
  ∀ q, ∀ r, lookup (w.key q) s.cache = some r → r = w.compute s.cfg q

/-- a mutation is safe when its path resets, or nothing cached can read it -/
def SafeOp (w : World) : Op → Prop
  | .mutate p _ => w.resets p = true ∨ ∀ q, w.reads q p = false
  | _ => True

theorem lookup_filter {k k' : Key} {l : List (Key × Nat)} {r : Nat}
    (h : lookup k (l.filter (fun e => e.1 != k')) = some r) : lookup k l = some r := by
  induction l with
  | nil => exact h
  | cons e l ih =>
    obtain ⟨a, b⟩ := e
    by_cases hk : a = k'
    · by_cases hak : a = k
      · subst hk; subst hak
        simp only [bne_self_eq_false, List.filter] at h
        -- entry removed; a later entry with the same key cannot be first in the original list,
        -- but the filtered list has no entry with key `a` at all
        exfalso
        have : ∀ l : List (Key × Nat), lookup a (l.filter (fun e => e.1 != a)) = none := by
          intro l; induction l with
          | nil => rfl
          | cons e l ih =>
            obtain ⟨x, y⟩ := e
            by_cases hx : x = a
            · subst hx; simpa [List.filter] using ih
            · have hxa : (x != a) = true := by simpa using hx
              simp only [List.filter, hxa, lookup, if_neg hx]; exact ih
        rw [this] at h; cases h
      · subst hk
        simp only [List.filter, bne_self_eq_false] at h
        simp only [lookup, if_neg hak]; exact ih h
    · have : (a != k') = true := by simpa using hk
      simp only [List.filter, this] at h
      by_cases hak : a = k
      · simp only [lookup, if_pos hak] at h ⊢; exact h
      · simp only [lookup, if_neg hak] at h ⊢; exact ih h

theorem inv_step (w : World) (hl : w.Local) (hk : w.KeyFaithful) (s : State) (op : Op)
    (hi : Inv w s) (hs : SafeOp w op) : Inv w (step w s op).1 := by
  cases op with
  | mutate p v =>
    intro q r hq
    simp only [step] at hq ⊢
    cases hr : w.resets p
    · rw [hr] at hq
      cases hs with
      | inl h => rw [hr] at h; cases h
      | inr h =>
        rw [hi q r hq]
        apply hl
        intro p' hp'
        by_cases hpp : p' = p
        · subst hpp; rw [h q] at hp'; cases hp'
        · simp [set, hpp]
    · rw [hr] at hq; cases hq
  | observe q0 =>
    intro q r hq
    simp only [step] at hq ⊢
    split at hq
    · exact hi q r hq
    · simp only [lookup] at hq
      split at hq
      · next heq => cases hq; exact hk q0 q s.cfg heq
      · exact hi q r hq
  | evict k =>
    intro q r hq
    exact hi q r (lookup_filter hq)
  | reset =>
    intro q r hq; cases hq

theorem observe_fresh (w : World) (s : State) (hi : Inv w s) (q : Query) :
    (step w s (.observe q)).2 = some (w.compute s.cfg q) := by
  simp only [step]
  split
  · next r h => rw [hi q r h]
  · rfl

theorem step_cfg (w : World) (s : State) (op : Op) :
    (step w s op).1.cfg = (specStep w s.cfg op).1 := by
  cases op <;> simp only [step, specStep]
  split <;> rfl

/-- **C09.** Over every history whose mutations go through resetting paths (or touch nothing a cached
    computation reads), with eviction and explicit resets interleaved arbitrarily, every observation is
    what a cold start under the configuration of that moment returns. -/
theorem C09_history (w : World) (hl : w.Local) (hk : w.KeyFaithful) :
    ∀ (h : List Op) (s : State), Inv w s → (∀ op ∈ h, SafeOp w op) →
      trace w s h = specTrace w s.cfg h
  | [], _, _, _ => rfl
  | op :: ops, s, hi, hs => by
    have hop := hs op (List.mem_cons_self ..)
    have hi' := inv_step w hl hk s op hi hop
    rw [trace, specTrace, C09_history w hl hk ops _ hi' (fun o ho => hs o (List.mem_cons_of_mem _ ho)),
      step_cfg]
    congr 1
    cases op with
    | observe q => rw [observe_fresh w s hi q]; rfl
    | mutate p v => rfl
    | evict k => rfl
    | reset => rfl

theorem inv_init (w : World) (c : Cfg) : Inv w { cfg := c, cache := [] } := by
  intro q r h; cases h

/-- from a cold start -/
theorem C09 (w : World) (hl : w.Local) (hk : w.KeyFaithful) (c : Cfg) (h : List Op)
    (hs : ∀ op ∈ h, SafeOp w op) : trace w { cfg := c, cache := [] } h = specTrace w c h :=
  C09_history w hl hk h _ (inv_init w c) hs

/-! ### the hypotheses are needed: witnesses -/

/-- one point, read by query 0, whose mutation path does not reset (`CacheAwareDict.__delitem__`,
    `settings.errors`, `_schemas` today) -/
def wNoReset : World := { resets := fun _ => false, reads := fun _ _ => true, key := id,
                          compute := fun c _ => c 0 }
theorem C09_stale_without_reset :
    trace wNoReset { cfg := fun _ => 0, cache := [] } [.observe 0, .mutate 0 1, .observe 0]
      ≠ specTrace wNoReset (fun _ => 0) [.observe 0, .mutate 0 1, .observe 0] := by decide

/-- two queries with one key and different results (`Union[A, B]` / `Union[B, A]`) -/
def wKeyClash : World := { resets := fun _ => true, reads := fun _ _ => true, key := fun _ => 0,
                           compute := fun _ q => q }
theorem C09_stale_key_clash :
    trace wKeyClash { cfg := fun _ => 0, cache := [] } [.observe 0, .observe 1]
      ≠ specTrace wKeyClash (fun _ => 0) [.observe 0, .observe 1] := by decide

/-- non-vacuity: a resetting world satisfies all hypotheses and has non-trivial histories -/
def wGood : World := { resets := fun _ => true, reads := fun _ _ => true, key := id,
                       compute := fun c q => c q + q }
example : wGood.Local := by
  intro q c c' h; simp [wGood, h q rfl]
example : wGood.KeyFaithful := by intro q q' c h; cases h; rfl
example : ∀ op ∈ [Op.observe 0, .mutate 0 1, .observe 0], SafeOp wGood op := by
  intro op _; cases op <;> simp [SafeOp, wGood]

end Api.Cache
