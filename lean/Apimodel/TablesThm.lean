import Apimodel.Generated.Tables
import Apimodel.VersionsThm
import Apimodel.Deser
/-!
# Facts about the tables regenerated from the source tree on every run (tools/extract.py)

Each theorem is closed by `decide` on the *generated* data, so an edit of the corresponding table in
`/repo` makes the build of this module fail, which the checks report as a broken proof obligation.
-/
namespace Api.Tables
open Api.Generated

/-- C14: the boolean word table of the default coercer is the documented one, keys lower-cased, and the only
    string coerced to `None` is the empty string -/
theorem C14_word_table :
    boolWords = [("0", false), ("1", true), ("f", false), ("t", true), ("n", false), ("y", true), ("no", false), ("yes", true),
                 ("false", false), ("true", true), ("off", false), ("on", true), ("ko", false), ("ok", true)]
    ∧ boolWordsLowercased = true ∧ strNoneValues = [""] := by decide

/-- C08: the methods that `check_only` treats as returning their input are exactly the ones the model marks
    (`FloatMethod` is not among them: it converts integers) -/
theorem C08_check_only_table :
    checkOnlyMethods = ["NoneMethod", "BoolMethod", "IntMethod", "StrMethod", "ListCheckOnlyMethod", "MappingCheckOnly"] := by decide

/-- C08: the tests that select the pass-through / simple methods have exactly the conjuncts the model's `listSel`,
    `mappingSel`, `objSel` + `simpleOk` encode (`o.noCopy && m.checkOnly`; `o.noCopy && k.checkOnly && v.checkOnly`;
    `!c.hasDict && (td == o.additionalProperties) && (!td || o.noCopy) && ∀ field: checkOnly ∧ alias = name ∧ ¬fbod ∧ requiredBy = []`,
    flattened / pattern / additional fields and validators being outside the model): dropping or adding one breaks this -/
theorem C08_fast_path_conditions :
    fastPathConds = [
      ("collection", ["self.no_copy", "check_only(value_method)"], "ListCheckOnlyMethod"),
      ("mapping", ["self.no_copy", "check_only(key_method)", "check_only(value_method)"], "MappingCheckOnly"),
      ("object", ["not object_constraints", "not flattened_fields", "not pattern_fields", "not additional_field",
                  "is_typed_dict(cls) == self.additional_properties", "not is_typed_dict(cls) or self.no_copy", "not validators",
                  "all((check_only(f.method) and f.alias == f.name and (not f.fall_back_on_default) and (not f.required_by) for f in normal_fields))"],
       "SimpleObjectMethod")] := by decide +kernel

/-- C18: the 2019-09 rewrite moves `prefixItems` (row 18 repaired), hence by `C18_vocabulary` no 2020-12 array keyword
    is left at any depth of a converted schema -/
theorem C18_vocabulary_generated :
    keepsPrefixItems = false ∧ ∀ s : Sch, (to07 { keepsPrefixItems := keepsPrefixItems } s).clean = true :=
  ⟨by decide, fun s => by
    have h : keepsPrefixItems = false := by decide
    rw [h]; exact C18_vocabulary s⟩

/-- C18 / C17: declared meta-schema, reference prefix and converter of each dialect (row 25 repaired: 2019-09 declares 2019-09) -/
theorem C18_version_table :
    (schemaVersions.map (fun v => (v.1, v.2.take 3))) =
      [("DRAFT_2020_12", ["http://json-schema.org/draft/2020-12/schema#", "#/$defs/", "None"]),
       ("DRAFT_2019_09", ["http://json-schema.org/draft/2019-09/schema#", "#/$defs/", "to_json_schema_2019_09"]),
       ("DRAFT_7", ["http://json-schema.org/draft-07/schema#", "#/definitions/", "to_json_schema_7"]),
       ("OPEN_API_3_0", ["None", "#/components/schemas/", "to_open_api_3_0"]),
       ("OPEN_API_3_1", ["None", "#/components/schemas/", "None"])]
    ∧ oas30Unsupported = ["additionalItems", "dependentRequired", "unevaluatedProperties"] := by decide

/-- C02: the error templates are the documented messages (the harness parses messages through them) -/
theorem C02_error_templates :
    errorTemplates.map (·.1) = ["minimum", "maximum", "exclusive_minimum", "exclusive_maximum", "multiple_of", "min_length", "max_length",
      "pattern", "min_items", "max_items", "unique_items", "min_properties", "max_properties", "one_of", "unexpected_property", "missing_property"]
    ∧ errorTemplates.all (fun t => t.2.length > 0) = true
    ∧ jsonTypes.map (·.2) = ["null", "boolean", "string", "integer", "number", "array", "object"] := by decide

end Api.Tables
