import Apimodel.Generated.UnionSel
import Apimodel.UnionSelThm
/-!
# The union-method selection of the model is what the source says

`Generated.unionChain` is regenerated from `DeserializationMethodVisitor.union` on every run.  The theorems of C13 / C01
about unions (`union_accepts_at`, `acceptsU`, `C13_byType_eq_sequential`, …) are stated on `unionSel`; the two theorems
below tie `unionSel` (strict mode) and `unionSelC` (a coercer is set) to the chain read from the source.
-/
namespace Api

/-- strict mode: the chain of the source selects exactly what `unionSel` selects -/
theorem unionSel_matches_source (clss : List (Option JClass)) (hasNone : Bool) (ms : List Meth) :
    interpUnion Generated.unionChain { coercer := Option.none, clss := clss, hasNone := hasNone, ms := ms }
      = unionSel clss hasNone ms := by
  unfold unionSel
  simp only [interpUnion, Generated.unionChain, UGuard.holds, UAction.exec, UCond.holds, List.all_cons, List.all_nil,
    Option.isSome_none, Bool.false_and, Bool.not_false, Bool.and_true]
  split
  · cases (clss.zip ms).find? (fun p => p.1 != some JClass.null) <;> rfl
  · split <;> rfl

/-- with a coercer: alternatives that have a class are `CoercerMethod`s, so the by-type table is never built -/
theorem unionSelC_matches_source (env : CoerceEnv) (clss : List (Option JClass)) (hasNone : Bool) (ms : List Meth)
    (hlen : clss.length = ms.length) (hne : ms ≠ []) :
    interpUnion Generated.unionChain { coercer := some env, clss := clss, hasNone := hasNone, ms := ms }
      = unionSelC env clss hasNone ms := by
  unfold unionSelC
  simp only [interpUnion, Generated.unionChain, UGuard.holds, UAction.exec, UCond.holds, List.all_cons, List.all_nil,
    Option.isSome_some, Bool.true_and, Bool.and_true]
  split
  · cases (clss.zip ms).find? (fun p => p.1 != some JClass.null) <;> rfl
  · -- the by-type guard fails: either some alternative has a class (a CoercerMethod), or none has and the table is empty
    have : ((dedupCls (clss.filterMap id)).length == ms.length && !(clss.filterMap id).contains JClass.float
              && !clss.any Option.isSome) = false := by
      cases hany : clss.any Option.isSome with
      | true => simp
      | false =>
        have hall : clss.filterMap id = [] := by
          apply List.filterMap_eq_nil_iff.2
          intro a ha
          have := (List.any_eq_false.1 hany) a ha
          cases a with
          | none => rfl
          | some c => simp at this
        have hpos : 0 < ms.length := List.length_pos_iff.2 hne
        simp only [hall, Bool.not_false, Bool.and_true]
        have : (dedupCls ([] : List JClass)).length = 0 := rfl
        rw [this]
        cases h : ms.length with
        | zero => omega
        | succ n => rfl
    rw [Bool.and_assoc] at this
    rw [this]; simp

end Api
