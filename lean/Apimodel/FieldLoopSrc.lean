import Apimodel.Deser
import Apimodel.BExpr
/-! The loop over `self.fields` of `ObjectMethod.deserialize` as the translator reads it: an if / elif chain of (guard, action);
`stepFieldSrc` interprets such a chain for one field. -/
namespace Api
open BExpr

inductive FAction where
  /-- `fields_count += 1; try: values[name] = method(data[alias]) except ValidationError: if <guard>: record the error` -/
  | deserialize (errGuard : BExpr)
  /-- the same without storing the value (`SimpleObjectMethod`: the constructor receives the data itself) -/
  | check (errGuard : BExpr)
  /-- `set_child_error(alias, missing)` -/
  | missing
  /-- `set_child_error(alias, missing (required by sorted(required_by & data.keys())))` -/
  | missingRequiredBy
  | unknown (src : String)
  deriving Repr

/-- atoms of the chain for one field: `present` = the alias is a key of the data, `reqBy` = `sorted(field.required_by & data.keys())` -/
def loopTbl (f : FieldInfo) (fbod present : Bool) (reqBy : List String) : List (String × Bool) :=
  [("field.alias in data", present), ("field.required", f.required), ("field.fall_back_on_default", fbod),
   ("field.required_by is not None", !f.requiredBy.isEmpty), ("field.required_by.isdisjoint(data)", reqBy.isEmpty), ("True", true)]

def runAction (f : FieldInfo) (fbod : Bool) (r : Option (Outcome Val)) (reqBy : List String) (rest : FAcc) : FAction → FAcc
  | .deserialize g =>
      match r with
      | some (.crash c) => { crash := some c }
      | some (.ok v) => { rest with vals := (f.name, v) :: rest.vals, count := rest.count + 1 }
      | some (.invalid e) =>
          if evalT (loopTbl f fbod true reqBy) g then { rest with errs := setChild (.name f.alias) e rest.errs, count := rest.count + 1 }
          else { rest with count := rest.count + 1 }
      | Option.none => { crash := some "KeyError" }        -- `data[field.alias]` on an absent key
  | .check g =>
      match r with
      | some (.crash c) => { crash := some c }
      | some (.ok _) => { rest with count := rest.count + 1 }
      | some (.invalid e) =>
          if evalT (loopTbl f fbod true reqBy) g then { rest with errs := setChild (.name f.alias) e rest.errs, count := rest.count + 1 }
          else { rest with count := rest.count + 1 }
      | Option.none => { crash := some "KeyError" }
  | .missing => { rest with errs := setChild (.name f.alias) (.leaf .missing) rest.errs }
  | .missingRequiredBy => { rest with errs := setChild (.name f.alias) (.leaf (.missingRequiredBy reqBy)) rest.errs }
  | .unknown _ => { crash := some "unknown source action" }

/-- first branch whose guard holds; no branch: the field is skipped -/
def stepFieldSrc (chain : List (BExpr × FAction)) (f : FieldInfo) (fbod : Bool) (r : Option (Outcome Val)) (reqBy : List String) (rest : FAcc) : FAcc :=
  match chain with
  | [] => rest
  | (g, a) :: more =>
      if evalT (loopTbl f fbod r.isSome reqBy) g then runAction f fbod r reqBy rest a
      else stepFieldSrc more f fbod r reqBy rest

def chainCovered (chain : List (BExpr × FAction)) (tbl : List (String × Bool)) : Bool :=
  chain.all (fun ga => covered tbl ga.1 && (match ga.2 with | .deserialize g => covered tbl g | .check g => covered tbl g | .unknown _ => false | _ => true))

end Api
