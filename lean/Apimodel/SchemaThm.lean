import Apimodel.SchemaSem
import Apimodel.Spec
/-!
# C06: the deserialization schema validates exactly the conforming data
-/
namespace Api

/-! ### data: what `json.loads` yields, minus the values on which JSON Schema and Python disagree by design -/
mutual
/-- JSON data without integer-valued floats (`1.0` is an `integer` for JSON Schema, not for `int`),
    `nan`, infinities -/
def Py.sane : Py → Bool
  | .null | .bool _ | .int _ | .str _ => true
  | .float (.fin q) => !Rat.isInt q
  | .float _ => false
  | .list xs => saneL xs
  | .dict kvs => saneK kvs
  | .dictNS _ | .other _ => false
termination_by structural d => d
def saneL : List Py → Bool
  | [] => true
  | x :: xs => x.sane && saneL xs
termination_by structural xs => xs
def saneK : List (String × Py) → Bool
  | [] => true
  | (_, v) :: kvs => v.sane && saneK kvs
termination_by structural kvs => kvs
end

theorem saneL_mem : ∀ {xs : List Py}, saneL xs = true → ∀ x ∈ xs, x.sane = true
  | [], _, x, hx => by cases hx
  | y :: ys, h, x, hx => by
    rw [saneL, Bool.and_eq_true] at h
    rcases List.mem_cons.1 hx with rfl | hm
    · exact h.1
    · exact saneL_mem h.2 x hm

theorem saneK_mem : ∀ {kvs : List (String × Py)}, saneK kvs = true → ∀ kv ∈ kvs, kv.2.sane = true
  | [], _, x, hx => by cases hx
  | (k, v) :: ys, h, x, hx => by
    rw [saneK, Bool.and_eq_true] at h
    rcases List.mem_cons.1 hx with rfl | hm
    · exact h.1
    · exact saneK_mem h.2 x hm

theorem lookupKey_mem {kvs : List (String × Py)} {k : String} {x : Py} (h : lookupKey kvs k = some x) :
    ∃ kv ∈ kvs, kv.2 = x := by
  unfold lookupKey at h
  cases hf : kvs.find? (fun kv => kv.1 == k) with
  | none => rw [hf] at h; cases h
  | some kv =>
    rw [hf] at h
    exact ⟨kv, List.mem_of_find?_eq_some hf, by simpa using h⟩

/-! ### constraints -/
theorem minOpt_none_right {α} (le : α → α → Bool) (a : Option α) (b : Bool) : minOpt le a Option.none b = a := by
  cases a <;> rfl
theorem minOpt_none_left {α} (le : α → α → Bool) (a : Option α) (b : Bool) : minOpt le Option.none a b = a := by
  cases a <;> rfl

theorem merge_empty_right (c : Constraints) : c.merge {} = c := by
  cases c with
  | mk a b c d e f g h i j k l m =>
    show Constraints.merge _ _ = _
    unfold Constraints.merge
    simp only [minOpt_none_right, Bool.or_false]
    congr 1
    · cases e <;> rfl
    · cases h <;> rfl

theorem merge_empty_left (c : Constraints) : Constraints.merge {} c = c := by
  cases c with
  | mk a b c d e f g h i j k l m =>
    show Constraints.merge _ _ = _
    unfold Constraints.merge
    simp only [minOpt_none_left, Bool.false_or]

/-! ### validation of the node shapes the builder emits -/
theorem onListB_true (d : Py) : onListB d (fun _ => true) = true := by cases d <;> rfl
theorem onDictB_true (d : Py) : onDictB d (fun _ => true) = true := by cases d <;> rfl

theorem validates_leaf (ty : List JT) (cs : Constraints) (dflt : Option Py) (d : Py) :
    validates (.mk ty Option.none [] cs Option.none Option.none [] [] Option.none [] [] dflt) d
      = ((ty.isEmpty || ty.any (typeMatches d)) && consOk cs d) := by
  rw [validates]
  simp only [vPre, vItems, vProps, vPats, vAddl, vAnyO, List.all_nil, Bool.and_true, List.isEmpty_nil,
    Bool.true_or, onListB_true, onDictB_true]

/-! ### leaves -/
def lenOk (c : Constraints) (n : Nat) : Bool :=
  (match c.minItems with | some m => decide (m ≤ n) | Option.none => true) &&
  (match c.maxItems with | some m => decide (n ≤ m) | Option.none => true)

theorem listErrors_nounique (c : Constraints) (xs : List Py) (hu : c.unique = false) :
    (c.listErrors xs == some []) = lenOk c xs.length := by
  unfold Constraints.listErrors lenOk
  simp only [hu, Bool.false_eq_true, if_false]
  cases h1 : c.minItems <;> cases h2 : c.maxItems <;> simp only [optRule]
  · rfl
  · rename_i m; by_cases h : xs.length ≤ m <;> simp [h]
  · rename_i m; by_cases h : m ≤ xs.length <;> simp [h]
  · rename_i m m'
    by_cases h : m ≤ xs.length <;> by_cases h' : xs.length ≤ m' <;> simp [h, h']

theorem consOk_list (c : Constraints) (xs : List Py) (hu : c.unique = false) :
    consOk c (.list xs) = lenOk c xs.length := by
  unfold consOk lenOk
  simp only [Py.num?, hu, Bool.not_false, Bool.true_or, Bool.and_true, Bool.true_and]
  cases c.minItems <;> cases c.maxItems <;> rfl

theorem null_leaf (cs d) : (([JT.null].any (typeMatches d)) && consOk cs d) = d.isNull := by
  cases d <;> simp [typeMatches, Py.isNull, consOk, Py.num?]
theorem bool_leaf (cs d) : (([JT.boolean].any (typeMatches d)) && consOk cs d) = d.isBool := by
  cases d <;> simp [typeMatches, Py.isBool, consOk, Py.num?]
theorem int_leaf (cs d) (hs : d.sane = true) : (([JT.integer].any (typeMatches d)) && consOk cs d) = intOk cs d := by
  cases d <;> try simp [typeMatches, intOk, consOk, Py.num?]
  case float f =>
    cases f <;> simp [typeMatches, Py.sane] at hs ⊢
    exact fun h => absurd h (by simpa using hs)
theorem str_leaf (cs d) : (([JT.string].any (typeMatches d)) && consOk cs d) = strOk cs d := by
  cases d <;> simp [typeMatches, strOk, consOk, Py.num?]
theorem any_leaf (cs d) (hs : d.sane = true) (hu : cs.unique = false) : consOk cs d = anyOk cs d := by
  cases d <;> try simp [anyOk, consOk, Py.num?]
  case list xs =>
    have h1 := consOk_list cs xs hu
    unfold consOk at h1
    simp only [Py.num?, Bool.true_and, Bool.and_true] at h1
    rw [listErrors_nounique cs xs hu, ← h1]
  case dictNS kvs => cases hs

/-! ### scope -/
/-- constraints may be attached to these (on literals and enums the schema shows them, deserialization
    ignores them: row 40) -/
def Ty.isBase : Ty → Bool | .ann _ _ | .newtype _ _ | .literal _ | .enum _ _ | .union _ => false | _ => true

/-- what may stand under `Optional[…]` in version 1 (not a literal / enum: row 28) -/
def Ty.optInner : Ty → Bool
  | .bool | .int | .str | .any | .list _ | .vtuple _ | .tuple _ | .mapping _ _ | .obj _ _ => true
  | _ => false
def Ty.isStr : Ty → Bool | .str => true | _ => false
def Lit.isStr : Lit → Bool | .str _ => true | _ => false

mutual
-- scope of the schema theorem (version 1)
def Ty.sch : Ty → Bool
  | .null | .bool | .int | .str | .any => true
  | .float | .set _ | .frozenset _ => false
  | .union ts => schOpt ts
  | .list t | .vtuple t | .newtype _ t => t.sch
  | .tuple ts => schL ts
  | .mapping k v => k.isStr && v.sch
  | .literal vs => !vs.isEmpty && vs.all Lit.isStr
  | .enum _ ms => !ms.isEmpty && ms.all (fun m => m.2.isStr)
  | .ann c t => !c.unique && t.isBase && t.sch
  | .obj _ fs => schF fs
termination_by structural t => t
def schL : List Ty → Bool
  | [] => true
  | t :: ts => t.sch && schL ts
termination_by structural ts => ts
def schF : List (FieldInfo × Ty) → Bool
  | [] => true
  | (f, t) :: fs => !f.fbod && f.requiredBy.isEmpty && t.sch && schF fs
termination_by structural fs => fs
def schOpt : List Ty → Bool
  | [t, .null] => t.optInner && t.sch
  | _ => false
termination_by structural ts => ts
end

/-- the schema fragment has no `dependent_required` (the builder's `dependentRequired` keyword is not modelled) -/
theorem schF_noDeps : ∀ {fs : List (FieldInfo × Ty)}, schF fs = true → ∀ f ∈ infosOf fs, f.requiredBy = []
  | [], _, f, hf => by cases hf
  | (g, t) :: fs, h, f, hf => by
    rw [schF] at h
    simp only [Bool.and_eq_true, Bool.not_eq_true', List.isEmpty_iff] at h
    unfold infosOf at hf; rw [List.map_cons] at hf
    rcases List.mem_cons.1 hf with rfl | hm
    · exact h.1.1.2
    · exact schF_noDeps h.2 f hm


theorem schOpt_cases {ts : List Ty} (h : schOpt ts = true) :
    ∃ t, ts = [t, .null] ∧ t.optInner = true ∧ t.sch = true := by
  unfold schOpt at h
  split at h
  · next t => rw [Bool.and_eq_true] at h; exact ⟨t, rfl, h.1, h.2⟩
  · cases h

theorem validates_withDefault (s : Sch) (x : Option Py) (d : Py) : validates (s.withDefault x) d = validates s d := by
  cases s; simp only [Sch.withDefault]
  unfold validates; rfl

theorem validates_fieldSchema (f t s d) : validates (fieldSchema f t s) d = validates s d := by
  unfold fieldSchema; split
  · exact validates_withDefault _ _ _
  · rfl

theorem propNames_buildDF (ap : Bool) : ∀ fs, propNames (buildDF ap fs) = aliasesOf fs
  | [] => by rw [buildDF, propNames, aliasesOf]
  | (f, t) :: fs => by rw [buildDF, propNames, aliasesOf, propNames_buildDF ap fs]

/-- string literals: JSON equality and Python equality coincide -/
theorem lit_str_eq (d : Py) (vs : List Lit) (hv : vs.all Lit.isStr = true) :
    vs.any (jsonEqLit d) = (d.hashable && vs.any (litMatches d)) := by
  induction vs with
  | nil => simp
  | cons v vs ih =>
    simp only [List.all_cons, Bool.and_eq_true] at hv
    simp only [List.any_cons, ih hv.2]
    cases v <;> simp [Lit.isStr] at hv
    cases d <;> simp [jsonEqLit, litMatches, Py.hashable, Py.asNum?, Lit.asNum?]

theorem mergeInto_empty (s : Sch) : mergeInto {} s = s := by
  cases s; simp only [mergeInto, Sch.withCons, Sch.cons, merge_empty_left]

/-! ### node shapes -/
theorem validates_array (cs : Constraints) (s : Sch) (d : Py) :
    validates (.mk [.array] Option.none [] cs (some (.inr s)) Option.none [] [] Option.none [] [] Option.none) d
      = (match d with | .list xs => consOk cs d && xs.all (fun x => validates s x) | _ => false) := by
  rw [validates]
  cases d <;> simp [typeMatches, onListB, onDictB, vPre, vItems, vAnyO, preLen]

theorem consOk_empty (d : Py) : consOk {} d = true := by
  cases d <;> simp [consOk, Py.num?, Constraints.numErrors, Constraints.strErrors, Constraints.dictErrors, optRule]

theorem validates_of_isEmpty {s : Sch} (h : s.isEmpty = true) (d : Py) : validates s d = true := by
  unfold Sch.isEmpty at h
  split at h
  · next c =>
    have hc : c = {} := by simpa using h
    subst hc
    rw [validates_leaf]; simp [consOk_empty]
  · cases h

/-- `items` is dropped when the item schema is `{}`: same instances -/
theorem validates_array' (cs : Constraints) (s : Sch) (d : Py) :
    validates (.mk [.array] Option.none [] cs (subKw s) Option.none [] [] Option.none [] [] Option.none) d
      = (match d with | .list xs => consOk cs d && xs.all (fun x => validates s x) | _ => false) := by
  unfold subKw
  split
  · next he =>
    rw [validates]
    cases d <;> simp [typeMatches, onListB, onDictB, vPre, vItems, vAnyO, preLen, validates_of_isEmpty he]
  · exact validates_array cs s d

theorem validates_tuple (cs : Constraints) (ss : List Sch) (d : Py) :
    validates (.mk [.array] Option.none [] cs (some (.inl false)) (some ss) [] [] Option.none [] [] Option.none) d
      = (match d with
         | .list xs => consOk cs d && vZip ss xs && (xs.drop ss.length).isEmpty
         | _ => false) := by
  rw [validates]
  cases d <;> simp [typeMatches, onListB, onDictB, vPre, vItems, vAnyO, preLen, Bool.and_assoc]

theorem validates_mapping (cs : Constraints) (s : Sch) (d : Py) :
    validates (.mk [.object] Option.none [] cs Option.none Option.none [] [] (some (.inr s)) [] [] Option.none) d
      = (match d with | .dict kvs => consOk cs d && kvs.all (fun kv => validates s kv.2) | _ => false) := by
  rw [validates]
  cases d <;> simp [typeMatches, onListB, onDictB, vProps, vPats, vAddl, vAnyO, propNames, patList]

theorem validates_mapping' (cs : Constraints) (s : Sch) (d : Py) :
    validates (.mk [.object] Option.none [] cs Option.none Option.none [] [] (subKw s) [] [] Option.none) d
      = (match d with | .dict kvs => consOk cs d && kvs.all (fun kv => validates s kv.2) | _ => false) := by
  unfold subKw
  split
  · next he =>
    rw [validates]
    cases d <;> simp [typeMatches, onListB, onDictB, vProps, vPats, vAddl, vAnyO, propNames, patList, validates_of_isEmpty he]
  · exact validates_mapping cs s d

theorem validates_object (cs : Constraints) (props : List (String × Sch)) (req : List String) (ap : Bool) (d : Py) :
    validates (.mk [.object] Option.none [] cs Option.none Option.none props req (some (.inl ap)) [] [] Option.none) d
      = (match d with
         | .dict kvs => consOk cs d && (vProps props kvs && req.all (fun r => (lookupKey kvs r).isSome))
                          && (ap || kvs.all (fun kv => (propNames props).contains kv.1))
         | _ => false) := by
  rw [validates]
  cases d <;> simp [typeMatches, onListB, onDictB, vPats, vAddl, vAnyO, patList]
  case dict kvs =>
    have : (List.filter (fun kv => !decide (kv.fst ∈ propNames props)) kvs).isEmpty
        = kvs.all (fun kv => decide (kv.fst ∈ propNames props)) := by
      induction kvs with
      | nil => rfl
      | cons kv kvs ih =>
        by_cases h : kv.1 ∈ propNames props <;> simp [List.filter, h, ih]
    rw [this]; simp only [Bool.and_assoc]

/-- `additionalProperties: true` is dropped: same instances -/
theorem validates_object' (cs : Constraints) (props : List (String × Sch)) (req : List String) (ap : Bool) (d : Py) :
    validates (.mk [.object] Option.none [] cs Option.none Option.none props req (apKw ap) [] [] Option.none) d
      = (match d with
         | .dict kvs => consOk cs d && (vProps props kvs && req.all (fun r => (lookupKey kvs r).isSome))
                          && (ap || kvs.all (fun kv => (propNames props).contains kv.1))
         | _ => false) := by
  cases ap with
  | false => exact validates_object cs props req false d
  | true =>
    rw [← validates_object cs props req true d]
    unfold apKw
    rw [if_pos rfl, validates, validates]
    cases d <;> simp [onDictB, vAddl]

theorem tuple_len (cs : Constraints) (n len : Nat) :
    (lenOk (cs.merge { minItems := some n, maxItems := some n }) len && decide (len ≤ n))
      = (len == n && lenOk cs len) := by
  unfold lenOk Constraints.merge
  cases hmin : cs.minItems <;> cases hmax : cs.maxItems <;> simp only [minOpt]
  · grind
  · grind
  · grind
  · grind

theorem buildDL_length (ap : Bool) : ∀ ts, (buildDL ap ts).length = ts.length
  | [] => by rw [buildDL]; rfl
  | t :: ts => by rw [buildDL, List.length_cons, List.length_cons, buildDL_length ap ts]

theorem drop_isEmpty {α} (xs : List α) (n : Nat) : (xs.drop n).isEmpty = decide (xs.length ≤ n) := by
  by_cases h : xs.length ≤ n
  · simp [h, List.drop_eq_nil_of_le h]
  · have : xs.drop n ≠ [] := by
      intro hh; exact h (List.drop_eq_nil_iff.mp hh)
    simp [h, this]

theorem all_congr_mem' {α} {l : List α} {p q : α → Bool} (h : ∀ a ∈ l, p a = q a) : l.all p = l.all q := by
  induction l with
  | nil => rfl
  | cons a l ih =>
    simp only [List.all_cons, h a (List.mem_cons_self ..), ih (fun b hb => h b (List.mem_cons_of_mem _ hb))]

theorem merge_unique {c cs : Constraints} (h1 : c.unique = false) (h2 : cs.unique = false) :
    (c.merge cs).unique = false := by
  show (c.unique || cs.unique) = false
  rw [h1, h2]; rfl

theorem validates_lit (ty : List JT) (const : Option Lit) (enum : List Lit) (d : Py) :
    validates (.mk ty const enum {} Option.none Option.none [] [] Option.none [] [] Option.none) d
      = ((ty.isEmpty || ty.any (typeMatches d)) &&
         (match const with | Option.none => true | some l => jsonEqLit d l) &&
         (enum.isEmpty || enum.any (jsonEqLit d))) := by
  unfold validates
  simp only [vPre, vItems, vProps, vPats, vAddl, vAnyO, List.all_nil, Bool.and_true,
    onListB_true, onDictB_true, consOk_empty]
  cases const <;> rfl

theorem dedup_str : ∀ (vs : List Lit), vs.all Lit.isStr = true →
    (vs.map litJT).foldl (fun acc t => if acc.contains t then acc else acc ++ [t]) [JT.string] = [JT.string]
  | [], _ => rfl
  | v :: vs, h => by
    rw [List.all_cons, Bool.and_eq_true] at h
    cases v <;> try (simp [Lit.isStr] at h; done)
    simp only [List.map_cons, List.foldl_cons, litJT, Lit.jclass, JClass.jt]
    exact dedup_str vs h.2

theorem jsonEqLit_str {d : Py} {v : Lit} (hv : v.isStr = true) (h : jsonEqLit d v = true) :
    typeMatches d .string = true := by
  cases v <;> simp [Lit.isStr] at hv
  cases d <;> simp [jsonEqLit] at h ⊢ <;> rfl

theorem any_str_type {d : Py} {vs : List Lit} (hv : vs.all Lit.isStr = true) (h : vs.any (jsonEqLit d) = true) :
    typeMatches d .string = true := by
  rw [List.any_eq_true] at h
  obtain ⟨v, hm, hj⟩ := h
  exact jsonEqLit_str (List.all_eq_true.mp hv v hm) hj

/-- string literals / enums without inherited constraints -/
theorem literal_ok (vs : List Lit) (hne : vs.isEmpty = false) (hv : vs.all Lit.isStr = true) (d : Py) :
    validates (literalSchema vs) d = (d.hashable && vs.any (litMatches d)) := by
  rw [← lit_str_eq d vs hv]
  cases vs with
  | nil => cases hne
  | cons v vs =>
    have hall := hv
    simp only [List.all_cons, Bool.and_eq_true] at hv
    have hty : (List.map litJT (v :: vs)).foldl (fun acc t => if acc.contains t then acc else acc ++ [t]) []
        = [JT.string] := by
      have := dedup_str vs hv.2
      cases v <;> simp [Lit.isStr] at hv
      simpa [litJT, Lit.jclass, JClass.jt] using this
    cases vs with
    | nil =>
      simp only [literalSchema, hty]
      rw [validates_lit]
      simp only [List.isEmpty_nil, Bool.true_or, Bool.and_true, List.any_cons, List.any_nil, Bool.or_false,
        List.isEmpty_cons, Bool.false_or]
      cases hj : jsonEqLit d v
      · simp
      · simp [jsonEqLit_str hv.1 hj]
    | cons w ws =>
      simp only [literalSchema, hty]
      rw [validates_lit]
      simp only [List.isEmpty_cons, Bool.false_or, Bool.and_true, List.any_cons, List.any_nil, Bool.or_false]
      cases hj : (v :: w :: ws).any (jsonEqLit d)
      · simp only [List.any_cons] at hj; simp [hj]
      · have := any_str_type hall hj
        simp only [List.any_cons] at hj; simp [hj, this]

theorem consOk_null (c : Constraints) : consOk c .null = true := by simp [consOk, Py.num?]

theorem typeMatches_null (d : Py) : typeMatches d .null = d.isNull := by cases d <;> rfl

/-- adding `"null"` to the `type` list of a node without `const` / `enum` / `anyOf` accepts `null` in addition -/
theorem validates_addNull (ty : List JT) (cons : Constraints) (items : Option (Bool ⊕ Sch)) (pre : Option (List Sch))
    (props : List (String × Sch)) (req : List String) (addl : Option (Bool ⊕ Sch)) (pats : List (Pat × Sch))
    (dflt : Option Py) (hty : ty ≠ []) (d : Py) :
    validates (.mk (ty ++ [.null]) Option.none [] cons items pre props req addl pats [] dflt) d
      = (validates (.mk ty Option.none [] cons items pre props req addl pats [] dflt) d || d.isNull) := by
  have e1 : ∀ t, validates (.mk t Option.none [] cons items pre props req addl pats [] dflt) d =
      ((t.isEmpty || t.any (typeMatches d)) && true && true && consOk cons d &&
       onListB d (fun xs => vPre pre xs && vItems items (xs.drop (preLen pre))) &&
       onDictB d (fun kvs => vProps props kvs && req.all (fun r => (lookupKey kvs r).isSome) && vPats pats kvs &&
          vAddl addl (kvs.filter (fun kv => !(propNames props).contains kv.1 && !(patList pats).any (fun p => p.isMatch kv.1)))) &&
       true) := by
    intro t; first | rfl | (unfold validates; rfl)
  rw [e1, e1]
  cases d with
  | null =>
    simp [typeMatches, Py.isNull, consOk_null, onListB, onDictB]
  | _ =>
    cases ty with
    | nil => exact absurd rfl hty
    | cons a as => simp [List.any_append, typeMatches_null, Py.isNull]

theorem unionSchema_pair (r n : Sch) : unionSchema [r, n] =
    (if [r, n].any Sch.isEmpty then Sch.empty
     else if [r, n].all Sch.onlyType then .mk (normTypes (dedupJT ([r, n].flatMap Sch.type))) Option.none [] {} Option.none Option.none [] [] Option.none [] [] Option.none
     else if [r, n].length == 2 && [r, n].all (fun r => !r.type.isEmpty) && [r, n].any (fun r => r.onlyType && r.type == [.null])
             && [r, n].all Sch.noLits then
       (match [r, n].find? (fun r => !(r.onlyType && r.type == [.null])) with
        | some r => if r.type.contains .null then r else r.withType (r.type ++ [.null])
        | Option.none => Sch.ofType .null)
     else .mk [] Option.none [] {} Option.none Option.none [] [] Option.none [] [r, n] Option.none) := by
  rfl

theorem union_prim (j : JT) (hj : j ≠ .null) :
    unionSchema [Sch.ofType j, Sch.ofType .null]
      = .mk [j, .null] Option.none [] {} Option.none Option.none [] [] Option.none [] [] Option.none := by
  cases j <;> first | rfl | exact absurd rfl hj

/-- the `Optional` shortcut on a schema that is more than a `type` and carries no `enum` / `const` -/
theorem union_opt (r : Sch) (he : r.isEmpty = false) (hot : r.onlyType = false) (hty : r.type.isEmpty = false)
    (hnl : r.noLits = true) (hnn : r.type.contains .null = false) :
    unionSchema [r, Sch.ofType .null] = r.withType (r.type ++ [.null]) := by
  rw [unionSchema_pair]
  have n1 : (Sch.ofType .null).isEmpty = false := rfl
  have n2 : (Sch.ofType .null).onlyType = true := rfl
  have n3 : (Sch.ofType .null).type = [.null] := rfl
  have n4 : (Sch.ofType .null).noLits = true := rfl
  simp only [List.any_cons, List.any_nil, List.all_cons, List.all_nil, he, hot, n1, n2, n3, n4, hty, hnl, Bool.or_false,
    Bool.false_or, Bool.and_true, Bool.false_and, Bool.true_and, Bool.not_false, List.length_cons, List.length_nil,
    List.find?, beq_self_eq_true, Bool.not_true, hnn, List.isEmpty_cons]
  simp

theorem union_array (cons : Constraints) (items : Option (Bool ⊕ Sch)) (pre : Option (List Sch)) :
    unionSchema [.mk [.array] Option.none [] cons items pre [] [] Option.none [] [] Option.none, Sch.ofType .null]
      = .mk ([.array] ++ [.null]) Option.none [] cons items pre [] [] Option.none [] [] Option.none := by
  rw [unionSchema_pair]
  by_cases hot : (Sch.mk [.array] Option.none [] cons items pre [] [] Option.none [] [] Option.none).onlyType = true
  · -- nothing but `type`: the type lists are concatenated
    have hi : items = Option.none := by
      cases items with
      | none => rfl
      | some i => simp [Sch.onlyType] at hot
    have hp : pre = Option.none := by
      cases pre with
      | none => rfl
      | some i => subst hi; simp [Sch.onlyType] at hot
    subst hi; subst hp
    have hc : cons = {} := by simpa [Sch.onlyType] using hot
    subst hc
    rfl
  · have hot' : (Sch.mk [.array] Option.none [] cons items pre [] [] Option.none [] [] Option.none).onlyType = false := by
      simpa using hot
    rw [← unionSchema_pair]
    exact union_opt _ rfl hot' rfl rfl rfl

theorem union_object (props : List (String × Sch)) (req : List String) (addl : Option (Bool ⊕ Sch)) :
    unionSchema [.mk [.object] Option.none [] {} Option.none Option.none props req addl [] [] Option.none, Sch.ofType .null]
      = .mk ([.object] ++ [.null]) Option.none [] {} Option.none Option.none props req addl [] [] Option.none := by
  rw [unionSchema_pair]
  by_cases hot : (Sch.mk [.object] Option.none [] {} Option.none Option.none props req addl [] [] Option.none).onlyType = true
  · have ha : addl = Option.none := by
      cases addl with
      | none => rfl
      | some i => cases props <;> cases req <;> simp [Sch.onlyType] at hot
    subst ha
    have hp : props = [] := by
      cases props with
      | nil => rfl
      | cons p ps => simp [Sch.onlyType] at hot
    subst hp
    have hr : req = [] := by
      cases req with
      | nil => rfl
      | cons p ps => simp [Sch.onlyType] at hot
    subst hr
    rfl
  · have hot' : (Sch.mk [.object] Option.none [] {} Option.none Option.none props req addl [] [] Option.none).onlyType = false := by
      simpa using hot
    rw [← unionSchema_pair]
    exact union_opt _ rfl hot' rfl rfl rfl

/-- per (inherited constraints, type, datum) -/
def SchemaOk (ap : Bool) (cs : Constraints) (t : Ty) (d : Py) : Prop :=
  t.sch = true → (cs = {} ∨ t.isBase = true) → cs.unique = false → d.sane = true →
    validates (mergeInto cs (buildD ap t)) d = conforms ap false cs t d

/-- **C06, version 1.** For every type of the scope `Ty.sch` and every JSON datum without integer-valued
    floats, the generated deserialization schema (2020-12 semantics) validates the datum iff the datum
    conforms to the type — any nesting depth, any width, `additional_properties` on or off. -/
theorem schema_iff_conforms (ap : Bool) :
    (∀ cs t d, SchemaOk ap cs t d) ∧
    (∀ fs kvs, schF fs = true → saneK kvs = true →
        (vProps (buildDF ap fs) kvs && (requiredF fs).all (fun r => (lookupKey kvs r).isSome))
          = conformsF ap false fs kvs) ∧
    (∀ (cs : Constraints) (ts : List Ty) (d : Py), ∀ t, ts = [t, .null] → SchemaOk ap cs t d) ∧
    (∀ ts xs, schL ts = true → saneL xs = true → vZip (buildDL ap ts) xs = conformsZip ap false ts xs) := by
  apply conforms.mutual_induct
  · -- null
    intro cs d _ _ _ _
    rw [buildD, conforms]; simp only [mergeInto, Sch.ofType, Sch.withCons, Sch.cons, merge_empty_right]
    rw [validates_leaf]; exact null_leaf cs d
  · intro cs d _ _ _ _
    rw [buildD, conforms]; simp only [mergeInto, Sch.ofType, Sch.withCons, Sch.cons, merge_empty_right]
    rw [validates_leaf]; exact bool_leaf cs d
  · intro cs d _ _ _ hs
    rw [buildD, conforms]; simp only [mergeInto, Sch.ofType, Sch.withCons, Sch.cons, merge_empty_right]
    rw [validates_leaf]; exact int_leaf cs d hs
  · intro cs d h; rw [Ty.sch] at h; cases h
  · intro cs d _ _ _ _
    rw [buildD, conforms]; simp only [mergeInto, Sch.ofType, Sch.withCons, Sch.cons, merge_empty_right]
    rw [validates_leaf]; exact str_leaf cs d
  · intro cs d _ _ hu hs
    rw [buildD, conforms]; simp only [mergeInto, Sch.empty, Sch.withCons, Sch.cons, merge_empty_right]
    rw [validates_leaf]; exact any_leaf cs d hs hu
  · -- list
    intro cs t d ih h _ hu hs
    rw [Ty.sch] at h
    rw [buildD, conforms]; simp only [mergeInto, Sch.withCons, Sch.cons, merge_empty_right]
    rw [validates_array']
    cases d <;> try rfl
    case list xs =>
      rw [Py.sane] at hs
      simp only [listOk, consOk_list cs xs hu, listErrors_nounique cs xs hu]
      congr 1
      apply all_congr_mem'
      intro x hx
      have := ih x h (Or.inl rfl) rfl (saneL_mem hs x hx)
      rwa [mergeInto_empty] at this
  · -- vtuple
    intro cs t d ih h _ hu hs
    rw [Ty.sch] at h
    rw [buildD, conforms]; simp only [mergeInto, Sch.withCons, Sch.cons, merge_empty_right]
    rw [validates_array']
    cases d <;> try rfl
    case list xs =>
      rw [Py.sane] at hs
      simp only [listOk, consOk_list cs xs hu, listErrors_nounique cs xs hu]
      congr 1
      apply all_congr_mem'
      intro x hx
      have := ih x h (Or.inl rfl) rfl (saneL_mem hs x hx)
      rwa [mergeInto_empty] at this
  · intro cs t d _ h; rw [Ty.sch] at h; cases h
  · intro cs t d _ h; rw [Ty.sch] at h; cases h
  · -- tuple
    intro cs ts d ih h _ hu hs
    rw [Ty.sch] at h
    rw [buildD, conforms]; simp only [mergeInto, Sch.withCons, Sch.cons]
    rw [validates_tuple]
    cases d <;> try rfl
    case list xs =>
      rw [Py.sane] at hs
      have hu' : (cs.merge { minItems := some ts.length, maxItems := some ts.length }).unique = false :=
        merge_unique hu rfl
      simp only [tupleOk, consOk_list _ xs hu', listErrors_nounique cs xs hu, buildDL_length, drop_isEmpty,
        ih xs h hs]
      have := tuple_len cs ts.length xs.length
      cases hz : conformsZip ap false ts xs <;> simp [this] <;> simpa using this
  · -- mapping
    intro cs k v d _ ihv h _ hu hs
    rw [Ty.sch, Bool.and_eq_true] at h
    have hk : k = .str := by cases k <;> first | rfl | (simp [Ty.isStr] at h)
    subst hk
    rw [buildD, conforms]
    have hks : buildD ap Ty.str = Sch.ofType .string := by rw [buildD]
    simp only [hks, mappingSchema, Sch.ofType, Sch.cons, mergeInto, Sch.withCons, merge_empty_right]
    rw [validates_mapping']
    cases d <;> try rfl
    case dict kvs =>
      rw [Py.sane] at hs
      simp only [dictOk]
      have hc : consOk cs (.dict kvs) = (cs.dictErrors kvs.length).isEmpty := by simp [consOk, Py.num?]
      rw [hc]; congr 1
      apply all_congr_mem'
      intro kv hkv
      have := ihv kv h.2 (Or.inl rfl) rfl (saneK_mem hs kv hkv)
      rw [mergeInto_empty] at this
      rw [this, conforms]; simp [strOk, Constraints.strErrors, optRule]
  · -- Optional
    intro cs ts d ih h hb _ hs
    rw [Ty.sch] at h
    obtain ⟨t, rfl, hin, hsch⟩ := schOpt_cases h
    have hcs : cs = {} := by cases hb with | inl h => exact h | inr h => cases h
    subst hcs
    have ht := ih t rfl hsch (Or.inl rfl) rfl hs
    rw [mergeInto_empty] at ht
    have hnull : buildD ap Ty.null = Sch.ofType .null := by rw [buildD]
    rw [buildD, mergeInto_empty, buildDL, buildDL, buildDL, hnull, conforms, conformsAny, conformsAny, conformsAny,
      conforms, Bool.or_false, ← ht]
    cases t <;> try (simp [Ty.optInner] at hin; done)
    case bool =>
      rw [buildD, union_prim _ (by decide), validates_leaf]
      simp only [Sch.ofType]; rw [validates_leaf]
      cases d <;> simp [typeMatches, consOk_empty, Py.isNull]
    case int =>
      rw [buildD, union_prim _ (by decide), validates_leaf]
      simp only [Sch.ofType]; rw [validates_leaf]
      cases d <;> simp [typeMatches, consOk_empty, Py.isNull]
    case str =>
      rw [buildD, union_prim _ (by decide), validates_leaf]
      simp only [Sch.ofType]; rw [validates_leaf]
      cases d <;> simp [typeMatches, consOk_empty, Py.isNull]
    case any =>
      have : unionSchema [buildD ap Ty.any, Sch.ofType .null] = Sch.empty := by rw [buildD]; rfl
      rw [this, buildD]; simp [Sch.empty, validates_leaf, consOk_empty]
    case list t' =>
      rw [buildD, union_array]; exact validates_addNull _ _ _ _ _ _ _ _ _ (by simp) d
    case vtuple t' =>
      rw [buildD, union_array]; exact validates_addNull _ _ _ _ _ _ _ _ _ (by simp) d
    case tuple ts' =>
      rw [buildD, union_array]; exact validates_addNull _ _ _ _ _ _ _ _ _ (by simp) d
    case mapping k v =>
      rw [Ty.sch, Bool.and_eq_true] at hsch
      have hk : k = .str := by cases k <;> first | rfl | (simp [Ty.isStr] at hsch)
      subst hk
      have hks : buildD ap Ty.str = Sch.ofType .string := by rw [buildD]
      have hm : buildD ap (.mapping .str v) = .mk [.object] Option.none [] {} Option.none Option.none [] []
          (subKw (buildD ap v)) [] [] Option.none := by rw [buildD, hks]; rfl
      rw [hm, union_object]; exact validates_addNull _ _ _ _ _ _ _ _ _ (by simp) d
    case obj ci fs =>
      rw [buildD, union_object]; exact validates_addNull _ _ _ _ _ _ _ _ _ (by simp) d
  · -- literal
    intro cs vs d h hb _ _
    rw [Ty.sch] at h; simp only [Bool.and_eq_true, Bool.not_eq_true'] at h
    have hcs : cs = {} := by cases hb with | inl h => exact h | inr h => cases h
    subst hcs
    rw [buildD, conforms, mergeInto_empty]
    exact literal_ok vs h.1 h.2 d
  · intro cs cls ms d h hb _ _
    rw [Ty.sch] at h; simp only [Bool.and_eq_true, Bool.not_eq_true'] at h
    have hcs : cs = {} := by cases hb with | inl h => exact h | inr h => cases h
    subst hcs
    rw [buildD, conforms, mergeInto_empty, literal_ok _ (by simpa using h.1) (by simpa [List.all_map] using h.2) d,
      List.any_map]
    rfl
  · -- newtype
    intro cs n t d ih h hb hu hs
    rw [Ty.sch] at h
    have hcs : cs = {} := by cases hb with | inl h => exact h | inr h => cases h
    rw [buildD, conforms]; exact ih h (Or.inl hcs) hu hs
  · -- ann
    intro cs c t d ih h hb hu hs
    rw [Ty.sch] at h; simp only [Bool.and_eq_true, Bool.not_eq_true'] at h
    have hcs : cs = {} := by cases hb with | inl h => exact h | inr h => cases h
    subst hcs
    rw [buildD, conforms, mergeInto_empty]
    have := ih h.2 (Or.inr h.1.2) (merge_unique h.1.1 rfl) hs
    rw [merge_empty_right] at this ⊢
    exact this
  · -- obj
    intro cs ci fs d ih h _ hu hs
    rw [Ty.sch] at h
    rw [buildD, conforms]; simp only [mergeInto, Sch.withCons, Sch.cons, merge_empty_right]
    rw [validates_object']
    cases d <;> try rfl
    case dict kvs =>
      rw [Py.sane] at hs
      have hc : consOk cs (.dict kvs) = (cs.dictErrors kvs.length).isEmpty := by simp [consOk, Py.num?]
      simp only [dictOk, hc, ih kvs h hs, propNames_buildDF, noUnexpected, Bool.and_assoc,
        depOk_of_noDeps (schF_noDeps h) kvs, Bool.and_true]
  · intro cs d t h; cases h
  · intro cs t ts d iht _ t0 heq
    cases heq; exact iht
  · -- zip cons
    intro t ts x xs iht ihts h hs
    rw [schL, Bool.and_eq_true] at h; rw [saneL, Bool.and_eq_true] at hs
    rw [buildDL, vZip, conformsZip, ihts h.2 hs.2]
    have := iht h.1 (Or.inl rfl) rfl hs.1
    rw [mergeInto_empty] at this; rw [this]
  · intro ts xs hne _ _
    cases ts with
    | nil => cases xs <;> simp [buildDL, vZip, conformsZip]
    | cons t ts =>
      cases xs with
      | nil => simp [buildDL, vZip, conformsZip]
      | cons x xs => exact (hne t ts x xs rfl rfl).elim
  · intro kvs _ _; rw [buildDF, requiredF, vProps, conformsF]; rfl
  · -- field cons
    intro f t fs kvs iht ihfs h hs
    rw [schF] at h; simp only [Bool.and_eq_true, Bool.not_eq_true'] at h
    rw [buildDF, requiredF, vProps, conformsF, ← ihfs h.2 hs]
    simp only [List.all_append, validates_fieldSchema]
    have hx : ∀ x, lookupKey kvs f.alias = some x → validates (buildD ap t) x = conforms ap false {} t x := by
      intro x hx
      obtain ⟨kv, hkv, rfl⟩ := lookupKey_mem hx
      have := iht kv.2 h.1.2 (Or.inl rfl) rfl (saneK_mem hs kv hkv)
      rwa [mergeInto_empty] at this
    cases hl : lookupKey kvs f.alias with
    | none =>
      cases hr : f.required <;> simp [propOk, fieldOk, hr, hl]
    | some x =>
      cases hr : f.required <;> simp [propOk, fieldOk, hr, hl, hx x hl, h.1.1, Bool.and_assoc, Bool.and_left_comm]

/-- **C06 (core).** -/
theorem C06_schema_iff_conforms (ap : Bool) (t : Ty) (ht : t.sch = true) (d : Py) (hd : d.sane = true) :
    validates (buildD ap t) d = conforms ap false {} t d := by
  have := (schema_iff_conforms ap).1 {} t d ht (Or.inl rfl) rfl hd
  rwa [mergeInto_empty] at this

/-- the exclusions are needed (row 40): a constraint attached to a literal type is shown by the schema and
    ignored by deserialization -/
theorem C06_literal_constraint_counterexample :
    validates (buildD false (.ann { minLen := some 2 } (.literal [.str "a", .str "bb"]))) (.str "a") = false
    ∧ conforms false false {} (.ann { minLen := some 2 } (.literal [.str "a", .str "bb"])) (.str "a") = true := by
  decide +kernel

/-- … and an integer-valued float is an `integer` for JSON Schema only -/
theorem C06_int_float_counterexample :
    validates (buildD false .int) (.float (.fin 1)) = true ∧ conforms false false {} .int (.float (.fin 1)) = false := by
  decide +kernel

end Api
