/-!
# Basic data of the apischema model

Python data (`Py`), JSON classes, numbers, validation-error trees.
Import-free; every function total, computable and structurally recursive.
-/
namespace Api

/-- the seven classes of JSON-shaped Python data (`JSON_TYPES` / `TYPE_TO_JSON_TYPE`) -/
inductive JClass where
  | null | bool | int | float | str | list | dict
  deriving DecidableEq, Repr, Inhabited

/-- `JsonType.from_type`: the name used in `bad_type` messages and in schemas -/
def JClass.jsonName : JClass → String
  | .null => "null" | .bool => "boolean" | .int => "integer" | .float => "number"
  | .str => "string" | .list => "array" | .dict => "object"

/-- a Python `float`: every finite double is a rational -/
inductive Flt where
  | fin (q : Rat) | nan | pinf | ninf
  deriving DecidableEq, Repr, Inhabited

/-- any Python object that can be passed as data -/
inductive Py where
  | null
  | bool (b : Bool)
  | int (i : Int)
  | float (f : Flt)
  | str (s : String)
  | list (xs : List Py)
  /-- `dict` whose keys are all `str` (insertion order kept) -/
  | dict (kvs : List (String × Py))
  /-- `dict` with at least one non-`str` key -/
  | dictNS (kvs : List (Py × Py))
  /-- instance of a class that is not one of the seven JSON classes (tuple, bytes, set, …) -/
  | other (cls : String)
  deriving Repr, Inhabited

/-- `type(data)` when it is exactly one of the JSON classes -/
def Py.jclass? : Py → Option JClass
  | .null => some .null | .bool _ => some .bool | .int _ => some .int | .float _ => some .float
  | .str _ => some .str | .list _ => some .list | .dict _ => some .dict | .dictNS _ => some .dict
  | .other _ => Option.none

/-! ## Numbers -/

/-- a Python number (`int` or `float`) as used in constraints and comparisons -/
inductive Num where
  | int (i : Int) | flt (f : Flt)
  deriving DecidableEq, Repr, Inhabited

def Num.toFlt : Num → Flt
  | .int i => .fin i
  | .flt f => f

/-- `a < b` on Python floats (false as soon as a NaN is involved) -/
def Flt.lt : Flt → Flt → Bool
  | .nan, _ => false | _, .nan => false
  | .ninf, .ninf => false | .ninf, _ => true
  | _, .ninf => false
  | .pinf, _ => false
  | _, .pinf => true
  | .fin a, .fin b => decide (a < b)

/-- `a == b` on Python floats (NaN differs from everything) -/
def Flt.eq : Flt → Flt → Bool
  | .nan, _ => false | _, .nan => false
  | .fin a, .fin b => decide (a = b)
  | .pinf, .pinf => true | .ninf, .ninf => true
  | _, _ => false

def Flt.le (a b : Flt) : Bool := a.lt b || a.eq b

/-- Python compares `int` and `float` exactly -/
def Num.lt (a b : Num) : Bool := a.toFlt.lt b.toFlt
def Num.le (a b : Num) : Bool := a.toFlt.le b.toFlt
def Num.eq (a b : Num) : Bool := a.toFlt.eq b.toFlt

def Rat.isInt (q : Rat) : Bool := q.den == 1

/-- `not (data % m)`: `data` is an exact multiple of `m` (float `%` is exact; NaN is truthy) -/
def Num.isMultipleOf (x m : Num) : Bool :=
  match x.toFlt, m.toFlt with
  | .fin a, .fin b => if b = 0 then false else Rat.isInt (a / b)
  | .fin a, .pinf => decide (a = 0)
  | .fin a, .ninf => decide (a = 0)
  | _, _ => false

/-! ## Validation errors -/

/-- a component of an error location -/
inductive Key where
  | idx (i : Nat) | name (s : String)
  deriving DecidableEq, Repr, Inhabited

/-- `sorted(children)`: indices by value, names by code point; the two kinds never meet in
    JSON-shaped data (for the mixed case see `Err.mixed`) -/
def Key.lt : Key → Key → Bool
  | .idx a, .idx b => a < b
  | .name a, .name b => a < b
  | .idx _, .name _ => true
  | .name _, .idx _ => false

def Key.sameKind : Key → Key → Bool
  | .idx _, .idx _ => true
  | .name _, .name _ => true
  | _, _ => false

/-- a literal value of `Literal[...]` / an enum member value -/
inductive Lit where
  | null | bool (b : Bool) | int (i : Int) | float (f : Flt) | str (s : String)
  deriving DecidableEq, Repr, Inhabited

/-- one error message, as a rule kind with its parameters (never message text) -/
inductive Rule where
  | badType (expected : JClass) (found : Option JClass)
  | missing
  | missingRequiredBy (requiring : List String)
  | unexpected
  | minimum (n : Num) | maximum (n : Num) | exclusiveMinimum (n : Num) | exclusiveMaximum (n : Num)
  | multipleOf (n : Num)
  | minLength (n : Nat) | maxLength (n : Nat) | pattern (p : String)
  | minItems (n : Nat) | maxItems (n : Nat) | uniqueItems
  | minProperties (n : Nat) | maxProperties (n : Nat)
  | oneOf (vs : List Lit)
  | custom (msg : String)
  deriving DecidableEq, Repr, Inhabited

/-- `ValidationError`: own messages and children; children are kept sorted by key with distinct
    keys (canonical form), so that `flatten` (= `_errors`) is a plain walk -/
inductive Err where
  | mk (msgs : List Rule) (children : List (Key × Err))
  deriving Repr, Inhabited

def Err.msgs : Err → List Rule | .mk ms _ => ms
def Err.children : Err → List (Key × Err) | .mk _ cs => cs

def Err.leaf (r : Rule) : Err := .mk [r] []
def Err.ofMsgs (rs : List Rule) : Err := .mk rs []

abbrev Path := List Key
abbrev Errs := List (Path × Rule)

def pre (k : Key) (es : Errs) : Errs := es.map fun pr => (k :: pr.1, pr.2)

mutual
/-- `ValidationError._errors` -/
def Err.flatten : Err → Errs
  | .mk ms cs => ms.map (fun r => ([], r)) ++ flattenL cs
termination_by structural e => e
def flattenL : List (Key × Err) → Errs
  | [] => []
  | (k, e) :: cs => pre k e.flatten ++ flattenL cs
termination_by structural cs => cs
end

/-- `errors[key] = error` on the sorted child list (`set_child_error`, dict assignment) -/
def setChild (k : Key) (e : Err) : List (Key × Err) → List (Key × Err)
  | [] => [(k, e)]
  | (k', e') :: cs =>
    if k = k' then (k, e) :: cs
    else if k.lt k' then (k, e) :: (k', e') :: cs
    else (k', e') :: setChild k e cs

/-- do the children mix integer and string keys? (`sorted` then raises `TypeError`) -/
def mixedKeys : List (Key × Err) → Bool
  | [] => false
  | (k, _) :: cs => cs.any (fun c => !k.sameKind c.1) || mixedKeys cs

/-- the result of a deserialization: value, `ValidationError`, or any other exception -/
inductive Outcome (α : Type) where
  | ok (a : α)
  | invalid (e : Err)
  | crash (exn : String)
  deriving Repr, Inhabited

end Api
