import Apimodel.Forest
/-!
# `apischema.ordering.sort_by_order` (C16)

`elts` are the fields / serialized methods of a class (name + ordering after class-level
overriding has been applied by `effective`).
-/
namespace Api

inductive Ordering' where
  | none                     -- no `order(...)`: value 0
  | value (n : Int)
  | after (s : String)
  | before (s : String)
  deriving DecidableEq, Repr, Inhabited

structure Elt where
  name : String
  ord : Ordering'
  deriving DecidableEq, Repr, Inhabited

/-- `order_overriding.get(name(elt), order(elt))` -/
def effective (overriding : List (String × Ordering')) (e : Elt) : Elt :=
  match overriding.find? (fun p => p.1 == e.name) with
  | some (_, o) => { e with ord := o }
  | none => e

def Elt.rootValue (e : Elt) : Option Int :=
  match e.ord with
  | .none => some 0
  | .value n => some n
  | _ => none

def Elt.anchor (e : Elt) : Option String :=
  match e.ord with
  | .after s | .before s => some s
  | _ => none

def isAfter (n : String) (e : Elt) : Bool := e.ord == .after n
def isBefore (n : String) (e : Elt) : Bool := e.ord == .before n

/-- elements put *before* / *after* the element named `n`: `before[n]`, `after[n]` -/
def befores (es : List Elt) (e : Elt) : List Elt := es.filter (isBefore e.name)
def afters (es : List Elt) (e : Elt) : List Elt := es.filter (isAfter e.name)

/-- stable insertion by order value: `sorted(groups)` with per-group insertion order -/
def insertRoot (e : Elt × Int) : List (Elt × Int) → List (Elt × Int)
  | [] => [e]
  | x :: xs => if e.2 < x.2 then e :: x :: xs else x :: insertRoot e xs

def roots (es : List Elt) : List Elt :=
  ((es.filterMap (fun e => e.rootValue.map (fun v => (e, v)))).foldl (fun acc r => insertRoot r acc) []).map (·.1)

/-- `sort_by_order` (the recursion of `add_to_result` gets fuel `len(elts)`) -/
def sortByOrder (es : List Elt) : List Elt :=
  Forest.output (befores es) (afters es) (roots es) es.length

/-- the element a non-root is attached to -/
def parent (es : List Elt) (e : Elt) : Option Elt :=
  match e.anchor with
  | some s => es.find? (fun x => x.name == s)
  | none => none

/-- does the anchor chain of `x` reach a root within `n` steps? -/
def reachesRoot (es : List Elt) : Nat → Elt → Bool
  | 0, _ => false
  | n+1, x => x.rootValue.isSome || (match parent es x with | some p => reachesRoot es n p | none => false)

/-- every element is attached, directly or through other attached elements, to one with an order value -/
def anchored (es : List Elt) : Bool := es.all (reachesRoot es es.length)

def nodupNames (es : List Elt) : Prop := (es.map (·.name)).Nodup

#eval (sortByOrder [⟨"a", .after "c"⟩, ⟨"b", .before "a"⟩, ⟨"c", .none⟩, ⟨"d", .value (-1)⟩,
  ⟨"e", .after "zzz"⟩, ⟨"f", .after "g"⟩, ⟨"g", .after "f"⟩]).map (·.name)
#eval (sortByOrder [⟨"x", .none⟩, ⟨"y", .value 0⟩, ⟨"z", .value 0⟩, ⟨"w", .value 1⟩, ⟨"v", .value (-1)⟩]).map (·.name)

end Api
