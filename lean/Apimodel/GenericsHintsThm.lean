import Apimodel.GenericsThm
import Apimodel.Generated.GenericsSrc
/-! `resolve_type_hints` with fields declared again in subclasses (C01): every name once, at the position of its first declaration, with the type of its most
derived declaration. -/
namespace Api.Generics

theorem setHint_names (h : List (String × GTy)) (n : String) (t : GTy) :
    (setHint h n t).map (·.1) = if h.any (fun p => p.1 == n) then h.map (·.1) else h.map (·.1) ++ [n] := by
  unfold setHint
  split
  · simp only [List.map_map]
    congr 1
    funext p
    simp only [Function.comp]
    split <;> rfl
  · simp

theorem any_iff_mem_names (h : List (String × GTy)) (n : String) : h.any (fun p => p.1 == n) = (h.map (·.1)).contains n := by
  induction h with
  | nil => rfl
  | cons p h ih =>
    rw [List.any_cons, ih, List.map_cons, List.contains_cons]
    have : (p.1 == n) = (n == p.1) := by
      by_cases h1 : p.1 = n
      · subst h1; rfl
      · have h2 : ¬ n = p.1 := fun e => h1 e.symm
        rw [beq_eq_false_iff_ne.2 h1, beq_eq_false_iff_ne.2 h2]
    rw [this]

/-- every name once -/
theorem setHint_nodup (h : List (String × GTy)) (n : String) (t : GTy) (hn : (h.map (·.1)).Nodup) : ((setHint h n t).map (·.1)).Nodup := by
  rw [setHint_names]
  split
  · exact hn
  · rename_i hc
    rw [any_iff_mem_names] at hc
    rw [List.nodup_append]
    refine ⟨hn, by simp, ?_⟩
    intro a ha b hb hab
    simp only [List.mem_singleton] at hb
    subst hb; subst hab
    exact hc (by simpa [List.contains_iff_mem] using ha)

theorem foldl_setHint_nodup : ∀ (fields : List (String × GTy)) (h : List (String × GTy)), (h.map (·.1)).Nodup →
    ((fields.foldl (fun h p => setHint h p.1 p.2) h).map (·.1)).Nodup
  | [], h, hn => hn
  | p :: ps, h, hn => foldl_setHint_nodup ps _ (setHint_nodup h p.1 p.2 hn)

theorem hints_names_nodup (cs : List GClass) (args : List GTy) : ((resolveHints cs args).map (·.1)).Nodup :=
  foldl_setHint_nodup _ [] (by simp)

/-- the value read for a name after `setHint` -/
theorem lookup_setHint (h : List (String × GTy)) (n : String) (t : GTy) :
    ((setHint h n t).find? (fun p => p.1 == n)).map (·.2) = some t := by
  unfold setHint
  split
  · rename_i hc
    induction h with
    | nil => simp at hc
    | cons p h ih =>
      simp only [List.map_cons, List.find?_cons]
      by_cases hp : (p.1 == n) = true
      · simp [hp]
      · simp only [hp, Bool.false_eq_true, if_false]
        simp only [List.any_cons, hp, Bool.false_or] at hc
        have := ih hc
        simpa [hp] using this
  · rename_i hc
    rw [List.find?_append]
    have : h.find? (fun p => p.1 == n) = none := by
      rw [List.find?_eq_none]; intro x hx hxn
      exact hc (List.any_eq_true.2 ⟨x, hx, hxn⟩)
    simp [this]

/-- `class RS(RB): id: str` over `class RB: id: int; name: str`: `id` first, typed `str`; the first-wins reading keeps `int` -/
example :
    let rb : GClass := { name := "RB", params := [], baseArgs := [], fields := [("id", .con "int"), ("name", .con "str")] }
    let rs : GClass := { name := "RS", params := [], baseArgs := [], fields := [("id", .con "str"), ("extra", .con "int")] }
    renderFields (resolveHints [rs, rb] []) = [("id", "str"), ("name", "str"), ("extra", "int")] ∧
    renderFields (hintsOfFirstWins (resolveChain [rs, rb] [])) = [("id", "int"), ("name", "str"), ("extra", "int")] := by decide +kernel

/-- Source tie: the walk goes from the root to the class (`reversed(generic_mro(obj))`), keeps the names annotated in the class itself and assigns them
unconditionally. -/
theorem hints_walk_source :
    Generated.gen_hintsLoop = "for base in reversed(generic_mro(obj))" ∧ Generated.gen_hintsSkip = "if name not in base_annotations: continue" ∧
    Generated.gen_hintsAssignTargets = ["hints[name]", "hints[name]", "hints[name]"] := by
  refine ⟨?_, ?_, ?_⟩ <;> decide +kernel

end Api.Generics
