import Apimodel.Generated.Coerce
import Apimodel.CoerceThm
/-!
# The model `coerce` is what the source says

`Generated.coerceChain` is regenerated from `apischema/deserialization/coercion.py` on every run; the theorem below is
re-checked against it.  Together with `C14_coerce_table` (stated on the model) it gives the table property for the chain
the source contains.
-/
namespace Api

theorem badTypeP_int_float (f : Flt) : badTypeP .int (.float f) = .invalid (.ofMsgs [.badType .int (some .float)]) := rfl

/-- **translation tie for C14**: the if / elif chain read from the source means the hand-written `coerce`, for every
    conversion environment, expected class and datum -/
theorem coerce_matches_source (env : CoerceEnv) (c : JClass) (d : Py) :
    interpChain Generated.coerceChain env c d = coerce env c d := by
  cases c <;> cases d <;>
    first
    | rfl
    | (simp only [interpChain, Generated.coerceChain, CGuard.holds, CAction.exec, coerce, Py.isInstance, pyCall]; rfl)
    | (rename_i f; cases f <;> rfl)
    | (simp [interpChain, Generated.coerceChain, CGuard.holds, CAction.exec, coerce, Py.isInstance, pyCall]; done)
    | (rename_i s
       simp only [interpChain, Generated.coerceChain, CGuard.holds, CAction.exec, coerce, Py.isInstance, pyCall]
       generalize assoc? s env.intOf = r; cases r <;> simp <;> done)
    | (rename_i s
       simp only [interpChain, Generated.coerceChain, CGuard.holds, CAction.exec, coerce, Py.isInstance, pyCall]
       generalize assoc? s env.floatOf = r; cases r <;> simp <;> done)
    | (rename_i i
       simp only [interpChain, Generated.coerceChain, CGuard.holds, CAction.exec, coerce, Py.isInstance, pyCall]
       generalize intToFlt i = r; cases r <;> simp <;> done)
    | (simp [interpChain, Generated.coerceChain, CGuard.holds, CAction.exec, coerce, Py.isInstance, pyCall]; split <;> rfl)

/-- hence the table property holds of the source's chain -/
theorem C14_source_table (env : CoerceEnv) (c : JClass) (d d' : Py)
    (h : interpChain Generated.coerceChain env c d = .ok d') : d' = d ∨ inCoerceTable env c d = true := by
  rw [coerce_matches_source] at h
  exact C14_coerce_table env c d d' h

end Api
