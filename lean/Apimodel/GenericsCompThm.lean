import Apimodel.GenericsThm
/-! Specialisation in two steps (`B[List[T]]`, then `T := int`) is specialisation in one step (`B[List[int]]`): substitution commutes with
the resolution of a well-formed hierarchy.  This is what makes an alias of a partially specialised generic class (`IntB = B[int, T]`, then `IntB[str]`)
mean the same fields as the direct spelling. -/
namespace Api.Generics

def mapS (τ : Subst) (σ : Subst) : Subst := σ.map (fun p => (p.1, subst τ p.2))

theorem find_mapS (τ σ : Subst) (v : String) :
    (mapS τ σ).find? (fun p => p.1 == v) = (σ.find? (fun p => p.1 == v)).map (fun p => (p.1, subst τ p.2)) := by
  induction σ with
  | nil => rfl
  | cons p σ ih =>
    simp only [mapS, List.map_cons, List.find?_cons]
    cases h : p.1 == v with
    | true => simp
    | false => simpa [mapS] using ih

theorem lookupS_comp (τ σ : Subst) (v : String) (hv : (σ.map (·.1)).contains v = true) :
    subst τ (lookupS σ v) = lookupS (mapS τ σ) v := by
  unfold lookupS
  rw [find_mapS]
  cases h : σ.find? (fun p => p.1 == v) with
  | some p => rfl
  | none =>
    exfalso
    rw [List.find?_eq_none] at h
    simp only [List.contains_iff_mem, List.mem_map] at hv
    obtain ⟨p, hp, rfl⟩ := hv
    exact h p hp (by simp)

theorem subst_comp (τ σ : Subst) :
    (∀ t, within (σ.map (·.1)) t = true → subst τ (subst σ t) = subst (mapS τ σ) t) ∧
    (∀ ts, withinL (σ.map (·.1)) ts = true → substL τ (substL σ ts) = substL (mapS τ σ) ts) := by
  apply subst.mutual_induct (motive_1 := fun t => within (σ.map (·.1)) t = true → subst τ (subst σ t) = subst (mapS τ σ) t)
    (motive_2 := fun ts => withinL (σ.map (·.1)) ts = true → substL τ (substL σ ts) = substL (mapS τ σ) ts)
  · intro v h; rw [within] at h; rw [subst, subst]; exact lookupS_comp τ σ v h
  · intro c _; rw [subst, subst, subst]
  · intro f as ih h; rw [within] at h; rw [subst, subst, subst, ih h]
  · intro _; rw [substL, substL, substL]
  · intro t ts ih1 ih2 h
    rw [withinL, Bool.and_eq_true] at h
    rw [substL, substL, substL, ih1 h.1, ih2 h.2]

theorem zip_substL (τ : Subst) : ∀ (ps : List String) (args : List GTy), ps.zip (substL τ args) = mapS τ (ps.zip args)
  | [], _ => by simp [mapS]
  | _ :: _, [] => by simp [substL, mapS]
  | p :: ps, a :: as => by
    rw [substL]; simp only [List.zip_cons_cons, mapS, List.map_cons]
    rw [zip_substL τ ps as]; rfl

theorem substFields_comp (τ σ : Subst) (fs : List (String × GTy)) (h : fs.all (fun p => within (σ.map (·.1)) p.2) = true) :
    substFields τ (substFields σ fs) = substFields (mapS τ σ) fs := by
  induction fs with
  | nil => rfl
  | cons f fs ih =>
    simp only [List.all_cons, Bool.and_eq_true] at h
    simp only [substFields, List.map_cons, List.map_map] at ih ⊢
    rw [(subst_comp τ σ).1 f.2 h.1]
    congr 1
    exact ih h.2

theorem resolveChain_cons (c : GClass) (rest : List GClass) (args : List GTy) :
    resolveChain (c :: rest) args = resolveChain rest (substL (c.params.zip args) c.baseArgs) ++ substFields (c.params.zip args) c.fields := rfl

/-- Two steps = one step. -/
theorem resolve_two_step (τ : Subst) : ∀ (cs : List GClass) (args : List GTy), chainWf cs = true →
    (∀ c, cs.head? = some c → c.params.length = args.length) →
    resolveChain cs (substL τ args) = substFields τ (resolveChain cs args)
  | [], _, _, _ => rfl
  | [c], args, hwf, hl => by
    have hlen := hl c rfl
    have hw : c.wf = true := by simpa [chainWf] using hwf
    simp only [GClass.wf, Bool.and_eq_true] at hw
    rw [resolveChain_cons c [] (substL τ args), resolveChain_cons c [] args]
    simp only [resolveChain, List.nil_append]
    rw [zip_substL, substFields_comp]
    rw [zip_keys _ _ hlen]; exact hw.2
  | c :: d :: rest, args, hwf, hl => by
    have hlen := hl c rfl
    simp only [chainWf, Bool.and_eq_true, beq_iff_eq] at hwf
    obtain ⟨⟨hw, hbl⟩, hrest⟩ := hwf
    simp only [GClass.wf, Bool.and_eq_true] at hw
    have hk := zip_keys _ _ hlen
    rw [resolveChain_cons c (d :: rest) (substL τ args), resolveChain_cons c (d :: rest) args, zip_substL]
    have h1 : substL (mapS τ (c.params.zip args)) c.baseArgs = substL τ (substL (c.params.zip args) c.baseArgs) := by
      rw [(subst_comp τ (c.params.zip args)).2 c.baseArgs (by rw [hk]; exact hw.1)]
    rw [h1, resolve_two_step τ (d :: rest) _ hrest ?_]
    · simp only [substFields, List.map_append]
      congr 1
      have := substFields_comp τ (c.params.zip args) c.fields (by rw [hk]; exact hw.2)
      simpa [substFields] using this.symm
    · intro c' hc'
      simp only [List.head?_cons, Option.some.injEq] at hc'
      subst hc'
      rw [substL_length]; exact hbl.symm

/-- `IntB = B[int, T]`, then `IntB[str]`: the fields of `B[int, str]` -/
example : renderFields (substFields [("T", .con "str")] (resolveChain [clsB, clsA] [.con "int", .var "T"]))
    = renderFields (resolveChain [clsB, clsA] [.con "int", .con "str"]) := by decide +kernel

end Api.Generics
