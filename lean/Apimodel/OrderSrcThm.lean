import Apimodel.Order
import Apimodel.Generated.OrderSrc
/-! Source tie of `sort_by_order` (C16): the classification chain and the body of `add_to_result`, regenerated from the working tree,
interpreted statement by statement, are the model's `rootValue` / `anchor` buckets and `Forest.walk`. -/
namespace Api

/-- where the classification loop files an element -/
inductive Bucket where
  | group (v : Int) | after (s : String) | before (s : String) | raises
  deriving DecidableEq, Repr

/-- the tests of the chain, read on the model's ordering (an `Ordering` object carries exactly one of order / after / before) -/
def ordTest (o : Ordering') : String → Option Bool
  | "ordering is None" => some (o == .none)
  | "ordering.order is not None" => some (match o with | .value _ => true | _ => false)
  | "ordering.after is not None" => some (match o with | .after _ => true | _ => false)
  | "ordering.before is not None" => some (match o with | .before _ => true | _ => false)
  | "else" => some true
  | _ => Option.none

/-- the statements of the chain -/
def ordAct (o : Ordering') : String → Option Bucket
  | "groups[0].append(elt)" => some (.group 0)
  | "groups[ordering.order].append(elt)" => (match o with | .value n => some (.group n) | _ => Option.none)
  | "after[get_field_name(ordering.after, methods=True)].append(elt)" => (match o with | .after s => some (.after s) | _ => Option.none)
  | "before[get_field_name(ordering.before, methods=True)].append(elt)" => (match o with | .before s => some (.before s) | _ => Option.none)
  | "raise NotImplementedError" => some .raises
  | _ => Option.none

def classifySrc (o : Ordering') : List (String × String) → Option Bucket
  | [] => Option.none
  | (t, a) :: rest =>
      match ordTest o t with
      | some true => ordAct o a
      | some false => classifySrc o rest
      | Option.none => Option.none

/-- the model's reading: `rootValue` for the groups, `anchor` + `isAfter` / `isBefore` for the relative ones -/
def bucketOf (e : Elt) : Bucket :=
  match e.ord with
  | .none => .group 0 | .value n => .group n | .after s => .after s | .before s => .before s

/-- C16 (source tie): the chain files every element where the model does -/
theorem classify_matches_source (e : Elt) : classifySrc e.ord Generated.ord_chain = some (bucketOf e) := by
  cases e with
  | mk name ord => cases ord <;> rfl

theorem bucket_root (e : Elt) : (∃ v, bucketOf e = .group v ∧ e.rootValue = some v) ∨ (e.rootValue = Option.none ∧ ∃ s, e.anchor = some s) := by
  cases e with
  | mk name ord => cases ord <;> simp [bucketOf, Elt.rootValue, Elt.anchor]

theorem bucket_after (es : List Elt) (x e : Elt) : x ∈ afters es e ↔ x ∈ es ∧ bucketOf x = .after e.name := by
  cases x with
  | mk name ord => cases ord <;> simp [afters, isAfter, bucketOf, List.mem_filter]

theorem bucket_before (es : List Elt) (x e : Elt) : x ∈ befores es e ↔ x ∈ es ∧ bucketOf x = .before e.name := by
  cases x with
  | mk name ord => cases ord <;> simp [befores, isBefore, bucketOf, List.mem_filter]

/-- one statement of `add_to_result` on an element, given the recursive call -/
def walkStmt (pre post : Elt → List Elt) (rec_ : Elt → List Elt) (e : Elt) : String → Option (List Elt)
  | "elt_name = name(elt)" => some []
  | "for before_elt in before[elt_name]:\n    add_to_result(before_elt)" => some ((pre e).flatMap rec_)
  | "result.append(elt)" => some [e]
  | "for after_elt in after[elt_name]:\n    add_to_result(after_elt)" => some ((post e).flatMap rec_)
  | _ => Option.none

def walkBody (pre post : Elt → List Elt) (rec_ : Elt → List Elt) (e : Elt) : List String → Option (List Elt)
  | [] => some []
  | s :: rest => match walkStmt pre post rec_ e s, walkBody pre post rec_ e rest with
      | some a, some b => some (a ++ b)
      | _, _ => Option.none

/-- `add_to_result` with the body read from the source (fuel as in the model) -/
def walkSrc (body : List String) (pre post : Elt → List Elt) : Nat → Elt → Option (List Elt)
  | 0, _ => some []
  | k+1, e => walkBody pre post (fun x => (walkSrc body pre post k x).getD []) e body

/-- C16 (source tie): the body of `add_to_result` as written is the model's walk (elements placed before, the element, elements placed after) -/
theorem walk_matches_source (pre post : Elt → List Elt) : ∀ (k : Nat) (e : Elt),
    walkSrc Generated.ord_walk pre post k e = some (Forest.walk pre post k e)
  | 0, _ => rfl
  | k+1, e => by
    have ih : (fun x => (walkSrc Generated.ord_walk pre post k x).getD []) = Forest.walk pre post k := by
      funext x; rw [walk_matches_source pre post k x]; rfl
    unfold walkSrc
    rw [ih]
    simp [Generated.ord_walk, walkBody, walkStmt, Forest.walk]

/-- the parts of the function the model takes as given -/
theorem order_definitions_pinned :
    Generated.ord_effective = "ordering = order_overriding.get(name(elt), order(elt))" ∧
    Generated.ord_containers = ["groups: Dict[int, List[T]] = defaultdict(list)", "after: Dict[str, List[T]] = defaultdict(list)", "before: Dict[str, List[T]] = defaultdict(list)"] ∧
    Generated.ord_fastPath = "not after and (not before) and (len(groups) == 1) => return next(iter(groups.values()))" ∧
    Generated.ord_final = "for value in sorted(groups):\n    for elt in groups[value]:\n        add_to_result(elt) ; return result" := by
  refine ⟨?_, ?_, ?_, ?_⟩ <;> decide +kernel

end Api
