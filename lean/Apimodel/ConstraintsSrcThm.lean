import Apimodel.Constraints
import Apimodel.Generated.ConstraintsSrc
/-! Source tie of the constraints (C01, C02, C06): the attributes of `Constraints` in declaration order, the expression each `*Constraint.validate`
returns, and the if / elif chain of `merge_constraints`, regenerated from the working tree, are interpreted and proved to be the model's
`numErrors` / `strErrors` / `dictErrors` / list-length rules and the option structure of `Constraints.merge`. -/
namespace Api

/-- `to_pascal_case(alias) + "Constraint"` -/
def consClass : String → String
  | "minimum" => "MinimumConstraint" | "maximum" => "MaximumConstraint" | "exclusiveMinimum" => "ExclusiveMinimumConstraint"
  | "exclusiveMaximum" => "ExclusiveMaximumConstraint" | "multipleOf" => "MultipleOfConstraint" | "minLength" => "MinLengthConstraint"
  | "maxLength" => "MaxLengthConstraint" | "pattern" => "PatternConstraint" | "minItems" => "MinItemsConstraint" | "maxItems" => "MaxItemsConstraint"
  | "uniqueItems" => "UniqueItemsConstraint" | "minProperties" => "MinPropertiesConstraint" | "maxProperties" => "MaxPropertiesConstraint"
  | s => s

/-- the expression `validate` returns, read on numbers: datum, bound -/
def cmpNum : String → Option (Num → Num → Bool)
  | "data >= self.minimum" => some (fun d m => m.le d)
  | "data <= self.maximum" => some (fun d m => d.le m)
  | "data > self.exc_min" => some (fun d m => m.lt d)
  | "data < self.exc_max" => some (fun d m => d.lt m)
  | "not data % self.mult_of" => some (fun d m => d.isMultipleOf m)
  | _ => Option.none

/-- ... on lengths: `len(data)`, bound -/
def cmpLen : String → Option (Nat → Nat → Bool)
  | "len(data) >= self.min_len" | "len(data) >= self.min_items" | "len(data) >= self.min_properties" => some (fun l n => n ≤ l)
  | "len(data) <= self.max_len" | "len(data) <= self.max_items" | "len(data) <= self.max_properties" => some (fun l n => l ≤ n)
  | _ => Option.none

def numBound (c : Constraints) : String → Option Num
  | "min" => c.min | "max" => c.max | "exc_min" => c.excMin | "exc_max" => c.excMax | "mult_of" => c.multOf | _ => Option.none
def numRule : String → Option (Num → Rule)
  | "minimum" => some .minimum | "maximum" => some .maximum | "exclusiveMinimum" => some .exclusiveMinimum
  | "exclusiveMaximum" => some .exclusiveMaximum | "multipleOf" => some .multipleOf | _ => Option.none
def lenBound (c : Constraints) : String → Option Nat
  | "min_len" => c.minLen | "max_len" => c.maxLen | "min_items" => c.minItems | "max_items" => c.maxItems
  | "min_props" => c.minProps | "max_props" => c.maxProps | _ => Option.none
def lenRule : String → Option (Nat → Rule)
  | "minLength" => some .minLength | "maxLength" => some .maxLength | "minItems" => some .minItems | "maxItems" => some .maxItems
  | "minProperties" => some .minProperties | "maxProperties" => some .maxProperties | _ => Option.none

def exprOf (validate : List (String × String × String)) (cls : String) : Option String :=
  (validate.find? (fun e => e.1 == cls)).map (fun e => e.2.2)

/-- the failing number rules, walking the declaration in order (`constraints_validators` + `validate_constraints`) -/
def numErrorsSrc (decl : List (String × String × String × String)) (validate : List (String × String × String)) (c : Constraints) (x : Num) :
    Option (List Rule) :=
  match decl with
  | [] => some []
  | (attr, alias, jcls, _) :: rest =>
      if jcls != "float" then numErrorsSrc rest validate c x
      else match (exprOf validate (consClass alias)).bind cmpNum, numRule alias, numErrorsSrc rest validate c x with
        | some ok, some r, some more => some (optRule (numBound c attr) (fun m => ok x m) r ++ more)
        | _, _, _ => Option.none

/-- the failing length rules of one JSON class (`str`, `list` without uniqueItems, `dict`) -/
def lenErrorsSrc (jc : String) (decl : List (String × String × String × String)) (validate : List (String × String × String)) (c : Constraints) (n : Nat) :
    Option (List Rule) :=
  match decl with
  | [] => some []
  | (attr, alias, jcls, _) :: rest =>
      if jcls != jc || alias == "pattern" || alias == "uniqueItems" then lenErrorsSrc jc rest validate c n
      else match (exprOf validate (consClass alias)).bind cmpLen, lenRule alias, lenErrorsSrc jc rest validate c n with
        | some ok, some r, some more => some (optRule (lenBound c attr) (fun m => ok n m) r ++ more)
        | _, _, _ => Option.none

/-- C01 / C02 / C06 (source tie): the number constraints as declared and as each `validate` is written are the model's `numErrors`, rule by
rule and in the same order (`>=` / `<=` / `>` / `<` on the boundary included) -/
theorem numErrors_matches_source (c : Constraints) (x : Num) :
    numErrorsSrc Generated.cons_decl Generated.cons_validate c x = some (c.numErrors x) := by
  simp [numErrorsSrc, Generated.cons_decl, Generated.cons_validate, exprOf, consClass, cmpNum, numRule, numBound, Constraints.numErrors, List.find?]

theorem strLenErrors_matches_source (c : Constraints) (s : String) :
    lenErrorsSrc "str" Generated.cons_decl Generated.cons_validate c s.length
      = some (optRule c.minLen (fun n => n ≤ s.length) .minLength ++ optRule c.maxLen (fun n => s.length ≤ n) .maxLength) := by
  simp [lenErrorsSrc, Generated.cons_decl, Generated.cons_validate, exprOf, consClass, cmpLen, lenRule, lenBound, List.find?]

theorem listLenErrors_matches_source (c : Constraints) (n : Nat) :
    lenErrorsSrc "list" Generated.cons_decl Generated.cons_validate c n
      = some (optRule c.minItems (fun m => m ≤ n) .minItems ++ optRule c.maxItems (fun m => n ≤ m) .maxItems) := by
  simp [lenErrorsSrc, Generated.cons_decl, Generated.cons_validate, exprOf, consClass, cmpLen, lenRule, lenBound, List.find?]

theorem dictErrors_matches_source (c : Constraints) (n : Nat) :
    lenErrorsSrc "dict" Generated.cons_decl Generated.cons_validate c n = some (c.dictErrors n) := by
  simp [lenErrorsSrc, Generated.cons_decl, Generated.cons_validate, exprOf, consClass, cmpLen, lenRule, lenBound, Constraints.dictErrors, List.find?]

/-- the chain of `merge_constraints` for one attribute: `attr1`, `attr2`, the merge function of the attribute -/
def mergeSrc {α} (chain : List (String × String)) (a b : Option α) (f : α → α → α) : Option (Option α) :=
  match chain with
  | [] => Option.none
  | (test, act) :: rest =>
      let t : Option Bool := match test with
        | "attr1 is None" => some a.isNone | "attr2 is None" => some b.isNone | "else" => some true | _ => Option.none
      match t with
      | Option.none => Option.none
      | some false => mergeSrc rest a b f
      | some true =>
          match act with
          | "constraints[name] = attr2" => some b
          | "constraints[name] = attr1" => some a
          | "constraints[name] = metadata.merge(attr1, attr2)" => (match a, b with | some x, some y => some (some (f x y)) | _, _ => Option.none)
          | _ => Option.none

/-- C01 / C06 (source tie): an attribute set on one side only is kept whatever its value (0 included); set on both sides, the declared merge
function decides -/
theorem mergeSrc_spec {α} (a b : Option α) (f : α → α → α) :
    mergeSrc Generated.cons_mergeChain a b f =
      some (match a, b with | Option.none, b => b | a, Option.none => a | some x, some y => some (f x y)) := by
  cases a <;> cases b <;> simp [mergeSrc, Generated.cons_mergeChain]

def maxNum (x y : Num) : Num := if x.le y then y else x
def minNum (x y : Num) : Num := if x.le y then x else y
def mergeFn : String → Option (Num → Num → Num)
  | "max_" => some maxNum | "min_" => some minNum | _ => Option.none
def declMerge (decl : List (String × String × String × String)) (attr : String) : Option String :=
  (decl.find? (fun e => e.1 == attr)).map (fun e => e.2.2.2)

/-- the model's merge of the four bounds is the chain with the declared merge functions (`min` / `exc_min` keep the larger, `max` / `exc_max`
the smaller) -/
theorem merge_bounds_match_source (a b : Constraints) :
    declMerge Generated.cons_decl "min" = some "max_" ∧ declMerge Generated.cons_decl "exc_min" = some "max_" ∧
    declMerge Generated.cons_decl "max" = some "min_" ∧ declMerge Generated.cons_decl "exc_max" = some "min_" ∧
    mergeSrc Generated.cons_mergeChain a.min b.min maxNum = some (a.merge b).min ∧
    mergeSrc Generated.cons_mergeChain a.excMin b.excMin maxNum = some (a.merge b).excMin ∧
    mergeSrc Generated.cons_mergeChain a.max b.max minNum = some (a.merge b).max ∧
    mergeSrc Generated.cons_mergeChain a.excMax b.excMax minNum = some (a.merge b).excMax := by
  refine ⟨by decide +kernel, by decide +kernel, by decide +kernel, by decide +kernel, ?_, ?_, ?_, ?_⟩ <;> rw [mergeSrc_spec] <;> simp only [Constraints.merge, minOpt]
  · cases a.min <;> cases b.min <;> simp [maxNum] <;> split <;> simp_all
  · cases a.excMin <;> cases b.excMin <;> simp [maxNum] <;> split <;> simp_all
  · cases a.max <;> cases b.max <;> simp [minNum] <;> split <;> simp_all
  · cases a.excMax <;> cases b.excMax <;> simp [minNum] <;> split <;> simp_all

/-- the parts taken as given -/
theorem constraints_pinned :
    Generated.cons_mergePre = "(name, attr1, metadata) in c1.attr_and_metata ; attr2 = getattr(c2, name)" ∧
    Generated.cons_skip = "attr is None or attr is False" ∧
    Generated.cons_lookup = "constraint_classes[to_pascal_case(metadata.alias) + 'Constraint']" ∧
    Generated.cons_append = "result[metadata.cls] = (*result[metadata.cls], constraint_cls(error, attr))" ∧
    Generated.cons_intCopy = "float in result => result[int] = result[float]" := by
  refine ⟨?_, ?_, ?_, ?_, ?_⟩ <;> decide +kernel

end Api
