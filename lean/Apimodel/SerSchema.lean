import Apimodel.SchemaThm
import Apimodel.RoundTripThm
/-!
# C07: serialized data validates against the serialization schema
-/
namespace Api

/-- `ObjectField.skippable(exclude_defaults, exclude_none)` (no skip metadata, no `Undefined`) -/
def skippable (so : SOpts) (f : FieldInfo) (t : Ty) : Bool :=
  (f.dflt.isSome && so.excludeDefaults) || (so.excludeNone && t.isOptionalUnion)

/-- `required` of a property in the serialization schema: a TypedDict key keeps its declared requiredness -/
def reqS (so : SOpts) (td : Bool) (f : FieldInfo) (t : Ty) : Bool :=
  -- (repair of row 42: a TypedDict key that can be skipped is not required either)
  (f.required || !td) && !skippable so f t

-- `SerializationSchemaBuilder.visit`: as `buildD`, with `required = not skippable`
mutual
def buildS (so : SOpts) (ap : Bool) : Ty → Sch
  | .null => .ofType .null | .bool => .ofType .boolean | .int => .ofType .integer
  | .float => .ofType .number | .str => .ofType .string
  | .any => .empty
  | .list t => .mk [.array] none [] {} (subKw (buildS so ap t)) none [] [] none [] [] none
  | .vtuple t => .mk [.array] none [] {} (subKw (buildS so ap t)) none [] [] none [] [] none
  | .set t => .mk [.array] none [] { unique := true } (subKw (buildS so ap t)) none [] [] none [] [] none
  | .frozenset t => .mk [.array] none [] { unique := true } (subKw (buildS so ap t)) none [] [] none [] [] none
  | .tuple ts => .mk [.array] none [] { minItems := some ts.length, maxItems := some ts.length }
      (some (.inl false)) (some (buildSL so ap ts)) [] [] none [] [] none
  | .mapping k v => mappingSchema (buildS so ap k) (buildS so ap v)
  | .union ts => unionSchema (buildSL so ap ts)
  | .literal vs => literalSchema vs
  | .enum _ ms => literalSchema (ms.map (·.2))
  | .newtype _ t => buildS so ap t
  | .ann c t => mergeInto c (buildS so ap t)
  | .obj ci fs => .mk [.object] none [] {} none none (buildSF so ap (ci.kind == .typedDict) fs)
      (requiredS so (ci.kind == .typedDict) fs) (apKw ap) [] [] none
termination_by structural t => t
def buildSL (so : SOpts) (ap : Bool) : List Ty → List Sch
  | [] => []
  | t :: ts => buildS so ap t :: buildSL so ap ts
termination_by structural ts => ts
def buildSF (so : SOpts) (ap : Bool) (td : Bool) : List (FieldInfo × Ty) → List (String × Sch)
  | [] => []
  | (f, t) :: fs => (f.alias, fieldSchema { f with required := reqS so td f t } t (buildS so ap t)) :: buildSF so ap td fs
termination_by structural fs => fs
def requiredS (so : SOpts) (td : Bool) : List (FieldInfo × Ty) → List String
  | [] => []
  | (f, t) :: fs => (if reqS so td f t then [f.alias] else []) ++ requiredS so td fs
termination_by structural fs => fs
end

def onSomeVal (o : Option Val) (k : Val → Bool) : Bool := match o with | some x => k x | Option.none => false
def onObjVal (v : Val) (k : String → Bool) : Bool := match v with | .obj c _ => k c | _ => false

mutual
/-- typed values, dataclass instances included -/
def HasTy : Ty → Val → Bool
  | .null, v => match v with | .null => true | _ => false
  | .bool, v => match v with | .bool _ => true | _ => false
  | .int, v => match v with | .int _ => true | _ => false
  | .float, v => match v with | .float _ => true | _ => false
  | .str, v => match v with | .str _ => true | _ => false
  | .list t, v => onListVal v (fun xs => xs.all (fun x => HasTy t x))
  | .vtuple t, v => onTupleVal v (fun xs => xs.all (fun x => HasTy t x))
  | .tuple ts, v => onTupleVal v (fun xs => hasTyZip ts xs)
  | .newtype _ t, v => HasTy t v
  | .obj ci fs, v => ci.kind == .dataclass && distinctStrs (aliasesOf fs) && onObjVal v (fun c => c == ci.name)
      && hasFields fs v
  | _, _ => false
termination_by structural t => t
def hasTyZip : List Ty → List Val → Bool
  | [], [] => true
  | t :: ts, x :: xs => HasTy t x && hasTyZip ts xs
  | _, _ => false
termination_by structural ts => ts
def hasFields : List (FieldInfo × Ty) → Val → Bool
  | [], _ => true
  | (f, t) :: fs, v => onSomeVal (v.field? f.name) (fun x => HasTy t x) && hasFields fs v
termination_by structural fs => fs
end

/-- an omitted field is a skippable one (so it is not `required` in the schema) -/
theorem omitted_skippable (so : SOpts) (f : FieldInfo) (t : Ty) (x : Val)
    (h : omitted so { name := f.name, alias := f.alias, required := f.required, dflt := f.dflt,
                      optional := t.isOptionalUnion } x = true) : skippable so f t = true := by
  unfold omitted at h
  unfold skippable
  cases hd : f.dflt <;> cases he : so.excludeDefaults <;> cases hn : so.excludeNone <;>
    cases ho : t.isOptionalUnion <;> simp_all

/-- serialized output validates -/
def SOK (so : SOpts) (ap : Bool) (t : Ty) : Prop :=
  ∀ v j, HasTy t v = true → ser so t v = .ok j → validates (buildS so ap t) j = true

theorem mapMO_all2 {f : Val → Outcome Py} : ∀ (vs : List Val) (js : List Py), mapMO f vs = .ok js →
    All2 (fun v j => f v = .ok j) vs js
  | [], js, h => by rw [mapMO] at h; cases h; exact .nil
  | v :: vs, js, h => by
    rw [mapMO] at h
    cases hv : f v with
    | ok j =>
      rw [hv] at h; simp only [bindO] at h
      cases hr : mapMO f vs with
      | ok js' =>
        rw [hr] at h; simp only [bindO] at h; cases h
        exact .cons hv (mapMO_all2 vs js' hr)
      | invalid e => rw [hr] at h; cases h
      | crash c => rw [hr] at h; cases h
    | invalid e => rw [hv] at h; cases h
    | crash c => rw [hv] at h; cases h

theorem all_of_all2 {t : Ty} {so ap} (ih : SOK so ap t) : ∀ {vs : List Val} {js : List Py},
    All2 (fun v j => ser so t v = .ok j) vs js → (∀ v ∈ vs, HasTy t v = true) →
    js.all (fun x => validates (buildS so ap t) x) = true
  | _, _, .nil, _ => rfl
  | _, _, .cons h rest, hv => by
    rw [List.all_cons, ih _ _ (hv _ (List.mem_cons_self ..)) h,
      all_of_all2 ih rest (fun v hm => hv v (List.mem_cons_of_mem _ hm))]; rfl

theorem alias_mem : ∀ {fs : List (FieldInfo × Ty)} {r : FieldInfo × Ty}, r ∈ fs → r.1.alias ∈ aliasesOf fs
  | [], _, h => by cases h
  | (f, t) :: fs, r, h => by
    rw [aliasesOf]
    rcases List.mem_cons.1 h with rfl | h'
    · exact List.mem_cons_self ..
    · exact List.mem_cons_of_mem _ (alias_mem h')

theorem alias_unique : ∀ {fs : List (FieldInfo × Ty)}, (aliasesOf fs).Nodup → ∀ p ∈ fs, ∀ q ∈ fs,
    p.1.alias = q.1.alias → p = q
  | [], _, p, hp, _, _, _ => by cases hp
  | (f, t) :: fs, hn, p, hp, q, hq, he => by
    rw [aliasesOf, List.nodup_cons] at hn
    rcases List.mem_cons.1 hp with rfl | hp' <;> rcases List.mem_cons.1 hq with rfl | hq'
    · rfl
    · exact absurd (he ▸ alias_mem hq') hn.1
    · exact absurd (he ▸ alias_mem hp') hn.1
    · exact alias_unique hn.2 p hp' q hq' he

theorem serFields_props {so : SOpts} {ap : Bool} {v : Val} : ∀ (fs : List (FieldInfo × Ty)) (js : List (String × Py)),
    (∀ p ∈ fs, SOK so ap p.2) → hasFields fs v = true → serFields so false fs v = .ok js →
    (∀ kv ∈ js, ∃ p ∈ fs, kv.1 = p.1.alias ∧ validates (buildS so ap p.2) kv.2 = true) ∧
    (∀ p ∈ fs, skippable so p.1 p.2 = false → ∃ j, (p.1.alias, j) ∈ js)
  | [], js, _, _, hs => by
    rw [serFields] at hs; cases hs
    exact ⟨fun kv h => (by cases h), fun p h _ => (by cases h)⟩
  | (f, t) :: fs, js, hih, ht, hs => by
    rw [hasFields, Bool.and_eq_true] at ht
    rw [serFields] at hs
    simp only [Bool.false_eq_true, if_false] at hs
    cases hx : v.field? f.name with
    | none => rw [hx] at ht; simp [onSomeVal] at ht
    | some x =>
      rw [hx] at ht hs
      simp only [onSomeVal] at ht
      unfold serFieldStep at hs
      simp only [Bool.false_eq_true, if_false, Bool.false_and] at hs
      have ihfs := fun js' h => serFields_props fs js' (fun p hp => hih p (List.mem_cons_of_mem _ hp)) ht.2 h
      split at hs
      · next hom =>
        obtain ⟨hA, hB⟩ := ihfs js hs
        refine ⟨fun kv hkv => ?_, fun p hp hsk => ?_⟩
        · obtain ⟨q, hq, h1, h2⟩ := hA kv hkv; exact ⟨q, List.mem_cons_of_mem _ hq, h1, h2⟩
        · rcases List.mem_cons.1 hp with rfl | hp'
          · have := omitted_skippable so f t x hom
            simp only at hsk; rw [this] at hsk; cases hsk
          · exact hB p hp' hsk
      · cases hj : ser so t x with
        | invalid e => rw [hj] at hs; cases hs
        | crash c => rw [hj] at hs; cases hs
        | ok j =>
          rw [hj] at hs; simp only [bindO] at hs
          cases hr : serFields so false fs v with
          | invalid e => rw [hr] at hs; cases hs
          | crash c => rw [hr] at hs; cases hs
          | ok js' =>
            rw [hr] at hs; simp only [bindO] at hs; cases hs
            obtain ⟨hA, hB⟩ := ihfs js' hr
            refine ⟨fun kv hkv => ?_, fun p hp hsk => ?_⟩
            · rcases List.mem_cons.1 hkv with rfl | hkv'
              · exact ⟨(f, t), List.mem_cons_self .., rfl, hih (f, t) (List.mem_cons_self ..) x j ht.1 hj⟩
              · obtain ⟨q, hq, h1, h2⟩ := hA kv hkv'; exact ⟨q, List.mem_cons_of_mem _ hq, h1, h2⟩
            · rcases List.mem_cons.1 hp with rfl | hp'
              · exact ⟨j, List.mem_cons_self ..⟩
              · obtain ⟨j', hj'⟩ := hB p hp' hsk; exact ⟨j', List.mem_cons_of_mem _ hj'⟩

theorem lookupKey_of_mem {kvs : List (String × Py)} {k : String} {j : Py} (h : (k, j) ∈ kvs) :
    (lookupKey kvs k).isSome = true := by
  unfold lookupKey
  cases hf : kvs.find? (fun kv => kv.1 == k) with
  | some kv => rfl
  | none =>
    have := List.find?_eq_none.1 hf (k, j) h
    simp at this

theorem lookupKey_mem' {kvs : List (String × Py)} {k : String} {x : Py} (h : lookupKey kvs k = some x) :
    (k, x) ∈ kvs := by
  unfold lookupKey at h
  cases hf : kvs.find? (fun kv => kv.1 == k) with
  | none => rw [hf] at h; cases h
  | some kv =>
    rw [hf] at h
    have hm := List.mem_of_find?_eq_some hf
    have hk := List.find?_some hf
    simp at h hk
    obtain ⟨a, b⟩ := kv
    simp at h hk; subst h; subst hk; exact hm

theorem propNames_buildSF (so : SOpts) (ap td : Bool) : ∀ fs, propNames (buildSF so ap td fs) = aliasesOf fs
  | [] => by rw [buildSF, propNames, aliasesOf]
  | (f, t) :: fs => by rw [buildSF, propNames, aliasesOf, propNames_buildSF so ap td fs]

theorem vProps_buildSF {so : SOpts} {ap td : Bool} {js : List (String × Py)} {all : List (FieldInfo × Ty)}
    (hn : (aliasesOf all).Nodup)
    (hA : ∀ kv ∈ js, ∃ p ∈ all, kv.1 = p.1.alias ∧ validates (buildS so ap p.2) kv.2 = true) :
    ∀ (fs : List (FieldInfo × Ty)), (∀ p ∈ fs, p ∈ all) → vProps (buildSF so ap td fs) js = true
  | [], _ => by rw [buildSF, vProps]
  | (f, t) :: fs, hsub => by
    rw [buildSF, vProps, vProps_buildSF hn hA fs (fun p hp => hsub p (List.mem_cons_of_mem _ hp)), Bool.and_true]
    cases hl : lookupKey js f.alias with
    | none => rfl
    | some x =>
      simp only [propOk, validates_fieldSchema]
      obtain ⟨q, hq, h1, h2⟩ := hA (f.alias, x) (lookupKey_mem' hl)
      have := alias_unique hn (f, t) (hsub _ (List.mem_cons_self ..)) q hq h1
      rw [← this] at h2; exact h2

theorem required_present {so : SOpts} {js : List (String × Py)} : ∀ (fs : List (FieldInfo × Ty)),
    (∀ p ∈ fs, skippable so p.1 p.2 = false → ∃ j, (p.1.alias, j) ∈ js) →
    (requiredS so false fs).all (fun r => (lookupKey js r).isSome) = true
  | [], _ => by rw [requiredS]; rfl
  | (f, t) :: fs, h => by
    rw [requiredS, List.all_append, required_present fs (fun p hp => h p (List.mem_cons_of_mem _ hp)), Bool.and_true]
    cases hs : skippable so f t
    · obtain ⟨j, hj⟩ := h (f, t) (List.mem_cons_self ..) hs
      simp [reqS, hs, lookupKey_of_mem hj]
    · simp [reqS, hs]

/-- **C07, fragment with dataclass objects.** Whatever `serialize` emits for a typed value validates
    against the serialization schema built with the same `exclude_none` / `exclude_defaults` — every
    nesting of lists, tuples, NewTypes and dataclasses (aliases, defaults, optional fields). -/
theorem serialized_validates (so : SOpts) (ap : Bool) :
    (∀ t, SOK so ap t) ∧
    (∀ (_ : Bool) (fs : List (FieldInfo × Ty)), ∀ p ∈ fs, SOK so ap p.2) ∧
    (∀ ts : List Ty, ∀ vs js, hasTyZip ts vs = true → serTuple so ts vs = .ok js →
        vZip (buildSL so ap ts) js = true ∧ js.length = ts.length) := by
  apply buildS.mutual_induct
  · intro v j hv hs; cases v <;> simp [HasTy] at hv
    rw [ser] at hs; cases hs; rw [buildS]; simp [Sch.ofType, validates_leaf, rawPy, typeMatches, consOk_empty]
  · intro v j hv hs; cases v <;> simp [HasTy] at hv
    rw [ser] at hs; cases hs; rw [buildS]; simp [Sch.ofType, validates_leaf, rawPy, typeMatches, consOk_empty]
  · intro v j hv hs; cases v <;> simp [HasTy] at hv
    rw [ser] at hs; cases hs; rw [buildS]; simp [Sch.ofType, validates_leaf, rawPy, typeMatches, consOk_empty]
  · intro v j hv hs; cases v <;> simp [HasTy] at hv
    rw [ser] at hs; cases hs; rw [buildS]; simp [Sch.ofType, validates_leaf, rawPy, typeMatches, consOk_empty]
  · intro v j hv hs; cases v <;> simp [HasTy] at hv
    rw [ser] at hs; cases hs; rw [buildS]; simp [Sch.ofType, validates_leaf, rawPy, typeMatches, consOk_empty]
  · intro v j hv; simp [HasTy] at hv
  · -- list
    intro t ih v j hv hs
    cases v <;> try (simp [HasTy, onListVal] at hv; done)
    case list vs =>
      simp only [HasTy, onListVal, List.all_eq_true] at hv
      rw [ser] at hs
      simp only [serColl, Val.items?] at hs
      cases hm : mapMO (fun x => ser so t x) vs with
      | invalid e => rw [hm] at hs; cases hs
      | crash c => rw [hm] at hs; cases hs
      | ok js =>
        rw [hm] at hs; simp only [bindO] at hs; cases hs
        rw [buildS, validates_array']
        simp only [consOk_empty, Bool.true_and]
        exact all_of_all2 ih (mapMO_all2 vs js hm) hv
  · -- vtuple
    intro t ih v j hv hs
    cases v <;> try (simp [HasTy, onTupleVal] at hv; done)
    case tuple vs =>
      simp only [HasTy, onTupleVal, List.all_eq_true] at hv
      rw [ser] at hs
      simp only [serColl, Val.items?] at hs
      cases hm : mapMO (fun x => ser so t x) vs with
      | invalid e => rw [hm] at hs; cases hs
      | crash c => rw [hm] at hs; cases hs
      | ok js =>
        rw [hm] at hs; simp only [bindO] at hs; cases hs
        rw [buildS, validates_array']
        simp only [consOk_empty, Bool.true_and]
        exact all_of_all2 ih (mapMO_all2 vs js hm) hv
  · intro t _ v j hv; simp [HasTy] at hv
  · intro t _ v j hv; simp [HasTy] at hv
  · -- tuple
    intro ts ih v j hv hs
    cases v <;> try (simp [HasTy, onTupleVal] at hv; done)
    case tuple vs =>
      simp only [HasTy, onTupleVal] at hv
      rw [ser] at hs
      simp only [serTupleV, Val.items?] at hs
      cases hm : serTuple so ts vs with
      | invalid e => rw [hm] at hs; cases hs
      | crash c => rw [hm] at hs; cases hs
      | ok js =>
        rw [hm] at hs; simp only [bindO] at hs; cases hs
        obtain ⟨hz, hl⟩ := ih vs js hv hm
        rw [buildS, validates_tuple]
        have hlen : (buildSL so ap ts).length = ts.length := by
          clear hz hl hm hv ih
          induction ts with
          | nil => rw [buildSL]; rfl
          | cons t ts iht => rw [buildSL, List.length_cons, List.length_cons, iht]
        simp only [hz, Bool.and_true, hlen, drop_isEmpty, hl, Nat.le_refl, decide_true]
        simp [consOk, Py.num?, hl]
  · intro k v' _ _ v j hv; simp [HasTy] at hv
  · intro ts _ v j hv; simp [HasTy] at hv
  · intro vs v j hv; simp [HasTy] at hv
  · intro c ms v j hv; simp [HasTy] at hv
  · intro n t ih v j hv hs
    simp only [HasTy] at hv; rw [ser] at hs; rw [buildS]; exact ih v j hv hs
  · intro c t _ v j hv; simp [HasTy] at hv
  · -- dataclass
    intro ci fs ih v j hv hs
    simp only [HasTy, Bool.and_eq_true] at hv
    obtain ⟨⟨⟨hk, hdist⟩, hcls⟩, hf⟩ := hv
    have hkind : (ci.kind == ObjKind.typedDict) = false := by
      cases hck : ci.kind <;> simp_all
    rw [ser] at hs
    simp only [serObj, hkind, Bool.false_and, Bool.false_eq_true, if_false] at hs
    cases hm : serFields so false fs v with
    | invalid e => rw [hm] at hs; cases hs
    | crash c => rw [hm] at hs; cases hs
    | ok js =>
      rw [hm] at hs; simp only [bindO] at hs; cases hs
      obtain ⟨hA, hB⟩ := serFields_props fs js ih hf hm
      have hn := nodup_of_distinctStrs hdist
      rw [buildS, validates_object', hkind]
      simp only [consOk_empty, Bool.true_and, vProps_buildSF hn hA fs (fun p hp => hp), required_present fs hB,
        propNames_buildSF, Bool.and_true]
      cases ap
      · simp only [Bool.false_or, List.all_eq_true]
        intro kv hkv
        obtain ⟨p, hp, h1, _⟩ := hA kv hkv
        rw [h1]; simpa using alias_mem hp
      · rfl
  · intro vs js hv hs
    cases vs <;> simp [hasTyZip] at hv
    rw [serTuple] at hs; cases hs
    exact ⟨by rw [buildSL]; rfl, rfl⟩
  · intro t ts iht ihts vs js hv hs
    cases vs with
    | nil => simp [hasTyZip] at hv
    | cons x xs =>
      rw [hasTyZip, Bool.and_eq_true] at hv
      rw [serTuple] at hs
      cases hj : ser so t x with
      | invalid e => rw [hj] at hs; cases hs
      | crash c => rw [hj] at hs; cases hs
      | ok j =>
        rw [hj] at hs; simp only [bindO] at hs
        cases hr : serTuple so ts xs with
        | invalid e => rw [hr] at hs; cases hs
        | crash c => rw [hr] at hs; cases hs
        | ok js' =>
          rw [hr] at hs; simp only [bindO] at hs; cases hs
          obtain ⟨hz, hl⟩ := ihts xs js' hv.2 hr
          exact ⟨by rw [buildSL, vZip, iht x j hv.1 hj, hz]; rfl, by simp [hl]⟩
  · intro _ p hp; cases hp
  · intro _ f t fs iht ihfs p hp
    rcases List.mem_cons.1 hp with rfl | hp'
    · exact iht
    · exact ihfs p hp'

theorem C07_serialized_validates (so : SOpts) (ap : Bool) (t : Ty) (v : Val) (j : Py)
    (hv : HasTy t v = true) (hs : ser so t v = .ok j) : validates (buildS so ap t) j = true :=
  (serialized_validates so ap).1 t v j hv hs

def exCls : Ty :=
  .obj { name := "A" } [({ name := "a", alias := "a", required := true }, .int),
                        ({ name := "b", alias := "bb", required := false, dflt := some (.lit .null) }, .union [.str, .null])]

example : HasTy (.list (.obj { name := "P" } [({ name := "x", alias := "x", required := true }, .tuple [.int, .str])]))
    (.list [.obj "P" [("x", .tuple [.int 1, .str "s"])]]) = true := by decide +kernel

/-- why the statement says "the same settings": the schema is built from the *global* settings while
    `serialize` also takes per-call options; with `exclude_defaults=True` passed to the call only, a key the
    schema requires is omitted (outside C07 as stated; replayed on the real code) -/
theorem C07_options_mismatch_counterexample :
    (match ser { excludeDefaults := true } (.obj { name := "A" }
            [({ name := "a", alias := "a", required := false, dflt := some (.lit (.int 0)) }, .int)])
          (.obj "A" [("a", .int 0)]) with
     | .ok (.dict kvs) => kvs.map (·.1)
     | _ => ["?"]) = []
    ∧ validates (buildS {} false (.obj { name := "A" }
            [({ name := "a", alias := "a", required := false, dflt := some (.lit (.int 0)) }, .int)])) (.dict []) = false := by
  decide +kernel

/-! ### C04: which keys are emitted, and in which order -/

/-- the keys the data model prescribes: the alias of every field that is not omitted, in field order -/
def expectedKeys (so : SOpts) : List (FieldInfo × Ty) → Val → List String
  | [], _ => []
  | (f, t) :: fs, v =>
    (match v.field? f.name with
     | some x => if omitted so { name := f.name, alias := f.alias, required := f.required, dflt := f.dflt,
                                 optional := t.isOptionalUnion } x then [] else [f.alias]
     | Option.none => []) ++ expectedKeys so fs v

/-- **C04 (emitted keys).** For a dataclass instance, a key is emitted iff its field is not omitted by the
    `exclude_none` / `exclude_defaults` rules, and the keys come in field order. -/
theorem C04_keys (so : SOpts) : ∀ (fs : List (FieldInfo × Ty)) (v : Val) (js : List (String × Py)),
    hasFields fs v = true → serFields so false fs v = .ok js → js.map (·.1) = expectedKeys so fs v
  | [], v, js, _, hs => by rw [serFields] at hs; cases hs; rfl
  | (f, t) :: fs, v, js, ht, hs => by
    rw [hasFields, Bool.and_eq_true] at ht
    rw [serFields] at hs
    simp only [Bool.false_eq_true, if_false] at hs
    rw [expectedKeys]
    cases hx : v.field? f.name with
    | none => rw [hx] at ht; simp [onSomeVal] at ht
    | some x =>
      rw [hx] at hs
      unfold serFieldStep at hs
      simp only [Bool.false_eq_true, if_false, Bool.false_and] at hs
      split at hs
      · next hom => simp only [hom, if_true, List.nil_append]; exact C04_keys so fs v js ht.2 hs
      · next hom =>
        cases hj : ser so t x with
        | invalid e => rw [hj] at hs; cases hs
        | crash c => rw [hj] at hs; cases hs
        | ok j =>
          rw [hj] at hs; simp only [bindO] at hs
          cases hr : serFields so false fs v with
          | invalid e => rw [hr] at hs; cases hs
          | crash c => rw [hr] at hs; cases hs
          | ok js' =>
            rw [hr] at hs; simp only [bindO] at hs; cases hs
            simp only [hom, List.map_cons, C04_keys so fs v js' ht.2 hr]
            simp

end Api
