import Apimodel.Versions
/-!
# C18: the older-dialect rewrite accepts exactly the same instances
-/
namespace Api

theorem v07_mk (ty const enum cons one arr addi kept props req addl pats anyOf dflt) (d : Py) :
    v07 (.mk ty const enum cons one arr addi kept props req addl pats anyOf dflt) d =
    ((ty.isEmpty || ty.any (typeMatches d)) &&
    (match const with | Option.none => true | some l => jsonEqLit d l) &&
    (enum.isEmpty || enum.any (jsonEqLit d)) &&
    consOk cons d &&
    onListB d (fun xs => v07One one xs && v07Arr arr xs && v07Addi arr addi (xs.drop (arrLen arr))) &&
    onDictB d (fun kvs =>
      v07Props props kvs && req.all (fun r => (lookupKey kvs r).isSome) &&
      v07Pats pats kvs &&
      v07Addl addl (kvs.filter (fun kv => !(propNames07 props).contains kv.1 && !(patList07 pats).any (fun p => p.isMatch kv.1)))) &&
    v07AnyO anyOf d) := by
  first | rfl | (unfold v07; rfl)

theorem validates_mk (ty const enum cons items pre props req addl pats anyOf dflt) (d : Py) :
    validates (.mk ty const enum cons items pre props req addl pats anyOf dflt) d =
    ((ty.isEmpty || ty.any (typeMatches d)) &&
    (match const with | Option.none => true | some l => jsonEqLit d l) &&
    (enum.isEmpty || enum.any (jsonEqLit d)) &&
    consOk cons d &&
    onListB d (fun xs => vPre pre xs && vItems items (xs.drop (preLen pre))) &&
    onDictB d (fun kvs =>
      vProps props kvs && req.all (fun r => (lookupKey kvs r).isSome) &&
      vPats pats kvs &&
      vAddl addl (kvs.filter (fun kv => !(propNames props).contains kv.1 && !(patList pats).any (fun p => p.isMatch kv.1)))) &&
    vAnyO anyOf d) := by
  first | rfl | (unfold validates; rfl)

/-- `to07` preserves validity, on every schema over the emitted keywords (any nesting) -/
theorem to07_preserves (q : VQuirks) :
    (∀ s : Sch, ∀ d, v07 (to07 q s) d = validates s d) ∧
    (∀ l : List Sch, (∀ xs, v07Zip (to07L q l) xs = vZip l xs) ∧ (∀ d, v07Any (to07L q l) d = vAny l d) ∧
        (∀ d, v07AnyO (to07L q l) d = vAnyO l d) ∧ (to07L q l).length = l.length) ∧
    (∀ ps : List (Pat × Sch), (∀ kvs, v07Pats (to07Pat q ps) kvs = vPats ps kvs) ∧
        patList07 (to07Pat q ps) = patList ps) ∧
    (∀ ps : List (String × Sch), (∀ kvs, v07Props (to07P q ps) kvs = vProps ps kvs) ∧
        propNames07 (to07P q ps) = propNames ps) ∧
    (∀ o : Option (Bool ⊕ Sch), (∀ xs, v07One (to07I q o) xs = vItems o xs) ∧
        (∀ rest, v07Addl (to07I q o) rest = vAddl o rest) ∧
        (∀ arr rest, arr.isSome = true → v07Addi arr (to07I q o) rest = vItems o rest)) ∧
    (∀ o : Option (List Sch), (∀ xs, v07Arr (to07Pre q o) xs = vPre o xs) ∧ arrLen (to07Pre q o) = preLen o ∧
        ((to07Pre q o).isSome = o.isSome)) := by
  apply to07.mutual_induct
  · -- node
    intro ty const enum cons items pre props req addl pats anyOf dflt hpre hitems hprops haddl hpats hany d
    rw [to07, v07_mk, validates_mk, hany.2.2.1 d]
    congr 1
    congr 1
    · congr 1
      cases d <;> simp only [onListB]
      case list xs =>
        cases pre with
        | none =>
          rw [to07Pre]
          simp only [selItemsOne, selAdditional, v07Arr, v07Addi, vPre, Bool.and_true, Bool.true_and, preLen,
            List.drop_zero]
          exact hitems.1 xs
        | some l =>
          have hl := hpre.1 xs; have hlen := hpre.2.1
          rw [to07Pre] at hl hlen ⊢
          simp only [selItemsOne, selAdditional, v07One, Bool.true_and]
          rw [hl, hlen, hitems.2.2 _ _ rfl]
    · cases d <;> simp only [onDictB]
      case dict kvs =>
        rw [hprops.1 kvs, hprops.2, hpats.1 kvs, hpats.2, haddl.2.1]
  · exact ⟨fun xs => by rw [to07I, v07One, vItems], fun r => by rw [to07I, v07Addl, vAddl],
      fun arr r _ => by rw [to07I, v07Addi, vItems]⟩
  · intro b
    refine ⟨fun xs => by rw [to07I, v07One, vItems], fun r => by rw [to07I, v07Addl, vAddl], fun arr r ha => ?_⟩
    rw [to07I, v07Addi, vItems]; cases arr <;> simp at ha ⊢
  · intro s ih
    refine ⟨fun xs => ?_, fun r => ?_, fun arr r ha => ?_⟩
    · rw [to07I, v07One, vItems]; congr 1; funext x; exact ih x
    · rw [to07I, v07Addl, vAddl]; congr 1; funext kv; exact ih kv.2
    · rw [to07I, v07Addi, vItems]
      cases arr <;> simp at ha ⊢
      congr 1; funext x; exact ih x
  · exact ⟨fun xs => by rw [to07Pre, v07Arr, vPre], by rw [to07Pre]; rfl, by rw [to07Pre]; rfl⟩
  · intro l ih
    exact ⟨fun xs => by rw [to07Pre, v07Arr, vPre]; exact ih.1 xs, by rw [to07Pre]; exact ih.2.2.2, by rw [to07Pre]; rfl⟩
  · exact ⟨fun kvs => by rw [to07P, v07Props, vProps], by rw [to07P, propNames07, propNames]⟩
  · intro k s ps ihs ihps
    refine ⟨fun kvs => ?_, by rw [to07P, propNames07, propNames, ihps.2]⟩
    rw [to07P, v07Props, vProps, ihps.1 kvs]
    congr 2; funext x; exact ihs x
  · exact ⟨fun kvs => by rw [to07Pat, v07Pats, vPats], by rw [to07Pat, patList07, patList]⟩
  · intro p s ps ihs ihps
    refine ⟨fun kvs => ?_, by rw [to07Pat, patList07, patList, ihps.2]⟩
    rw [to07Pat, v07Pats, vPats, ihps.1 kvs]
    congr 2; funext kv; exact ihs kv.2
  · refine ⟨fun xs => ?_, fun d => by rw [to07L, v07Any, vAny], fun d => by rw [to07L, v07AnyO, vAnyO], by rw [to07L]; rfl⟩
    rw [to07L]; cases xs <;> simp [v07Zip, vZip]
  · intro s ss ihs ihss
    refine ⟨fun xs => ?_, fun d => ?_, fun d => ?_, ?_⟩
    · rw [to07L]
      cases xs with
      | nil => simp [v07Zip, vZip]
      | cons x xs => rw [v07Zip, vZip, ihs x, ihss.1 xs]
    · rw [to07L, v07Any, vAny, ihs d, ihss.2.1 d]
    · rw [to07L, v07AnyO, vAnyO, ihs d, ihss.2.1 d]
    · rw [to07L, List.length_cons, List.length_cons, ihss.2.2.2]

/-- **C18 (2019-09 / draft-07 rewrite of the array keywords).** For every schema over the emitted keywords
    and every JSON datum, the rewritten schema under the older dialect's semantics validates the datum iff
    the original does under 2020-12 — with or without the stale `prefixItems` keyword. -/
theorem C18_to07_preserves (q : VQuirks) (s : Sch) (d : Py) : v07 (to07 q s) d = validates s d :=
  (to07_preserves q).1 s d

/-- … and for every generated deserialization schema in particular -/
theorem C18_buildD (q : VQuirks) (ap : Bool) (t : Ty) (d : Py) :
    v07 (to07 q (buildD ap t)) d = validates (buildD ap t) d := C18_to07_preserves q _ d

/-- **C18 (vocabulary).** Since the repair of row 18 (`prefixItems` is moved, not copied) the 2019-09 / draft-07
    output contains no `prefixItems` at any nesting level — for every schema over the emitted keywords. -/
theorem to07_clean :
    (∀ s : Sch, (to07 { keepsPrefixItems := false } s).clean = true) ∧
    (∀ l : List Sch, cleanL (to07L { keepsPrefixItems := false } l) = true) ∧
    (∀ l : List (Pat × Sch), cleanPat (to07Pat { keepsPrefixItems := false } l) = true) ∧
    (∀ l : List (String × Sch), cleanP (to07P { keepsPrefixItems := false } l) = true) ∧
    (∀ o : Option (Bool ⊕ Sch), cleanI (to07I { keepsPrefixItems := false } o) = true) ∧
    (∀ o : Option (List Sch), cleanO (to07Pre { keepsPrefixItems := false } o) = true) := by
  apply to07.mutual_induct
  · intro ty const enum cons items pre props req addl pats anyOf dflt hpre hitems hprops haddl hpats hany
    rw [to07, S07.clean]
    have hsel1 : cleanI (selItemsOne (to07Pre { keepsPrefixItems := false } pre) (to07I { keepsPrefixItems := false } items)) = true := by
      unfold selItemsOne; split
      · rfl
      · exact hitems
    have hsel2 : cleanI (selAdditional (to07Pre { keepsPrefixItems := false } pre) (to07I { keepsPrefixItems := false } items)) = true := by
      unfold selAdditional; split
      · exact hitems
      · rfl
    have hk : (selKept { keepsPrefixItems := false } (to07Pre { keepsPrefixItems := false } pre)).isNone = true := by
      simp [selKept]
    rw [hk, hsel1, hsel2, hpre, hprops, haddl, hpats, hany]; rfl
  · rw [to07I, cleanI]
  · intro b; rw [to07I, cleanI]
  · intro s ih; rw [to07I, cleanI]; exact ih
  · rw [to07Pre, cleanO]
  · intro l ih; rw [to07Pre, cleanO]; exact ih
  · rw [to07P, cleanP]
  · intro k s ps ihs ihps; rw [to07P, cleanP, ihs, ihps]; rfl
  · rw [to07Pat, cleanPat]
  · intro p s ps ihs ihps; rw [to07Pat, cleanPat, ihs, ihps]; rfl
  · rw [to07L, cleanL]
  · intro s ss ihs ihss; rw [to07L, cleanL, ihs, ihss]; rfl

theorem C18_vocabulary (s : Sch) : (to07 { keepsPrefixItems := false } s).clean = true := to07_clean.1 s

/-- on the pinned tree the clause failed: `prefixItems` survived in the 2019-09 / draft-07 output (row 18) -/
theorem C18_vocabulary_counterexample :
    (to07 { keepsPrefixItems := true } (buildD false (.tuple [.int]))).foreignKeywords = true
    ∧ (to07 { keepsPrefixItems := true } (buildD false (.list (.tuple [.int])))).clean = false
    ∧ (to07 { keepsPrefixItems := false } (buildD false (.tuple [.int]))).foreignKeywords = false := by
  decide +kernel

end Api
