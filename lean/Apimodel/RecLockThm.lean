import Apimodel.Rec
import Apimodel.Generated.RecLock
/-! Source tie of the lock of the recursion analysis (C20).  The model `runLocked` (and `C20_mutex`, `lockInv_run`) describes an analysis whose every
step - reads and writes of the shared cache included - happens while one lock, the same for every thread and every analysed type, is held.
`Generated/RecLock.lean` says how `is_recursive` is protected in the working tree; the theorem below is the hypothesis of the model: the whole body
of the function is one `with` block on a name bound exactly once, at import time, to a re-entrant lock. -/
namespace Api.Rec

theorem lock_is_global :
    Generated.rec_wholeBodyUnderLock = true ∧ Generated.rec_lockExpr = "_lock" ∧ Generated.rec_lockDef = "RLock()" ∧ Generated.rec_lockAssignments = 1 ∧
    Generated.rec_decorators = ["cache"] ∧
    Generated.rec_underLock = "cache, rec_key = (recursion_cache(checker_cls, default_conversion), (tp, conversion))\nif rec_key not in cache:\n    checker_cls(default_conversion).visit_with_conv(tp, conversion)\nreturn cache[rec_key]" := by
  refine ⟨rfl, ?_, ?_, rfl, ?_, ?_⟩ <;> decide +kernel

/-- The memo of the analysis is one dictionary per (checker class, default conversion): what a type reaches - and so whether it is recursive -
depends on the default conversion, so an answer recorded under one default conversion is never read under another (the model's cache belongs to
one analysis context: `Api.Rec` quantifies over one graph).  Every call of `recursion_cache` in the module passes the default conversion of the
analysis it belongs to. -/
theorem memo_keyed_by_default_conversion :
    Generated.rec_memoParams = ["checker_cls", "default_conversion"] ∧ Generated.rec_memoDecorators = ["cache"] ∧
    Generated.rec_memoCalls = ["recursion_cache(checker_cls, default_conversion)", "recursion_cache(self.__class__, default_conversion)"] ∧
    Generated.rec_checkerInitParams = ["self", "default_conversion"] := by
  refine ⟨?_, ?_, ?_, ?_⟩ <;> decide +kernel

end Api.Rec
