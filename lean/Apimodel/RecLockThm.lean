import Apimodel.Rec
import Apimodel.Generated.RecLock
/-! Source tie of the lock of the recursion analysis (C20).  The model `runLocked` (and `C20_mutex`, `lockInv_run`) describes an analysis whose every
step - reads and writes of the shared cache included - happens while one lock, the same for every thread and every analysed type, is held.
`Generated/RecLock.lean` says how `is_recursive` is protected in the working tree; the theorem below is the hypothesis of the model: the whole body
of the function is one `with` block on a name bound exactly once, at import time, to a re-entrant lock. -/
namespace Api.Rec

theorem lock_is_global :
    Generated.rec_wholeBodyUnderLock = true ∧ Generated.rec_lockExpr = "_lock" ∧ Generated.rec_lockDef = "RLock()" ∧ Generated.rec_lockAssignments = 1 ∧
    Generated.rec_decorators = ["cache"] ∧
    Generated.rec_underLock = "cache, rec_key = (recursion_cache(checker_cls, default_conversion), (tp, conversion))\nif rec_key not in cache:\n    checker_cls(default_conversion).visit_with_conv(tp, conversion)\nreturn cache[rec_key]" := by
  refine ⟨rfl, ?_, ?_, rfl, ?_, ?_⟩ <;> decide +kernel

/-- The memo of the analysis is one dictionary per (checker class, default conversion): what a type reaches - and so whether it is recursive -
depends on the default conversion, so an answer recorded under one default conversion is never read under another (the model's cache belongs to
one analysis context: `Api.Rec` quantifies over one graph).  Every call of `recursion_cache` in the module passes the default conversion of the
analysis it belongs to. -/
theorem memo_keyed_by_default_conversion :
    Generated.rec_memoParams = ["checker_cls", "default_conversion"] ∧ Generated.rec_memoDecorators = ["cache"] ∧
    Generated.rec_memoCalls = ["recursion_cache(checker_cls, default_conversion)", "recursion_cache(self.__class__, default_conversion)"] ∧
    Generated.rec_checkerInitParams = ["self", "default_conversion"] := by
  refine ⟨?_, ?_, ?_, ?_⟩ <;> decide +kernel

/-- The body of `RecursiveChecker.visit` as `Api.Rec.enter` / `exitFix` read it: a memo hit passes; a key of the guard records the guard from that
key on (`_recursive`, `_all_recursive`); otherwise the key is pushed, its children visited, and on return (row 96) a head hands its keys to an outer
key of the guard that has recorded it — or writes them `True` when there is none — and a key outside every recorded cycle is written `False`. -/
theorem visit_pinned :
    Generated.rec_visitChain = [
      ("first", "rec_key = (tp, self._conversion)"),
      ("rec_key in self._cache", "pass"),
      ("rec_key in self._guard_indices", "recursive = self._guard[self._guard_indices[rec_key]:]\nself._recursive.setdefault(rec_key, set()).update(recursive)\nself._all_recursive.update(recursive)"),
      ("else", "self._guard_indices[rec_key] = len(self._guard)\nself._guard.append(rec_key)\ntry:\n    super().visit(tp)\nfinally:\n    self._guard.pop()\n    self._guard_indices.pop(rec_key)\nif rec_key in self._recursive:\n    outer = next((k for k in self._guard if rec_key in self._recursive.get(k, ())), None)\n    if outer is not None:\n        self._recursive[outer].update(self._recursive.pop(rec_key))\n    else:\n        for key in self._recursive[rec_key]:\n            self._cache[key] = True\n        assert self._cache[rec_key]\nelif rec_key not in self._all_recursive:\n    self._cache[rec_key] = False")] := by
  rfl

end Api.Rec
