import Apimodel.NoCrashThm
/-!
# C13 / C01 for general unions at one level: whatever `union()` selects behaves as try-each, and accepts
exactly when some alternative conforms
-/
namespace Api

/-! ### `dict(zip(classes, methods))` has as many entries as alternatives iff the classes are all known and distinct -/
def dstep (acc : List JClass) (c : JClass) : List JClass := if acc.contains c then acc else acc ++ [c]

theorem dedupCls_eq (l : List JClass) : dedupCls l = l.foldl dstep [] := rfl

theorem foldl_dstep_le : ∀ (l acc : List JClass), (l.foldl dstep acc).length ≤ acc.length + l.length
  | [], acc => by simp
  | c :: l, acc => by
    rw [List.foldl_cons]
    have := foldl_dstep_le l (dstep acc c)
    by_cases hc : acc.contains c = true
    · have hs : dstep acc c = acc := by unfold dstep; rw [if_pos hc]
      rw [hs] at this ⊢; simp; omega
    · have hs : dstep acc c = acc ++ [c] := by unfold dstep; rw [if_neg hc]
      rw [hs] at this ⊢; simp at this ⊢; omega

theorem foldl_dstep_nodup : ∀ (l acc : List JClass), acc.Nodup → (l.foldl dstep acc).length = acc.length + l.length →
    (acc ++ l).Nodup
  | [], acc, h, _ => by simpa using h
  | c :: l, acc, h, hl => by
    rw [List.foldl_cons] at hl
    by_cases hc : acc.contains c = true
    · have hle := foldl_dstep_le l acc
      have : dstep acc c = acc := by unfold dstep; rw [if_pos hc]
      rw [this] at hl; simp at hl; omega
    · have hs : dstep acc c = acc ++ [c] := by unfold dstep; rw [if_neg hc]
      rw [hs] at hl
      have hnd : (acc ++ [c]).Nodup := by
        rw [List.nodup_append]
        refine ⟨h, by simp, ?_⟩
        intro a ha b hb; simp at hb; subst hb; intro hab; subst hab
        exact hc (by simpa using ha)
      have := foldl_dstep_nodup l (acc ++ [c]) hnd (by simp at hl ⊢; omega)
      simpa [List.append_assoc] using this

theorem dedupCls_nodup {l : List JClass} (h : (dedupCls l).length = l.length) : l.Nodup := by
  have := foldl_dstep_nodup l [] List.nodup_nil (by rw [← dedupCls_eq, h]; simp)
  simpa using this

theorem filterMap_id_full : ∀ {l : List (Option JClass)}, (l.filterMap id).length = l.length →
    l = (l.filterMap id).map some
  | [], _ => rfl
  | none :: l, h => by
    have := List.length_filterMap_le id l
    simp [List.filterMap_cons] at h; omega
  | some c :: l, h => by
    simp only [List.filterMap_cons, id, List.length_cons, Nat.add_right_cancel_iff] at h
    simp only [List.filterMap_cons, id, List.map_cons]
    rw [← filterMap_id_full h]

/-! ### from values to acceptance -/
theorem firstOk_isSome : ∀ (ms : List Meth) (d : Py), (firstOk ms d).isSome = ms.any (fun m => (run m d).isOk)
  | [], _ => rfl
  | m :: ms, d => by
    rw [firstOk, List.any_cons, ← firstOk_isSome ms d]
    cases hr : run m d <;> simp [Outcome.val?, Outcome.isOk]

theorem isOk_val? {r : Outcome Val} : r.isOk = r.val?.isSome := by cases r <;> rfl

/-! ### alternatives, their classes and their methods, in step -/

/-- what the dispatch lemmas need about one compiled alternative, *at one datum* -/
structure AltAt (o : DOpts) (cs : Constraints) (t : Ty) (d : Py) : Prop where
  nc : (run (compile o cs t) d).isCrash = false
  acc : (run (compile o cs t) d).isOk = conforms o.additionalProperties false cs t d

/-- a type that is `float` behind NewTypes / annotations has factory class `float` -/
theorem factoryCls_of_not_noFloat : ∀ (t : Ty), t.noFloat = false → t.factoryCls = some .float
  | .float, _ => rfl
  | .newtype _ t, h => by rw [Ty.noFloat] at h; rw [Ty.factoryCls]; exact factoryCls_of_not_noFloat t h
  | .ann _ t, h => by rw [Ty.noFloat] at h; rw [Ty.factoryCls]; exact factoryCls_of_not_noFloat t h
  | .null, h | .bool, h | .int, h | .str, h | .any, h | .list _, h | .set _, h | .frozenset _, h | .vtuple _, h
  | .tuple _, h | .mapping _ _, h | .union _, h | .literal _, h | .enum _ _, h | .obj _ _, h => by
    simp [Ty.noFloat] at h

theorem mem_clsL : ∀ {ts : List Ty} {t : Ty}, t ∈ ts → t.factoryCls ∈ clsL ts
  | _ :: _, _, h => by
    rw [clsL]
    rcases List.mem_cons.1 h with rfl | h'
    · exact List.mem_cons_self ..
    · exact List.mem_cons_of_mem _ (mem_clsL h')

theorem any_compileL {o : DOpts} {cs : Constraints} : ∀ (ts : List Ty) (d : Py),
    (∀ t ∈ ts, AltAt o cs t d) →
    (compileL o cs ts).any (fun m => (run m d).isOk) = conformsAny o.additionalProperties false cs ts d
  | [], d, _ => by rw [compileL, conformsAny]; rfl
  | t :: ts, d, h => by
    rw [compileL, conformsAny, List.any_cons, (h t (List.mem_cons_self ..)).acc,
      any_compileL ts d (fun t' ht' => h t' (List.mem_cons_of_mem _ ht'))]

theorem nc_compileL {o : DOpts} {cs : Constraints} {d : Py} : ∀ (ts : List Ty), (∀ t ∈ ts, AltAt o cs t d) →
    ∀ m ∈ compileL o cs ts, (run m d).isCrash = false
  | [], _, m, hm => by rw [compileL] at hm; cases hm
  | t :: ts, h, m, hm => by
    rw [compileL] at hm
    rcases List.mem_cons.1 hm with rfl | hm'
    · exact (h t (List.mem_cons_self ..)).nc
    · exact nc_compileL ts (fun t' ht' => h t' (List.mem_cons_of_mem _ ht')) m hm'

theorem compileL_length (o : DOpts) (cs : Constraints) : ∀ ts, (compileL o cs ts).length = ts.length
  | [] => by rw [compileL]; rfl
  | t :: ts => by rw [compileL, List.length_cons, List.length_cons, compileL_length o cs ts]
theorem clsL_length : ∀ ts, (clsL ts).length = ts.length
  | [] => by rw [clsL]; rfl
  | t :: ts => by rw [clsL, List.length_cons, List.length_cons, clsL_length ts]

/-- the by-type table built from the alternatives: classes in step with methods, sound at the datum (an accepted datum
    conforms, and conforming data have the JSON class of the type: `conforms_class`) -/
theorem table_spec {o : DOpts} {cs : Constraints} {d : Py} : ∀ (ts : List Ty) (known : List JClass),
    clsL ts = known.map some → (∀ t ∈ ts, AltAt o cs t d ∧ t.noFloat = true) →
    (known.zip (compileL o cs ts)).map (·.1) = known ∧
    (known.zip (compileL o cs ts)).map (·.2) = compileL o cs ts ∧
    ByTypeSoundAt (known.zip (compileL o cs ts)) d
  | [], known, hk, _ => by
    rw [clsL] at hk
    cases known with
    | nil => rw [compileL]; exact ⟨rfl, rfl, fun p hp => by cases hp⟩
    | cons c k => cases hk
  | t :: ts, known, hk, h => by
    rw [clsL] at hk
    cases known with
    | nil => cases hk
    | cons c k =>
      simp only [List.map_cons, List.cons.injEq] at hk
      obtain ⟨ih1, ih2, ih3⟩ := table_spec ts k hk.2 (fun t' ht' => h t' (List.mem_cons_of_mem _ ht'))
      rw [compileL, List.zip_cons_cons, List.map_cons, List.map_cons, ih1, ih2]
      refine ⟨rfl, rfl, fun p hp v hv => ?_⟩
      rcases List.mem_cons.1 hp with rfl | hp'
      · have ht := h t (List.mem_cons_self ..)
        have hacc := ht.1.acc
        simp only at hv
        rw [hv] at hacc
        exact conforms_class _ _ cs t d hacc.symm c hk.1 ht.2
      · exact ih3 p hp' v hv

/-- no alternative of known class conforms to a datum that has no JSON class (a tuple, bytes, ...) -/
theorem conformsAny_noClass (ap : Bool) (cs : Constraints) (d : Py) (hd : d.jclass? = Option.none) :
    ∀ (ts : List Ty) (known : List JClass), clsL ts = known.map some → (∀ t ∈ ts, t.noFloat = true) →
    conformsAny ap false cs ts d = false
  | [], _, _, _ => by rw [conformsAny]
  | t :: ts, known, hk, hnf => by
    rw [clsL] at hk
    cases known with
    | nil => cases hk
    | cons c k =>
      simp only [List.map_cons, List.cons.injEq] at hk
      rw [conformsAny, conformsAny_noClass ap cs d hd ts k hk.2 (fun t' ht' => hnf t' (List.mem_cons_of_mem _ ht')), Bool.or_false]
      cases hc : conforms ap false cs t d with
      | false => rfl
      | true =>
        have := conforms_class ap false cs t d hc c hk.1 (hnf t (List.mem_cons_self ..))
        rw [hd] at this; cases this

/-- **C13 at the level of `union()`, at one datum.** Whatever method is selected for `Union[T1, …, Tn]` —
    `OptionalMethod`, the by-type table, or the sequential method — the datum is accepted iff it conforms to some
    alternative, provided each compiled alternative neither crashes on the datum nor disagrees with the specification
    on it, a `None`-class alternative is `None` itself and not every alternative is `None`. -/
theorem union_accepts_at (o : DOpts) (cs : Constraints) (ts : List Ty) (d : Py)
    (halt : ∀ t ∈ ts, AltAt o cs t d)
    (hside : ∀ t ∈ ts, t.factoryCls = some .null → t = .null)
    (hne : ts ≠ []) (hnn : ¬ (∀ t ∈ ts, t = .null)) :
    (run (unionSel (clsL ts) (anyNull ts) (compileL o cs ts)) d).isOk
      = conformsAny o.additionalProperties false cs ts d := by
  have hany := any_compileL ts d halt
  have hseq : (run (.union (compileL o cs ts)) d).isOk = conformsAny o.additionalProperties false cs ts d := by
    rw [isOk_val?, run, C13_sequential _ d Option.none (fun m hm => nc_compileL ts halt m hm), firstOk_isSome, hany]
  unfold unionSel
  simp only
  split
  · -- Optional
    next hopt =>
    rw [Bool.and_eq_true] at hopt
    have hlen : ts.length = 2 := by have := compileL_length o cs ts; have := hopt.2; simp at this; omega
    match ts, hlen with
    | [a, b], _ =>
      rw [compileL, compileL, compileL, clsL, clsL, clsL] at *
      simp only [anyNull, Bool.or_false, Bool.or_eq_true] at hopt
      have ha := hside a (by simp); have hb := hside b (by simp)
      rw [conformsAny, conformsAny, conformsAny, Bool.or_false]
      by_cases hca : a.factoryCls = some .null
      · have hae : a = .null := ha hca
        subst hae
        by_cases hcb : b.factoryCls = some .null
        · exact absurd (fun t ht => by
            simp at ht; rcases ht with rfl | rfl
            · rfl
            · exact hb hcb) hnn
        · have hfind : List.find? (fun p => p.1 != some JClass.null)
              ([Ty.null.factoryCls, b.factoryCls].zip [compile o cs Ty.null, compile o cs b])
              = some (b.factoryCls, compile o cs b) := by
            have hbne : (b.factoryCls != some JClass.null) = true := by simpa using hcb
            simp [List.zip, Ty.factoryCls, hbne]
          simp only [hfind]
          rw [isOk_optional, (halt b (by simp)).acc, conforms]
      · have hfind : List.find? (fun p => p.1 != some JClass.null)
            ([a.factoryCls, b.factoryCls].zip [compile o cs a, compile o cs b])
            = some (a.factoryCls, compile o cs a) := by
          have hane : (a.factoryCls != some JClass.null) = true := by simpa using hca
          simp [List.zip, hane]
        simp only [hfind]
        rw [isOk_optional, (halt a (by simp)).acc]
        -- one of the two is `None`; it is not `a`
        have hbn : b = .null := by
          rcases hopt.1 with h | h
          · exfalso; cases a <;> simp [Ty.isNull] at h; exact hca rfl
          · cases b <;> simp [Ty.isNull] at h; rfl
        subst hbn
        rw [conforms, Bool.or_comm]
  · split
    · -- by-type table
      next hbt0 =>
      rw [Bool.and_eq_true] at hbt0
      obtain ⟨hbt, hnofl⟩ := hbt0
      have hbt' : (dedupCls ((clsL ts).filterMap id)).length = (compileL o cs ts).length := by simpa using hbt
      have h1 := foldl_dstep_le ((clsL ts).filterMap id) []
      have h2 := List.length_filterMap_le id (clsL ts)
      rw [← dedupCls_eq] at h1
      rw [compileL_length] at hbt'
      rw [clsL_length] at h2
      simp at h1
      have hfull : ((clsL ts).filterMap id).length = (clsL ts).length := by rw [clsL_length]; omega
      have hk := filterMap_id_full hfull
      have hnd : ((clsL ts).filterMap id).Nodup := dedupCls_nodup (by omega)
      have hnf : ∀ t ∈ ts, t.noFloat = true := by
        intro t ht
        cases hf : t.noFloat with
        | true => rfl
        | false =>
          exfalso
          have h1 := mem_clsL ht
          rw [factoryCls_of_not_noFloat t hf, hk] at h1
          have h2 : JClass.float ∈ (clsL ts).filterMap id := by
            rcases List.mem_map.1 h1 with ⟨c, hc, hce⟩; cases hce; exact hc
          have h3 : ((clsL ts).filterMap id).contains JClass.float = true := by simpa using h2
          rw [h3] at hnofl; cases hnofl
      obtain ⟨t1, t2, t3⟩ := table_spec ts _ hk (fun t ht => ⟨halt t ht, hnf t ht⟩)
      cases hc : d.jclass? with
      | some c =>
        rw [isOk_val?, C13_byType_at _ d c t3 (by rw [t1]; exact hnd) hc, t2, firstOk_isSome, hany]
      | none =>
        -- a datum that is not an instance of a JSON class: rejected by the table, and conforming to nothing
        rw [run]; simp only [hc]
        rw [isOk_badType, conformsAny_noClass _ cs d hc ts _ hk hnf]
    · exact hseq

/-- **C13 / C01 at the level of `union()`**: the entry-point form over the C01 scope of the alternatives -/
theorem C01_accept_union (o : DOpts) (ho : OptsOk o) (cs : Constraints) (hu : cs.unique = false) (ts : List Ty)
    (hts : ∀ t ∈ ts, t.acc = true ∧ t.nouq = true ∧ (t.factoryCls = some .null → t = .null))
    (hne : ts ≠ []) (hnn : ¬ (∀ t ∈ ts, t = .null))
    (d : Py) (hj : d.json = true) (hw : d.wf = true) :
    (run (unionSel (clsL ts) (anyNull ts) (compileL o cs ts)) d).isOk
      = conformsAny o.additionalProperties false cs ts d :=
  union_accepts_at o cs ts d
    (fun t ht => ⟨(no_crash o ho).1 cs t (hts t ht).1 (hts t ht).2.1 hu d (jsonX_of_json.1 d hj),
                  (accepts_iff_conforms o ho).1 cs t (hts t ht).1 d hw⟩)
    (fun t ht => (hts t ht).2.2) hne hnn

/-- the three selections all occur -/
example : (match unionSel (clsL [.int, .str, .list .int]) (anyNull [.int, .str, .list .int]) (compileL {} {} [.int, .str, .list .int]) with
           | .unionByType _ => true | _ => false) = true := by decide +kernel
example : (match unionSel (clsL [.list .int, .tuple [.str]]) (anyNull [.list .int, .tuple [.str]]) (compileL {} {} [.list .int, .tuple [.str]]) with
           | .union _ => true | _ => false) = true := by decide +kernel
/-- a `float` alternative switches the table off (repair of row 3), and the integer is accepted -/
example : (match unionSel (clsL [.float, .str]) (anyNull [.float, .str]) (compileL {} {} [.float, .str]) with
           | .union _ => true | _ => false) = true := by decide +kernel
example : (run (unionSel (clsL [.float, .str]) (anyNull [.float, .str]) (compileL { quirks := Quirks.repaired } {} [.float, .str])) (.int 1)).isOk
    = true := by decide +kernel
example : (match unionSel (clsL [.null, .str]) (anyNull [.null, .str]) (compileL {} {} [.null, .str]) with
           | .optional _ => true | _ => false) = true := by decide +kernel

end Api
